"""Plain pytest replays of stored counter-examples, without the explorer.

  regressions/findings/<prop>/*.json : a known finding - the replay must still produce a violation with the recorded signature
                                       (if it stops doing so the finding is obsolete and must be removed from KNOWN_FINDINGS.txt);
  regressions/fixed/<prop>/*.json    : found against the revert of a fix: commit - on the current tree the replay must be clean.

run:  cd /verif && PYTHONPATH=/repo:/verif PYTHONHASHSEED=0 /venv/bin/python -m pytest -q tests/test_replays.py -p no:cacheprovider
"""
import glob
import importlib
import json
import os

import pytest

HOME = os.path.dirname(os.path.dirname(os.path.abspath(__file__)))
from mc import core  # noqa: E402


def _load(path):
    d = json.load(open(path, encoding='utf-8'))
    mod = importlib.import_module('mc.props.' + d['property'].lower())
    if hasattr(mod, 'init_worker'):
        mod.init_worker()
    return d, mod


@pytest.mark.parametrize('path', sorted(glob.glob(os.path.join(HOME, 'regressions', 'findings', '*', '*.json'))))
def test_known_finding_still_present(path):
    d, mod = _load(path)
    vs = mod.replay(core.unjson(d['case']))
    assert d['sig'] in {v['sig'] for v in vs}, (d['sig'], [v['sig'] for v in vs][:5])


@pytest.mark.parametrize('path', sorted(glob.glob(os.path.join(HOME, 'regressions', 'fixed', '*', '*.json'))))
def test_fixed_defect_stays_fixed(path):
    d, mod = _load(path)
    if d['property'] == 'C18':
        pytest.skip('C18 replays need separate processes: covered by ./check C18')
    vs = mod.replay(core.unjson(d['case']))
    known = {f.sig for f in core.load_findings() if f.prop == d['property'] and f.kind == 'finding'}
    new = [v for v in vs if v['sig'] not in known]
    assert not new, [(v['sig'], v['what'][:200]) for v in new][:3]
