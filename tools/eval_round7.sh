#!/bin/sh
# usage: eval_round4.sh C05   -> confirm /tmp/wt/out/R7C05/{a,b} as seeded/R7-C05-{a,b} and run the property's quick check cold against them
p=$1
for v in a b; do
  src=/tmp/wt/out/R7$p/$v
  [ -f $src/patch.diff ] || { echo "R7-$p-$v: no patch delivered"; continue; }
  out=$(/verif/tools/confirm_seed.py $src R7-$p-$v 2>&1)
  if echo "$out" | grep -q '"confirmed": true'; then echo "R7-$p-$v confirmed"; else echo "R7-$p-$v NOT confirmed"; echo "$out" | tail -12; fi
done
/verif/tools/run_seeded.py $(ls -d /verif/seeded/R7-$p-* 2>/dev/null | xargs -n1 basename) | tail -2
