#!/bin/sh
# Run every claimed check (quick by default) on the tree in $VERIF_REPO (default /repo); print one line per check.
tier="${1:-quick}"
cd /verif
for p in $(python3 -c "import json;print(' '.join(c['property_id'] for c in json.load(open('MANIFEST.json'))['checks']))"); do
  start=$(date +%s)
  out=$(./check $p --tier $tier 2>&1); rc=$?
  [ -n "$VERIF_LOGDIR" ] && mkdir -p "$VERIF_LOGDIR" && echo "$out" > "$VERIF_LOGDIR/$p.log"
  end=$(date +%s)
  nk=$(echo "$out" | grep -c '^KNOWN-FINDING')
  echo "$p rc=$rc $((end-start))s known=$nk $(echo "$out" | grep -E '^\[C' | cut -c1-170)"
  echo "$out" | grep -E '^VIOLATION|^HARNESS' | head -5
done
