#!/bin/sh
# usage: eval_round4.sh C05   -> confirm /tmp/wt/out/R5C05/{a,b} as seeded/R5-C05-{a,b} and run the property's quick check cold against them
p=$1
for v in a b; do
  src=/tmp/wt/out/R5$p/$v
  [ -f $src/patch.diff ] || { echo "R5-$p-$v: no patch delivered"; continue; }
  out=$(/verif/tools/confirm_seed.py $src R5-$p-$v 2>&1)
  if echo "$out" | grep -q '"confirmed": true'; then echo "R5-$p-$v confirmed"; else echo "R5-$p-$v NOT confirmed"; echo "$out" | tail -12; fi
done
/verif/tools/run_seeded.py $(ls -d /verif/seeded/R5-$p-* 2>/dev/null | xargs -n1 basename) | tail -2
