#!/venv/bin/python
"""Run the repository's own test suite (guard OFF) on a tree and compare with BASELINE.json.

usage: baseline.py [REPO_DIR]      (default /repo)
exit 0 iff every test of BASELINE.stable_pass passed.
"""
import json, os, subprocess, sys, tempfile, xml.etree.ElementTree as ET

def main() -> int:
    repo = os.path.abspath(sys.argv[1]) if len(sys.argv) > 1 else '/repo'
    base = json.load(open('/root/.vp/BASELINE.json'))
    stable = set(base['stable_pass'])
    env = dict(os.environ)
    env.pop('PYDOCTOR_VERIF', None)
    env['PYTHONPATH'] = repo
    env['PYTHONDONTWRITEBYTECODE'] = '1'
    with tempfile.TemporaryDirectory(prefix='pdbase') as td:
        junit = os.path.join(td, 'j.xml')
        cmd = ['/venv/bin/python', '-m', 'pytest', '-q', '-p', 'no:cacheprovider', '--timeout=900',
               '--continue-on-collection-errors', '-n', '16', '--junitxml=' + junit]
        p = subprocess.run(cmd, cwd=repo, env=env, stdout=subprocess.PIPE, stderr=subprocess.STDOUT, text=True)
        if not os.path.exists(junit):
            print(p.stdout[-3000:]); print('baseline: no junit file'); return 2
        passed = set(); failed = set()
        for tc in ET.parse(junit).getroot().iter('testcase'):
            name = f"{tc.get('classname')}::{tc.get('name')}"
            bad = any(ch.tag in ('failure', 'error', 'skipped') for ch in tc)
            (failed if bad else passed).add(name)
    missing = sorted(stable - passed)
    print(f'baseline: repo={repo} passed={len(passed)} failed_or_skipped={len(failed)} stable={len(stable)} stable_missing={len(missing)}')
    for m in missing[:40]:
        print('  MISSING', m)
    return 0 if not missing else 1

if __name__ == '__main__':
    sys.exit(main())
