#!/bin/sh
# Re-create seeded/<id>/patch.diff against the current /repo HEAD when it only applies with fuzz (context moved by a fix commit).
id="$1"; wt=/tmp/rebase_$$
git -C /repo worktree add --detach -q $wt HEAD || exit 2
if patch -p1 -s -d $wt -i /verif/seeded/$id/patch.diff; then
  find $wt -name '*.orig' -delete
  git -C $wt diff > /verif/seeded/$id/patch.diff.new && mv /verif/seeded/$id/patch.diff.new /verif/seeded/$id/patch.diff
  echo "rebased $id"
else
  echo "CANNOT REBASE $id"
fi
git -C /repo worktree remove --force $wt
