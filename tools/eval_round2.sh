#!/bin/sh
# confirm and evaluate the round-2 seeds of one property: tools/eval_round2.sh C05
p=$1
for x in a b; do
  d=/tmp/wt/out/R2$p/$x
  [ -f $d/patch.diff ] || { echo "R2-$p-$x: not delivered"; continue; }
  tools/confirm_seed.py $d R2-$p-$x 2>&1 | grep -E '"confirmed"|patch_applies|demo_c' | tr '\n' ' '; echo
done
tools/run_seeded.py R2-$p-a R2-$p-b 2>&1 | tail -2
