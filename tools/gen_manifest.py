#!/usr/bin/env python3
"""Regenerate /verif/MANIFEST.json from the table below (one entry per claimed property)."""
import json, os

HOME = os.path.dirname(os.path.dirname(os.path.abspath(__file__)))

# id -> (category, technique, level text, level note, design ref)
CHECKS = {
 'C13': ('model_checking',
         'exhaustive enumeration of patterns x names, rule lists and query/reparent sequences on the real code against a reference matcher/precedence model',
         'Every well-formed pattern up to 5 (thorough 7) symbols over {a,b,.,*,?,[,],!} is matched against every valid dotted name up to 5 characters by pydoctor.qnmatch and by an independent matcher written from the manual; every --privacy rule list up to 3 (thorough 4) rules over level x 6 rule shapes is evaluated on a real System and compared with a stateless precedence reference (privacyClass, isVisible, isPrivate); every sequence of up to 4 (6) query/reparent operations is executed against the privacy cache (explicit states = location x cache content). The spaces are finite and enumerated completely, so inside the bound the property is decided, not sampled.',
         'Trusted: the reference matcher and precedence reference (60 lines, written from the manual text); the pattern/name alphabets; malformed bracket expressions are outside the statement.',
         'DESIGN.md section 5, C13'),
 'C19': ('model_checking',
         'exhaustive enumeration of trees x pruning actions x extension timing sets on the real Visitor.walkabout/walk against an executable reading of the documented contract; explicit protocol state graph',
         'Every ordered tree up to 4 (thorough 5) nodes x every assignment of {none, SkipChildren, SkipSiblings, SkipNode, SkipDeparture, SkipSiblings raised from the depart method} to each node x 20 extension timing sets is walked by the real Visitor.walkabout and Visitor.walk with instrumented main visitor and VisitorExt subclasses; the recorded enter/leave trace is checked against the invariants of the statement (enter at most once, every extension enter has a leave, nesting like the tree, documented relative order) and against a 30-line reference model of the documented contract. The state graph of the walk protocol (stack of open frames) is accumulated and reported. Second half: the real ASTBuilder walks every module of the statement alphabet x 6 placements and must be back at rest (scope stack empty).',
         'Trusted: the reference reading of the docstrings in pydoctor/visitor.py; pruning exceptions are raised by the main visitor (from visit, and SkipSiblings also from depart); histories of two (thorough three) walks of one visitor with extensions registered in between.',
         'DESIGN.md section 5, C19'),
 'C05': ('model_checking',
         'exhaustive enumeration of all class-definition sequences (ordered base choices) up to five classes through source->System->Class.mro(), differential against CPython type()/__mro__/inspect.getdoc',
         'All 10 400 five-class definition sequences (class i picks an ordered subset of the earlier classes as bases; all shorter sequences are prefixes) are pushed through the full path source text -> System -> Class.mro() and compared with CPython executing the same class statements; inconsistent hierarchies must be reported for the class and still documented. All 170 sequences of up to 4 classes additionally carry every member family (defined by every non-empty subset of classes, docstring in each possible class): Class.find, inherited docstrings, inherited-member tables and "overrides" notes are compared with attribute lookup / inspect.getdoc along __mro__. Variants: generic-subscripted bases, every acyclic placement over 2 (thorough 3) modules x 3 import styles x every processing order, and all sequences at mro.mro level (thorough: all 3 390 400 six-class sequences). The space is finite and enumerated completely.',
         'Trusted: CPython as oracle; the generator of class statements. Hierarchies CPython rejects for duplicate direct bases are not generated.',
         'DESIGN.md section 5, C05'),
 'C15': ('exploration',
         'exhaustive enumeration of expression trees (depth 2, thorough depth 3), operator chains of depth 3, literal kinds and truncation settings through the real colorizer; read-back with ast.parse as oracle',
         'Every parent form x child position x child form over a 48-form expression alphabet (all unary/binary/boolean/comparison/conditional/call/subscript/attribute/container/starred/lambda/f-string/comprehension forms), every operator chain of depth 3, 80 literal leaves and 40 values x 5 line lengths x 4 max-lines settings are rendered by the real PyvalColorizer; the shown text is parsed back with CPython and must be the same AST modulo the documented respellings; shortened output must be marked (is_complete false, ellipsis, prefix of the unlimited output). Thorough adds all depth-3 trees (650 k expressions). Failures are delta-minimised to the smallest failing sub-expression and classified, so known third-party (astor) deviations do not mask new ones.',
         'Trusted: CPython ast.parse/unparse as oracle; the form alphabet. Documented respellings (set([...]), quote style, numeric formatting) are normalised on both sides.',
         'DESIGN.md section 5, C15'),
 'C14': ('exploration',
         'exhaustive enumeration of parameter layouts x return forms x contexts (and overload groups, default x annotation expressions) through the real signature renderer; CPython re-parse of the displayed text as oracle',
         'All 5 449 valid layouts of up to 4 parameters (kind x default x annotation; thorough: also all 5-parameter layouts) x 3 return forms x {function, method, classmethod, staticmethod, async} are built into real modules, rendered with pages.format_signature / format_function_def / format_overloads and parsed back by CPython as `def f<text>: pass`: names, order, kinds (separators), default positions, default and annotation ASTs (string annotations unquoted, Literal kept) and the return annotation must equal the source. 5 449 overload groups of three overloads + implementation check that each overload shows its own signature; 18 defaults x 20 annotations x 3 shapes cover the expression dimension.',
         'Trusted: CPython ast.parse as oracle; the layout generator (validated by ast.parse).',
         'DESIGN.md section 5, C14'),
 'C02': ('model_checking',
         'explicit-state exploration of analysis histories (event sequences) x processing orders on the real System; invariants I1-I8 evaluated on every reached state',
         'Every history of up to 3 (thorough 4) events over a 42-event alphabet (define, redefine as class/function/variable, nest, documented-only field, instance attribute, re-export move / renamed / star / by sibling, local definition in the re-exporter, consumers, in-module subclass, two kinds of import cycle, zope implementer) is turned into a 3-module project and built by the real System in both processing orders of the siblings (quick: 151 788 executions, 11 856 distinct final states; thorough: 6 375 180 executions, 158 904 distinct final states). On every final state the nine invariants of the statement are evaluated: registry keys = current qualified names, each object once; contents/parent agreement; parent chains rooted and registered; non-entries are superseded duplicates; kinds fit places; MRO head/once; subclasses = inverse of bases; implements/implementedby; distinct page names. Failing histories are delta-minimised to the events that matter.',
         'Trusted: the invariant evaluator (120 lines); the event alphabet; in-memory module builds (the on-disk path is cross-checked by C06/C07).',
         'DESIGN.md section 5, C02'),
 'C06': ('model_checking',
         'exhaustive enumeration of processing schedules (all sibling permutations per package, all root orders) for every program of a bounded feature family on the real System; canonical dumps compared across schedules; union processing state graph',
         'Programs are all sets of up to 2 (thorough 3) features out of 53 (cross-module bases by from-import / module attribute / star import, exception and instance-variable inheritance across modules, Final/overload/zope-Interface/__doc__-update reached through module aliases, re-exports by one module with consumers on both sides, alias chains, docformat, three kinds of import cycle) on three skeletons (flat package, sub-package, two roots). Each program is built by the real System under EVERY reachable schedule (6 / 12 / 4), imposed on System.unprocessed_modules, and the canonical dump (type, kind, docstring, bases, resolved bases, MRO, overloads, interface-ness) must be equal across schedules; for programs whose import graph has a cycle only the class hierarchy is compared. Order-dependent programs are minimised to the responsible features. On-disk cross-validation shadows the sorted() call of addPackage.',
         'Trusted: the dump (what is compared); the schedule seam (order of unprocessed_modules, validated against the real directory-listing path); import-cycle detection by ast.',
         'DESIGN.md section 5, C06'),
 'C07': ('model_checking',
         'exhaustive enumeration of a re-export program family x every processing schedule on the real System, plus full driver runs; reference = the statement (one entry at the exported name, every reference leads to it)',
         'Every combination of object kind (class with method and nested class, function, variable, class with in-module subclass) x re-exporter (package __init__, sibling) x import form (plain, renamed, star) x origin variant (no __all__, __all__ without the object, name also bound by a guarded import) x consumer (from the definer, from the re-exporter, through either module object, star import from either) x docformat is built under every permutation of its sub-modules (thorough: all consumer pairs, 24 schedules; 28 008 executions). Checked per execution: a single registry entry for the object and each member under <re-exporter>.<exported name>, none left under the definer; resolveName of every local name, Class.baseobjects/subclasses, and the href of annotation, class-header and docstring links (by local, old qualified, new qualified and member name) all lead to that object; verdicts equal across schedules. 72 programs also go through the real driver: one page/anchor at the new address, none at the old, registry equal to the in-memory build.',
         'Trusted: the program generator; the link extraction by href; CPython import semantics are not re-validated here (C04 does that).',
         'DESIGN.md section 5, C07'),
 'C03': ('exploration',
         'exhaustive enumeration of definition shapes x placements x docstring layouts (singles, ordered pairs, packages) built from real files; differential against CPython executing the same source',
         'Every definition shape (def, async def, class, exception classes incl. through local bases and mixins, static/class methods and properties in decorator and old-style form, variables, annotated/chained/tuple assignments, redefinitions of the same or another kind, nested classes, decorated functions, lambdas) x 11 placements (module, class, nested class, taken if/try/with/for bodies at module and class level, function body and __main__ block as negatives) x 12 docstring layouts is written to files, analysed by the real builder and executed by CPython: per namespace the planted names must be documented exactly when CPython binds them, with the kind CPython gives them, the docstring inspect.cleandoc(__doc__) reports, and an inferred literal type that is the actual type. Ordered pairs in one scope (colliding and distinct names), a 40-value literal alphabet and 10 two/three-module packages with cross-module exception bases complete the family.',
         'Trusted: CPython as oracle; the source generator. Outside the agreed subset and not generated: aliases, bare annotations, instance variables, property setters, else/except/finally/while/match bodies, re-assignment of a def/class name.',
         'DESIGN.md section 5, C03'),
 'C04': ('exploration',
         'exhaustive enumeration of import/alias statement templates (singles, thorough: ordered pairs) x consumer scopes on a two-root skeleton; differential against a real CPython import of the same files',
         'An 85-template alphabet (plain / aliased / relative level 1-2 / star imports, imports of packages, sub-modules and re-imported names, multi-target imports, alias assignments through names and module paths) is placed in 9 consumer scopes (module, package __init__, sub-package __init__, module of another root, a class body in each, a nested class body). Each project is first imported by CPython (statements it rejects or that bind a name twice are filtered), then analysed by pydoctor from the same files. Every name bound in the scope and every dotted extension up to 3 parts that CPython evaluates to an ID-carrying object is resolved with resolveName: a returned object must carry the same ID (soundness); names imported directly from their defining module and paths through module aliases must resolve (completeness).',
         'Trusted: CPython import machinery as oracle; ID docstrings as identity. Self-imports (a module importing itself) count as cycles and are not judged.',
         'DESIGN.md section 5, C04'),
 'C08': ('fault_enumeration',
         'exhaustive enumeration of markup-token strings x docformats x process-types x object kinds through the real parse/render pipeline, plus exhaustive fault injection at every parser/renderer/linker entry point',
         'Input half: every string of up to 3 tokens over a 16-token interaction-prone subset and up to 2 tokens over the full 38-token markup alphabet (epytext/reST/google/numpy markup fragments, field tags, control characters, lone surrogate, U+FFFF, U+00A0, CR) x 5 docformats x {process-types} x 5 object kinds (thorough: up to 3 over all 38 tokens, up to 4 over the subset: ~600 k docstrings) is installed through Documentable.setDocstring and rendered (parsed form, body, summary, toc, all flattened). Nothing may raise or hang; when the parser or the conversion gives up (decided by calling them directly) the object must be reported and the complete original text shown; problems docutils recovers from must be reported; a sibling object must render byte-identically. Fault half: RuntimeError/AssertionError/RecursionError/KeyError injected at each of 29 parser, to_node/to_stan, node2stan, linker, summary, toc and type-renderer entry points x 5 formats x {process-types}: no escape from body, summary or toc; body faults are reported and the text stays visible.',
         'Trusted: direct parser/to_stan calls as the definition of "gave up"; the token alphabet; harness-side patching as the fault model (an exception at function entry).',
         'DESIGN.md section 5, C08'),
 'C09': ('exploration',
         'exhaustive enumeration of documents from a structure grammar (blocks x fields), serialised to each docformat and rendered by the real pipeline; oracle = the generator\'s intended text (unique word tokens)',
         'Documents are all sequences of up to 2 (thorough 3) blocks from a 20-variant grammar (paragraphs with each inline form, bullet lists with one/two items, nested list, second paragraph in an item, enumerated list, literal / doctest / code blocks, section, admonition, versionchanged/deprecated/versionadded directives with and without body, definition list, block quote) combined with no field, each of 17 fields (thorough: ordered pairs of fields), serialised to epytext, reST, google and numpy and installed as real indented triple-quoted literals. Every word is a unique token, so the oracle needs no expected strings: description tokens appear once each and in source order, literal/doctest/code blocks are character-exact after dedent, no markup residue stays in prose, each field\'s tokens sit in the table row of its entry (Parameters/a, Returns, Raises/ValueError, ...) or are reported; plaintext is reproduced exactly; @ivar/@cvar/@var fields show on their attribute. Thorough: 354 899 documents.',
         'Trusted: the serializers (validated: a parse error on a generated document is itself flagged); the mapping field -> table entry.',
         'DESIGN.md section 5, C09'),
 'C11': ('exploration',
         'exhaustive enumeration of feature sets x configurations as full driver runs; complete crawl of every output tree (every href/src/id/name, search documents, model-to-page direction)',
         'Projects are all sets of up to 2 (thorough 3 over a 14-feature core) link-producing features out of 31 (inheritance across modules, overrides, inherited docstrings with cross-references, summary cross-references, xrefs to every object kind, annotation/default/constant links, generic bases, constructors, nested classes, re-export, duplicates and subclasses of duplicates, private and hidden bases/modules/members, zope, properties, overloads, deprecation, sections, documented-only attributes, a module named like its root, non-ASCII names, two roots, a 52-module package) x up to 9 configurations (3 themes, sidebar depth 1-3, no sidebar, toc depth 0, source links). Every project is run through the real driver and the whole output tree is crawled: each relative href/src must name a written file and an existing id/name; all-documents url fields likewise; every visible module/class must have its page at obj.url and every visible function/variable its anchor. Violations are classified by clause, link producer, target category and source-page class.',
         'Trusted: html.parser based extraction; percent-decoding of hrefs as browsers do. Absolute URLs and intersphinx links are not followed.',
         'DESIGN.md section 5, C11'),
 'C12': ('exploration',
         'exhaustive enumeration of (project, object, rule form) as full driver runs; the whole output tree is searched for traces of the hidden object and for unmarked listing entries of the private object',
         'For each of 30 single-feature projects and each visible object of it, the real driver is run with --privacy HIDDEN:<exact name>, HIDDEN:<pattern matching exactly it> and PRIVATE:<name> (thorough: PRIVATE by pattern, sidebar depth 3, and all pairs of objects hidden together on 12 projects). Hidden: for the object and everything in its contents tree there must be no page, no id/name, no href that resolves to its page or anchor anywhere, no all-documents entry, no lunr document in either search index, no inventory line - and the rest of the site must stay link-consistent. Private: the object is rendered and every member-table row, member-detail block, sidebar item, module-index item and search document for it carries the private marker (extracted with an expat DOM walk).',
         'Trusted: the listing extraction (table.children rows, member divs, sidebar/module-index li, all-documents li); plain-text mentions are allowed.',
         'DESIGN.md section 5, C12'),
 'C17': ('fault_enumeration',
         'exhaustive single-fault enumeration over the bytes and lines of an inventory fed to the real reader, plus round trips of written inventories through pydoctor\'s and Sphinx\' readers',
         'Robustness: a 6-line valid inventory is mutated in every single way of the fault alphabet - every truncation point of header and compressed body, every byte of header and of the uncompressed payload replaced by each of {NUL, LF, #, space, 0xFF, x}, each header line removed or duplicated, 8 body encodings (raw, gzip, zlib of garbage, empty, trailing junk, double zlib, raw deflate, CRLF), 5 URL shapes, and every payload line of up to 5 (thorough 6) columns over a 7-token column alphabet between two control lines (thorough: 140 588 loads). update() must return; untouched control lines must still resolve; a line that is neither used nor a non-py line must be reported; a wholly unusable file must be reported. Round trip: for every single-feature project x 3 privacy variants and every feature pair, objects.inv written by the real driver is read by SphinxInventory (stub cache) and by Sphinx InventoryFile: names = visible objects reachable through contents, each once, link = base + obj.url.',
         'Trusted: Sphinx 9.1 as second reader; the reference reading of the line format (type column = the one before the first integer column).',
         'DESIGN.md section 5, C17'),
 'C10': ('exploration',
         'exhaustive enumeration of payloads x sinks (thorough: sink pairs) as full driver runs; every written page parsed with expat and walked as a DOM with marker names',
         'A 34-payload alphabet (tags, attribute break-outs for both quote styles, closing tags, script in two spellings, bare ampersand, entity look-alikes, CDATA / comment / PI delimiters, C0/C1 controls, U+FFFE, U+2028, javascript: URL, word-wrap-point literals, reST injection through non-LF line separators and backquotes) is planted in each of 48 sinks (docstring words, inline code, literal/doctest/code blocks, field bodies and arguments, @ivar names, xref targets and labels, URLs, titles - per docformat; string/bytes/multi-line/regex/f-string constants, defaults, annotations, Literal, type comments, decorators, bases and class keywords, __all__/__docformat__, deprecated() texts, zope attributes, attribute docstrings, constructor summaries, summaries, __doc__ assignment, overloads, attrs, file names, project name/URL/version options). Every case is a full driver run; every page must parse as XML and the markers may occur only in text nodes and attribute values, never as element/attribute names, comments, CDATA, PIs, inside script/style, in on* attributes or javascript: URLs; verbatim sinks must show the payload literally (escaped exactly once). Thorough adds all ordered pairs of 43 sinks with the two most dangerous payloads.',
         'Trusted: expat as well-formedness authority; the marker discipline (an injection is recognisable by name, no reference run needed). Explicit raw/include directives and explicit link targets written by the docstring author are outside the statement.',
         'DESIGN.md section 5, C10'),
 'C16': ('exploration',
         'exhaustive enumeration of problem kind x owner x docformat x layout x position x offset as generated modules with known ground-truth lines, run through the real driver; stdout lines and exit statuses compared with the planted truth',
         'Each generated module carries exactly one planted problem (unresolvable cross-reference, markup error, unknown field, documented parameter that does not exist) in a module / class / function / method / attribute docstring, under epytext, reST, google and numpy, in 6 layouts (text on the opening line, below it, after 1 or 2 blank lines, after a whitespace-only line, after trailing blanks on the quote line) x nesting 0-2 x raw/plain x decorator, at 5 positions (first / second line of the first paragraph, second paragraph, list item, field body) and offsets {0,1,3}; 20 modules per -W run, attributed by file name (quick 5 136, thorough ~25 000 modules). Every line reported for the file must lie in [start of the containing block, line of the problem] for epytext/reST, inside the docstring for google/numpy; offset k must shift the report by exactly k; the -W status must be 3 iff anything was printed. 40 single-problem runs check the statuses with and without -W (2 iff a fatal markup error, else 0).',
         'Trusted: the source generator that knows the physical lines; message wording is not judged.',
         'DESIGN.md section 5, C16'),
 'C01': ('exploration',
         'exhaustive enumeration of statement shapes x placements x docformats (singles and ordered pairs), file-level and multi-file items as full driver runs, batched 20 per run with bisection',
         'A 208-shape statement alphabet - one item per shortcut in the AST builder, astutils, the model, the extensions and the renderers (definitions, decorators incl. overload/deprecated/property/old-style wrappers, class headers, every assignment and annotation form, Final/ClassVar/TypeAlias/TypeVar, __doc__/__all__/__docformat__ assignments incl. unevaluable values, imports, control-flow containers, string statements, every ast.expr class as value/default/annotation/decorator argument/base, regex constants incl. pathological ones, depth and size items, zope/attrs/deprecate extension inputs, PEP 695 syntax) - is instantiated in 6 placements and run under all 5 docformats; all ordered pairs of a 40-shape collision subset (thorough: of all shapes in module and class scope under 3 docformats, ~120 k cases) share one scope. 46 file-level items (undecodable, unparsable, odd names, odd tree shapes) sit next to a good module and 8 multi-file projects exercise cycles and re-exports of missing or unparsable modules. Each run must return with status 0/2/3 without exception or hang, write index, summary pages, both search indexes (valid JSON), objects.inv (inflatable) and one page per module; unparsable files are named on stdout and the sibling stays documented. Failing batches are bisected to single cases and pairs are attributed to the failing component.',
         'Trusted: the alphabet as a faithful cover of the code\'s branches (new branches need new items); in-process driver.main (a conformance subset runs as subprocess in C18).',
         'DESIGN.md section 5, C01'),
 'C18': ('model_checking',
         'exhaustive enumeration of environment answers (hash seeds in a bounded range, directory-listing permutations through an interposed sitecustomize) x output-directory histories for each project/options, in separate processes; byte comparison of output trees; explicit state graph of the histories',
         'For 6 project shapes (1/2/3 roots x project name given or guessed) x 3 option variants (default, source member order, readthedocs theme + sidebar depth 3 + source links), `python -m pydoctor` is run in separate processes with SOURCE_DATE_EPOCH fixed: reference (seed 0, sorted listing), hash seeds 1..7 (thorough 1..63), 6 (thorough 27) permutations of what pathlib.Path.iterdir / os.scandir / os.listdir return (a sitecustomize on PYTHONPATH - an environment seam, no source change), and histories of the output directory (second run into the same directory, runs with another seed and listing order into the directory left by the previous run, three in a row). The projects contain what is sensitive: chained assignments (tied sort keys under source order), names that differ only in case (members and module files Shapes.py/shapes.py), set and frozenset constants and defaults, diamond inheritance, several subclasses/implementers, a re-export. Every output tree (files, symlink targets, names) must hash to the single state of its project/options: 18 states, 288 (thorough ~1 700) transitions.',
         'Trusted: the interposed listing functions cover every way pydoctor lists directories; seeds beyond the explored range are not covered; the order of roots on the command line is a different invocation.',
         'DESIGN.md section 5, C18'),
 'C20': ('exploration',
         'exhaustive enumeration of option actions x value alphabet x 3 file formats (+ override, accumulation, unknown keys) through the real Options.from_args, and of all short strings over a quoting alphabet x quoting forms through the real config parsers',
         'Option actions are enumerated from options.get_parser() at run time. For each action x each value of its type alphabet (20 strings with spaces, separators, comment characters, quotes, unicode, percent, empty; every choice + an invalid one; integers incl. invalid; counts; lists of 0-3 items incl. duplicates, commas, brackets) x {pyproject.toml, setup.cfg, pydoctor.ini}, Options.from_args in a scratch cwd must give the same attr.asdict (or the same exit) as the command line; file + command line with different values must let the command line win (append: replace or extend), repeated items accumulate in order in every source; 17 unknown keys (typos, underscore/dash and case variants, odd characters) must warn, not abort, apply nothing and leave the neighbouring known key applied. Quoting: every string of up to 3 (thorough 4) symbols over {a, space, \', ", backslash, #, ;, %, [, ], comma, newline} written single-, double-, triple-quoted (one line and physically multi-line where the format preserves it), with % raw and doubled, and as TOML basic/literal strings must read back as itself (thorough ~250 k reads). Failing strings are delta-minimised.',
         'Trusted: the serializers for the three formats (quoted INI values are single-line Python literals); configparser/toml behaviour is part of what is tested.',
         'DESIGN.md section 5, C20'),
}


def main() -> None:
    props = [json.loads(l) for l in open(os.path.join(HOME, 'properties.jsonl'))]
    checks = []
    na = []
    for p in props:
        pid = p['id']
        mod = os.path.join(HOME, 'mc', 'props', pid.lower() + '.py')
        if pid in CHECKS and os.path.exists(mod):
            cat, tech, text, note, ref = CHECKS[pid]
            checks.append({
                'property_id': pid,
                'quick_cmd': f'./check {pid} --tier quick',
                'thorough_cmd': f'./check {pid} --tier thorough',
                'evidence_file': f'/verif/evidence/{pid}.json',
                'replay_cmd_template': f'./check {pid} --replay {{path}}',
                'engine': 'mc',
                'level_claimed': {'category': cat, 'text': text, 'design_ref': ref},
                'level_note': note,
                'technique': tech,
            })
        else:
            na.append({'property_id': pid, 'reason': 'not claimed in this revision: the bounded-exhaustive check designed in DESIGN.md section 5 is not built yet (nothing about the property makes the technique inapplicable)'})
    man = {
        'version': 1,
        'setup_cmd': 'mkdir -p evidence replay && ./check --selftest',
        'hooks': {
            'guard': 'PYDOCTOR_VERIF',
            'enable': 'no source hooks are needed: every check imports pydoctor from the working tree ($VERIF_REPO, default /repo) through PYTHONPATH and drives it through public seams; ./check exports PYDOCTOR_VERIF=1 (reserved, not read by the sources)',
            'baseline_off_cmd': '/verif/tools/baseline.py /repo',
            'source_commits': [],
            'add_only': True,
        },
        'engines': [{
            'name': 'mc', 'path': '/verif/mc', 'serves_properties': [c['property_id'] for c in checks],
            'kind_free_text': 'hand-written explicit-state / bounded-exhaustive explorer for Python code: ordered finite job spaces sharded over 16 forked workers; each case is executed on the real pydoctor implementation and judged by a reference model, CPython itself or a state invariant; new violations are re-executed in a fresh process and stored as replay files',
        }],
        'checks': checks,
        'notes': 'See DESIGN.md. Exit 0 = property held on everything explored (KNOWN-FINDING lines possible), 1 = VIOLATION line printed, 2 = harness error (never reported as a violation). VERIF_REPO selects the tree (default /repo).',
        'not_applicable': na,
    }
    with open(os.path.join(HOME, 'MANIFEST.json'), 'w') as fh:
        json.dump(man, fh, indent=1)
        fh.write('\n')
    print('claimed:', [c['property_id'] for c in checks])


if __name__ == '__main__':
    main()
