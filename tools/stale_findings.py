#!/usr/bin/env python3
"""List the known findings that matched no case in ANY of the given check logs (quick and thorough runs of every check):
candidates for retirement (the deviation was repaired as a side effect of a fix, or the space no longer produces it).
usage: stale_findings.py LOG [LOG ...]   (logs = stdout of ./check Cxx [--tier thorough])"""
import re
import sys
seen = {}
for f in sys.argv[1:]:
    for line in open(f, errors='replace'):
        m = re.match(r'KNOWN-FINDING: property=(C\d\d) sig=(\S+) .*\[cases matching in this run: (\d+)\]', line)
        if m:
            key = (m.group(1), m.group(2))
            seen[key] = max(seen.get(key, 0), int(m.group(3)))
for (p, sig), n in sorted(seen.items()):
    if n == 0:
        print(p, sig)
