#!/bin/sh
# Re-confirm every kept seeded defect against the current /repo HEAD (fix commits may invalidate a seed's trigger).
cd /verif
for d in ${SEEDS:-seeded/C* seeded/R2-* seeded/R3-*}; do
  id=$(basename $d)
  out=$(tools/confirm_seed.py $d ${id}-recheck 2>&1)
  ok=$(echo "$out" | grep -c '"confirmed": true')
  rm -rf seeded/${id}-recheck
  echo "$id still_valid=$ok"
done
