#!/venv/bin/python
"""Apply a patch to a scratch worktree of /repo and run checks against it (never touches /repo).

usage: try_patch.py PATCH [--baseline] [--tier quick] PROP [PROP ...]
Prints one line per property: exit status and the VIOLATION lines.  The worktree is removed afterwards.
Evidence/replay files of these runs go to a scratch directory, not to /verif/evidence.
"""
import os, shutil, subprocess, sys, tempfile

def main() -> int:
    args = sys.argv[1:]
    patch = os.path.abspath(args.pop(0))
    baseline = '--baseline' in args
    if baseline: args.remove('--baseline')
    tier = 'quick'
    if '--tier' in args:
        i = args.index('--tier'); tier = args[i + 1]; del args[i:i + 2]
    keep = None
    if '--keep-replays' in args:
        i = args.index('--keep-replays'); keep = args[i + 1]; del args[i:i + 2]
    props = args
    wt = tempfile.mkdtemp(prefix='mut', dir='/tmp')
    os.rmdir(wt)
    scratch = tempfile.mkdtemp(prefix='mutev', dir='/dev/shm')
    rc_all = 0
    try:
        subprocess.run(['git', '-C', '/repo', 'worktree', 'add', '--detach', '-q', wt, 'HEAD'], check=True)
        p = subprocess.run(['git', '-C', wt, 'apply', patch], capture_output=True, text=True)
        if p.returncode:
            p = subprocess.run(['git', '-C', wt, 'apply', '--3way', patch], capture_output=True, text=True)
        if p.returncode:
            p = subprocess.run(['patch', '-p1', '-d', wt, '-i', patch], capture_output=True, text=True)
            if p.returncode:
                print('PATCH DOES NOT APPLY', p.stdout, p.stderr); return 2
        if baseline:
            b = subprocess.run(['/verif/tools/baseline.py', wt], capture_output=True, text=True)
            print(b.stdout.strip().splitlines()[0] if b.stdout else b.stderr)
        env = dict(os.environ, VERIF_REPO=wt, VERIF_EVIDENCE_DIR=scratch + '/ev', VERIF_REPLAY_DIR=scratch + '/replay')
        for prop in props:
            r = subprocess.run(['/verif/check', prop, '--tier', tier], env=env, capture_output=True, text=True)
            lines = [l for l in r.stdout.splitlines() if l.startswith(('VIOLATION', '  sig=', 'HARNESS', '[C'))]
            print(f'== {prop}: exit={r.returncode}')
            for l in lines[:14]: print('   ', l[:400])
            if r.returncode not in (0, 1):
                print(r.stdout[-1500:], r.stderr[-1500:])
            if keep and os.path.isdir(scratch + '/replay/' + prop):
                os.makedirs(os.path.join(keep, prop), exist_ok=True)
                for f in sorted(os.listdir(scratch + '/replay/' + prop))[:3]:
                    shutil.copy(os.path.join(scratch, 'replay', prop, f), os.path.join(keep, prop, os.path.basename(patch).replace('.patch', '') + '-' + f))
    finally:
        subprocess.run(['git', '-C', '/repo', 'worktree', 'remove', '--force', wt], capture_output=True)
        shutil.rmtree(wt, ignore_errors=True)
        shutil.rmtree(scratch, ignore_errors=True)
    return rc_all

if __name__ == '__main__':
    sys.exit(main())
