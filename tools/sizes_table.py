#!/venv/bin/python
"""Print the measured-size table of DESIGN.md section 9.2 from evidence files.
usage: sizes_table.py [QUICK_EVIDENCE_DIR [THOROUGH_EVIDENCE_DIR]]   (defaults: /verif/evidence, none)"""
import json, os, sys

def load(d):
    out = {}
    if d and os.path.isdir(d):
        for f in sorted(os.listdir(d)):
            if f.endswith('.json'):
                e = json.load(open(os.path.join(d, f)))
                out[e['property_id']] = e
    return out

def cell(e):
    if not e:
        return '-'
    c = e['coverage']
    s = f"{c['evaluations']:,} evaluations".replace(',', ' ')
    if c.get('states'):
        s += f", {c['states']:,} states / {c.get('transitions', 0):,} transitions".replace(',', ' ')
    s += f", {c['jobs_completed']}/{c['jobs']} jobs, {e['wall_s']:.0f} s"
    if not c.get('exhaustive', True):
        s += ' (CAPPED)'
    return s

def main():
    q = load(sys.argv[1] if len(sys.argv) > 1 else '/verif/evidence')
    t = load(sys.argv[2] if len(sys.argv) > 2 else None)
    print('| id | level | quick | thorough | known-finding signatures matched |')
    print('|----|-------|-------|----------|----------------------------------|')
    for pid in sorted(set(q) | set(t)):
        e = q.get(pid) or t.get(pid)
        kf = len((q.get(pid) or t.get(pid))['coverage'].get('known_findings_matched', {}))
        print(f"| {pid} | {e['level']} | {cell(q.get(pid)) if q.get(pid) and q[pid]['tier'] == 'quick' else '-'} | {cell(t.get(pid)) if t.get(pid) else '-'} | {kf} |")

main()
