#!/venv/bin/python
"""Confirm a seeded defect delivered by a sub-agent and keep it under /verif/seeded/<id>/.

usage: confirm_seed.py SRC_DIR SEED_ID
  SRC_DIR contains patch.diff, demo.py, meta.json.
Confirms in a scratch worktree of /repo (removed afterwards):
  demo on clean tree exits 0; patch applies; repository test-suite still matches the baseline;
  demo on changed tree exits non-zero.
"""
import json, os, shutil, subprocess, sys, tempfile, time

def run(cmd, **kw):
    return subprocess.run(cmd, capture_output=True, text=True, **kw)

def main() -> int:
    src, sid = os.path.abspath(sys.argv[1]), sys.argv[2]
    wt = tempfile.mkdtemp(prefix='seedwt', dir='/tmp'); os.rmdir(wt)
    rec = {'at': time.strftime('%Y-%m-%d %H:%M:%S'), 'repo_head': run(['git', '-C', '/repo', 'rev-parse', '--short', 'HEAD']).stdout.strip()}
    ok = False
    try:
        run(['git', '-C', '/repo', 'worktree', 'add', '--detach', '-q', wt, 'HEAD'])
        env = dict(os.environ, PYTHONPATH=wt, PYTHONDONTWRITEBYTECODE='1')
        env.pop('PYDOCTOR_VERIF', None)
        d0 = run(['/venv/bin/python', os.path.join(src, 'demo.py')], env=env, cwd='/tmp', timeout=600)
        rec['demo_clean_exit'] = d0.returncode
        p = run(['git', '-C', wt, 'apply', os.path.join(src, 'patch.diff')])
        if p.returncode:
            p = run(['patch', '-p1', '-d', wt, '-i', os.path.join(src, 'patch.diff')])
        rec['patch_applies'] = p.returncode == 0
        if p.returncode == 0:
            b = run(['/verif/tools/baseline.py', wt])
            rec['baseline'] = (b.stdout.strip().splitlines() or ['?'])[0]
            rec['baseline_exit'] = b.returncode
            d1 = run(['/venv/bin/python', os.path.join(src, 'demo.py')], env=env, cwd='/tmp', timeout=600)
            rec['demo_changed_exit'] = d1.returncode
            rec['demo_changed_tail'] = (d1.stdout + d1.stderr)[-600:]
            ok = d0.returncode == 0 and b.returncode == 0 and d1.returncode != 0
    finally:
        run(['git', '-C', '/repo', 'worktree', 'remove', '--force', wt]); shutil.rmtree(wt, ignore_errors=True)
    rec['confirmed'] = ok
    print(json.dumps(rec, indent=1))
    if ok:
        dst = os.path.join('/verif/seeded', sid)
        os.makedirs(dst, exist_ok=True)
        for f in ('patch.diff', 'demo.py'):
            shutil.copy(os.path.join(src, f), os.path.join(dst, f))
        meta = json.load(open(os.path.join(src, 'meta.json')))
        meta['id'] = sid
        meta['origin'] = 'independent sub-agent given only the property text and a scratch worktree'
        meta['confirmation'] = rec
        json.dump(meta, open(os.path.join(dst, 'meta.json'), 'w'), indent=1)
    return 0 if ok else 1

if __name__ == '__main__':
    sys.exit(main())
