#!/venv/bin/python
"""For every `fixed:` line of KNOWN_FINDINGS.txt: build the revert of that fix commit against the current /repo HEAD (scratch
worktree), and run the quick check of the property against it: the defect must be reported again.  Also runs the hand-written
mutants under mutants/*.patch named <PROP>-*.patch.  Writes mutants/RESULTS.json."""
import json, os, re, subprocess, sys, tempfile, shutil

HOME = '/verif'

def sh(cmd, **kw):
    # (a detection run only needs the first violation: the check stops there)
    kw.setdefault('env', dict(os.environ, VERIF_STOP_AT_FIRST_VIOLATION='1'))
    return subprocess.run(cmd, capture_output=True, text=True, **kw)

def revert_patch(commit: str) -> str:
    wt = tempfile.mkdtemp(prefix='rv', dir='/tmp'); os.rmdir(wt)
    try:
        sh(['git', '-C', '/repo', 'worktree', 'add', '--detach', '-q', wt, 'HEAD'])
        r = sh(['git', '-C', wt, 'revert', '--no-commit', commit])
        if r.returncode:
            return ''
        d = sh(['git', '-C', wt, 'diff', 'HEAD']).stdout
        return d
    finally:
        sh(['git', '-C', '/repo', 'worktree', 'remove', '--force', wt]); shutil.rmtree(wt, ignore_errors=True)

def run(patch: str, prop: str):
    p = sh([f'{HOME}/tools/try_patch.py', patch, prop])
    m = re.search(r'== %s: exit=(\d+)' % prop, p.stdout)
    return (int(m.group(1)) if m else None), re.findall(r'sig=(\S+)', p.stdout)[:4], p.stdout[-300:]

def main():
    results = {}
    only = sys.argv[1:]
    for line in open(f'{HOME}/KNOWN_FINDINGS.txt'):
        m = re.match(r'fixed: property=(C\d+) ([0-9a-f]{7,}) (.*)', line.strip())
        if not m:
            continue
        prop, commit, text = m.groups()
        name = f'revert-{commit}'
        if only and name not in only and prop not in only:
            continue
        d = revert_patch(commit)
        path = f'{HOME}/mutants/{name}.patch'
        if not d:
            results[f'{name}/{prop}'] = {'property': prop, 'what': text[:160], 'status': 'revert does not apply cleanly on HEAD (later commits touch the same lines)'}
            print(name, prop, 'REVERT-CONFLICT'); continue
        open(path, 'w').write(d)
        rc, sigs, tail = run(path, prop)
        results[f'{name}/{prop}'] = {'property': prop, 'what': text[:160], 'exit': rc, 'detected': rc == 1, 'signatures': sigs}
        print(name, prop, 'exit=%s' % rc, 'DETECTED' if rc == 1 else 'MISSED', sigs[:2])
    for f in sorted(os.listdir(f'{HOME}/mutants')):
        m = re.match(r'(C\d+)-.*\.patch$', f)
        if m and (not only or m.group(1) in only or f in only):
            rc, sigs, tail = run(f'{HOME}/mutants/{f}', m.group(1))
            results[f] = {'property': m.group(1), 'exit': rc, 'detected': rc == 1, 'signatures': sigs}
            print(f, 'exit=%s' % rc, 'DETECTED' if rc == 1 else 'MISSED', sigs[:2])
    path = f'{HOME}/mutants/RESULTS.json'
    old = (json.load(open(path)) if os.path.exists(path) else {}) if only else {}
    old.update(results)
    json.dump(old, open(path, 'w'), indent=1, sort_keys=True)

if __name__ == '__main__':
    main()
