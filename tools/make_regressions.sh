#!/bin/sh
# (Re)create the exemplar replay files: one per known finding (from a thorough-or-quick run on the unchanged tree) and up to
# three per fixed defect (from the quick check run against the revert of the fix).
cd /verif
rm -rf regressions/findings regressions/fixed; mkdir -p regressions/findings regressions/fixed
for p in $(grep '^finding:' KNOWN_FINDINGS.txt | sed 's/.*property=\(C[0-9]*\).*/\1/' | sort -u); do
  tier=quick; [ "$p" = C15 ] || [ "$p" = C06 ] && tier=thorough
  VERIF_DUMP_KNOWN=/verif/regressions/findings VERIF_EVIDENCE_DIR=/dev/shm/regev ./check $p --tier $tier >/dev/null 2>&1
done
for f in mutants/revert-*.patch mutants/C01-revert-c678c43-by-hand.patch; do
  c=$(basename $f .patch | sed 's/revert-//')
  for p in $(grep "^fixed:.* $c " KNOWN_FINDINGS.txt | sed 's/.*property=\(C[0-9]*\).*/\1/'; [ "$c" = C01-c678c43-by-hand ] && echo C01); do
    VERIF_STOP_AT_FIRST_VIOLATION=1 tools/try_patch.py $f --keep-replays /verif/regressions/fixed $p >/dev/null 2>&1
  done
done
rm -rf /dev/shm/regev
find regressions -name '*.json' | wc -l
