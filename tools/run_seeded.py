#!/venv/bin/python
"""Run the quick (or given tier) check of each seeded defect's property against the defect, in scratch worktrees.

usage: run_seeded.py [--tier quick] [ID ...]     (default: every seeded/<id> whose property is claimed)
Writes/updates seeded/RESULTS.json and prints a table.  /repo is never modified.
"""
import json, os, re, subprocess, sys, time
from concurrent.futures import ThreadPoolExecutor

HOME = '/verif'

def one(sid, tier):
    meta = json.load(open(f'{HOME}/seeded/{sid}/meta.json'))
    prop = meta['property']
    t0 = time.time()
    p = subprocess.run([f'{HOME}/tools/try_patch.py', f'{HOME}/seeded/{sid}/patch.diff', '--tier', tier, prop], capture_output=True, text=True,
                       env=dict(os.environ, VERIF_STOP_AT_FIRST_VIOLATION='1'))
    m = re.search(r'== %s: exit=(\d+)' % prop, p.stdout)
    rc = int(m.group(1)) if m else None
    if rc != 1:
        # a violation that depends on state left by EARLIER jobs of the same worker cannot be confirmed from the first failing job alone:
        # run the check to the end, as the registered command does
        p = subprocess.run([f'{HOME}/tools/try_patch.py', f'{HOME}/seeded/{sid}/patch.diff', '--tier', tier, prop], capture_output=True, text=True)
        m = re.search(r'== %s: exit=(\d+)' % prop, p.stdout)
        rc = int(m.group(1)) if m else None
    sigs = re.findall(r'sig=(\S+)', p.stdout)
    return sid, {'property': prop, 'tier': tier, 'exit': rc, 'detected': rc == 1, 'signatures': sigs[:6], 'wall_s': round(time.time() - t0, 1),
                 'summary': meta.get('summary', '')[:300], 'tail': '' if rc == 1 else p.stdout[-600:]}

def main():
    args = sys.argv[1:]
    tier = 'quick'
    if '--tier' in args:
        i = args.index('--tier'); tier = args[i + 1]; del args[i:i + 2]
    claimed = {c['property_id'] for c in json.load(open(f'{HOME}/MANIFEST.json'))['checks']}
    ids = args or sorted(d for d in os.listdir(f'{HOME}/seeded') if os.path.isfile(f'{HOME}/seeded/{d}/meta.json'))
    ids = [i for i in ids if json.load(open(f'{HOME}/seeded/{i}/meta.json'))['property'] in claimed]
    path = f'{HOME}/seeded/RESULTS.json'
    results = json.load(open(path)) if os.path.exists(path) else {}
    with ThreadPoolExecutor(max_workers=3) as ex:
        for sid, r in ex.map(lambda s: one(s, tier), ids):
            results[sid] = r
            print(f"{sid:8} {r['property']} exit={r['exit']} detected={r['detected']} {r['wall_s']}s {r['signatures'][:2]}")
    json.dump(results, open(path, 'w'), indent=1, sort_keys=True)

if __name__ == '__main__':
    main()
