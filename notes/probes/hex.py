from run import run
big = 'X = 0x' + 'f'*6000 + '\n'
for name, files in {'hexconst': {'pk/__init__.py': 'from typing import Final\nX: Final = 0x'+'f'*6000+'\n'}, 'hexdefault': {'pk/__init__.py': 'def f(a=0x'+'f'*6000+'): pass\n'}}.items():
    rc, exc, out, err, listing = run(files)
    print(name, rc, (exc or '')[-400:])
