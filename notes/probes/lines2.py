import re, sys
sys.path.insert(0,'/tmp/probe')
from run import run
def mk(owner, fmt, first_on_open, lead, nest, raw, k):
    ref = {'epytext':'L{nopeX}','restructuredtext':'`nopeX`','google':'`nopeX`','numpy':'`nopeX`'}[fmt]
    body = ['Para one '+ref.replace('X','1'), '', 'Para two', 'more '+ref.replace('X','2'), '']
    q=('r' if raw else '')+'"""'
    def doc(ind):
        L=[]
        if first_on_open: L.append(ind+q+body[0]); rest=body[1:]
        else: L.append(ind+q); L+=['']*lead; rest=body
        L+=[(ind+l if l else '') for l in rest]; L.append(ind+'"""'); return L
    lines=['']*k
    ind='    '*nest
    pre=[]
    for i in range(nest): pre.append('    '*i+f'class N{i}:')
    if owner=='module':
        lines+=doc('')+['x = 1']
    elif owner=='class':
        lines+=pre+[ind+'class K:']+doc(ind+'    ')+[ind+'    y = 1']
    elif owner=='function':
        lines+=pre+[ind+'@staticmethod' if nest else ind+'@deco', ind+'def f(a):']+doc(ind+'    ')+[ind+'    pass']
    elif owner=='attribute':
        lines+=pre+[ind+'v = 1']+doc(ind)
    src='\n'.join(lines)+'\n'
    # ground truth: physical lines (1-based) of refs
    truth={}
    for i,l in enumerate(src.split('\n'),1):
        for m in re.finditer(r'nope(\d)', l): truth[m.group(1)]=i
    # block starts
    return src, truth
bad=[]; n=0
for owner in ['module','class','function','attribute']:
  for fmt in ['epytext','restructuredtext','google','numpy']:
    for first_on_open, lead in [(True,0),(False,0),(False,1),(False,2)]:
      for nest in (0,1,2):
        if owner=='module' and nest: continue
        for raw in (False,True):
          res={}
          for k in (0,3):
            src,truth=mk(owner,fmt,first_on_open,lead,nest,raw,k)
            rc,exc,out,err,listing=run({'pk/__init__.py':'','pk/m.py':src},['--docformat',fmt,'-W'])
            n+=1
            got={}
            for l in out.splitlines():
                m=re.match(r'<D>/pk/m.py:(\d+|\?\?\?): Cannot find link target for "nope(\d)"',l)
                if m: got[m.group(2)]=m.group(1)
            res[k]=(truth,got,rc,exc)
            # para1 ref is on block start; para2 ref is on 2nd line of block
            exp1=truth['1']; exp2=(truth['2']-1, truth['2'])
            ok1 = got.get('1')==str(exp1)
            ok2 = got.get('2') is not None and got['2'].isdigit() and exp2[0]<=int(got['2'])<=exp2[1]
            if fmt in ('google','numpy'):
                ok1 = got.get('1') is not None; ok2 = got.get('2') is not None
            if not(ok1 and ok2 and rc==3 and not exc): bad.append((owner,fmt,first_on_open,lead,nest,raw,k,truth,got,rc))
print('runs',n,'bad',len(bad))
for b in bad[:30]: print(b)
