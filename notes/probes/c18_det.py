"""Design-phase probe for C18: separate processes, hash seeds, listing order, fresh/reused output dir."""
import os, subprocess, tempfile, shutil, filecmp, itertools, sys, collections
from pathlib import Path
SC='/verif/notes/probes'   # sitecustomize.py lives here (LISTORDER env)
def tree(d):
    out={}
    for root,dirs,files in os.walk(d):
        for f in files+dirs:
            p=os.path.join(root,f); rel=os.path.relpath(p,d)
            if os.path.islink(p): out[rel]=('link',os.readlink(p))
            elif os.path.isfile(p): out[rel]=('file',open(p,'rb').read())
    return out
def mkproj(base, nroots):
    roots=[]
    for i in range(nroots):
        name=['aa','bb','cc'][i]; p=Path(base)/'src'/name; (p/'sub').mkdir(parents=True)
        (p/'__init__.py').write_text(f'"""Root {name}."""\nclass K{i}:\n    "doc"\n    def m(self): pass\n')
        (p/'z.py').write_text('def f(): pass\n'); (p/'a.py').write_text('from .z import f\nX = {1, 2, 3}\nY = frozenset(["a","b"])\n')
        (p/'sub'/'__init__.py').write_text(''); (p/'sub'/'m.py').write_text('class S: pass\n')
        roots.append(str(p))
    return roots
def run(roots, out, seed, listorder=None, name=None):
    env=dict(os.environ, PYTHONHASHSEED=str(seed), SOURCE_DATE_EPOCH='1000000', PYTHONPATH=SC)
    if listorder: env['LISTORDER']=listorder
    args=['/venv/bin/python','-m','pydoctor','-q','--html-output',out,'--project-base-dir',os.path.dirname(roots[0])]+(['--project-name',name] if name else [])+roots
    r=subprocess.run(args, env=env, cwd=os.path.dirname(out), capture_output=True, text=True)
    return r.returncode
sig=collections.Counter(); ex={}; n=0
for nroots in (1,2,3):
    for name in (None,'proj'):
        base=tempfile.mkdtemp(dir='/dev/shm'); roots=mkproj(base,nroots)
        ref=os.path.join(base,'ref'); run(roots,ref,0,name=name); reft=tree(ref); n+=1
        def cmp(label, out):
            t=tree(out)
            diff=sorted(k for k in set(t)|set(reft) if t.get(k)!=reft.get(k))
            if diff: k=(label,nroots,bool(name)); sig[k]+=1; ex.setdefault(k,diff[:4])
        for seed in range(1,9):
            o=os.path.join(base,f's{seed}'); run(roots,o,seed,name=name); n+=1; cmp('seed',o); shutil.rmtree(o)
        for lo in ('rev','rot1','rot2'):
            o=os.path.join(base,f'l{lo}'); run(roots,o,0,listorder=lo,name=name); n+=1; cmp('listing',o); shutil.rmtree(o)
        for perm in itertools.permutations(roots):
            if list(perm)==roots: continue
            o=os.path.join(base,'perm'); run(list(perm),o,0,name=name); n+=1; cmp('root-order-on-cli',o); shutil.rmtree(o)
        run(roots,ref,0,name=name); n+=1; cmp('reused-same-seed',ref)
        run(roots,ref,3,name=name); n+=1; cmp('reused-other-seed',ref)
        shutil.rmtree(base)
print('process runs',n)
for k,v in sig.most_common(): print(v,k,ex[k])
