import sys, shutil
sys.path.insert(0,'/tmp/probe')
from crawl import run, crawl
files = {
 'pk/__init__.py': '"""Package doc L{pk.a.A} L{B}."""\nfrom ._impl import R\n__all__=["R"]\n',
 'pk/_impl.py': 'class R:\n  """R doc L{R.m}"""\n  def m(self):\n    """m doc L{R}"""\n',
 'pk/a.py': '''
"""Module a. L{A.meth}

Section
=======
Text.
"""
from pk import R
from zope.interface import Interface, implementer
class IFace(Interface):
    def meth():
        "iface meth L{IFace}"
@implementer(IFace)
class A:
    """Class A. L{meth} L{b.B}

    @ivar iv: ivar doc L{A}
    """
    X = 1
    def __init__(self, a: 'A', b: int = 3): self.iv = 1
    def meth(self) -> 'A':
        """meth doc L{A.X}. Second sentence."""
    @classmethod
    def make(cls) -> 'A':
        "maker"
    @property
    def prop(self) -> 'R':
        "prop L{R}"
    @prop.setter
    def prop(self, v): pass
    class Inner:
        "inner L{A}"
        def im(self): "im doc L{Inner}"
        class Deep:
            def dm(self, x: 'A.Inner' = None): "dm L{A.Inner.im}"
class _P(R): pass
class Exc(Exception): "exc"
''',
 'pk/b.py': '''
from .a import A
from . import a
from typing import overload
class B(a.A):
    """B doc"""
    def meth(self):
        pass
    X = 2
class C(B):
    def meth(self): "C.meth L{B.meth}"
CONST = [A, B, a.A.Inner]
@overload
def ov(x: int) -> A: ...
@overload
def ov(x: str) -> B: ...
def ov(x): "ov doc"
''',
 'pk/sub/__init__.py': '"sub L{pk.b.C}"\n',
 'pk/sub/deep.py': 'from ..b import C\nclass D(C):\n    "D L{C}"\n',
}
for args in [[], ['--theme','readthedocs'], ['--theme','base'], ['--sidebar-expand-depth','3'], ['--no-sidebar'], ['--privacy','PRIVATE:pk.b.B'], ['--docformat','restructuredtext'], ['--privacy','PUBLIC:pk._impl']]:
    d, system, log = run(files, args)
    dead, pages = crawl(d+'/out')
    print(args, 'pages', len(pages), 'dead:', sorted(set(dead))[:8])
    shutil.rmtree(d)
# two roots
files2 = {'aa/__init__.py':'"aa L{bb.B}"\nclass A: "A"\n', 'bb/__init__.py':'from aa import A\nclass B(A): "B L{aa.A}"\n'}
d, system, log = run(files2, [], roots=('aa','bb'))
dead, pages = crawl(d+'/out'); print('two roots', sorted(pages), sorted(set(dead))[:8]); shutil.rmtree(d)
