import sys, types, inspect
from pydoctor import model
src = '''
"""Module doc."""
import os
def f():
    """
    f doc
      indented
    """
async def g(): "g doc"
class C:
    """C doc"""
    a = 1
    b: int = 2
    c = d = 3
    e, h = 1, 2
    def m(self): "m doc"
    @classmethod
    def cm(cls): pass
    @staticmethod
    def sm(): pass
    @property
    def p(self): "p doc"
    @p.setter
    def p(self, v): pass
    def old(): pass
    old = staticmethod(old)
    def oldc(cls): pass
    oldc = classmethod(oldc)
    class N:
        "N doc"
        def nm(self): pass
    if True:
        def cond(self): pass
    try:
        def tr(self): pass
    except Exception:
        pass
    with open(os.devnull) as fh:
        def wi(self): pass
    for i in (1,):
        def fo(self): pass
    x = y = []
    m2 = m
class E(Exception): pass
class E2(E): pass
if True:
    def cf(): pass
    V = 'str'
    W = {'a': 1}
    X = [1, 2]
    Y = (1, 'a')
    Z = {1, 2}
    F = 1.5
    B = b'x'
    N = None
    T = True
    CX = 1j
    NEG = -1
    LL = [[1]]
    EM = []
def f2(): pass
def f2(): "second"
if __name__ == '__main__':
    def hidden(): pass
U = f
'''
s = model.System(); s.options.verbosity=-10
b = s.systemBuilder(s); b.addModuleString(src, 'mm'); b.buildModules()
m = s.allobjects['mm']
pm = types.ModuleType('mm'); exec(compile(src,'mm','exec'), pm.__dict__)
def pd(o, ind=''):
    for n,c in o.contents.items():
        ann = getattr(c,'annotation',None)
        import ast
        print(ind, n, type(c).__name__, c.kind.name if c.kind else None, repr(c.docstring)[:30], getattr(c,'is_async',''), ast.unparse(ann) if ann is not None else '')
        pd(c, ind+'   ')
pd(m)
print('PY module:', sorted(k for k in vars(pm) if not k.startswith('__')))
print('PY C:', sorted(k for k in vars(pm.C) if not k.startswith('__')))
