"""Design-phase probe for C12 (private clause): each object of each single-feature project made PRIVATE; listing entries must carry the marker."""
import sys, os, re, shutil, collections, xml.parsers.expat as expat
from urllib.parse import unquote, urldefrag
sys.path.insert(0,'/verif/notes/probes')
src=open('/verif/notes/probes/c11_pairs.py').read().split("allsig=collections.Counter()")[0]
ns={}; exec(compile(src,'c11','exec'),ns)
F,project,run=ns['F'],ns['project'],ns['run']
def listings(path, fname):
    """yield (context, target_href_resolved, has_private) for listing entries on this page"""
    raw=open(path,encoding='utf-8').read(); raw=re.sub(r'^<!DOCTYPE[^>]*>\s*','',raw)
    out=[]; stack=[]   # (name, attrs, info)
    p=expat.ParserCreate()
    def resolve(h):
        path,frag=urldefrag(h); return unquote((path or fname)+('#'+frag if frag else ''))
    def start(name, attrs):
        stack.append((name, attrs))
        cls=attrs.get('class','')
        if name=='a' and 'internal-link' in cls.split() and 'href' in attrs:
            tgt=resolve(attrs['href'])
            names=[s[0] for s in stack]
            # member table row: a inside td (2nd cell) inside tr inside table.children
            for i in range(len(stack)-1,-1,-1):
                n,at=stack[i]
                if n=='tr':
                    tbl=[s for s in stack[:i] if s[0]=='table']
                    if tbl and 'children' in tbl[-1][1].get('class','').split():
                        # only the name cell: td index -> we can't count easily; use: direct parent chain td>code>a and td is not summary (summary cell has nested spans/p). Accept first link in row.
                        out.append(('table-row', tgt, 'private' in at.get('class','').split(), id(at)))
                    break
                if n=='li':
                    ctx=None
                    anc=[s for s in stack[:i]]
                    if any(s[0]=='div' and 'sidebar' in s[1].get('class','') for s in anc) or any(s[1].get('class','')=='itemName' or 'itemName' in s[1].get('class','').split() for s in stack[i:]):
                        ctx='sidebar-item'
                    elif fname=='moduleIndex.html': ctx='module-index-item'
                    if ctx: out.append((ctx, tgt, 'private' in at.get('class','').split(), id(at)))
                    break
        if name=='a' and 'name' in attrs and len(stack)>=2 and stack[-2][0]=='div' and re.match(r'(base)?(function|method|classmethod|staticmethod|attribute|classvariable|instancevariable|variable|constant|property|typealias|typevariable)', stack[-2][1].get('class','')):
            out.append(('member-detail', attrs['name'], 'private' in stack[-2][1].get('class','').split(), id(stack[-2][1])))
    def end(name): stack.pop()
    p.StartElementHandler=start; p.EndElementHandler=end
    p.Parse(raw.encode(), True)
    return out
sig=collections.Counter(); ex={}; runs=0
for feat in F:
    files,args=project((feat,))
    d0,s0=run(files,args); names=[k for k,o in s0.allobjects.items() if o.isVisible and k!='pk' and ' ' not in k]; shutil.rmtree(d0)
    for target in names:
        d,s=run(files,args+['--privacy','PRIVATE:'+target,'--sidebar-expand-depth','2']); runs+=1
        o=s.allobjects[target]; url=unquote(o.url); out=d+'/out'
        seen_row=set()
        for f in os.listdir(out):
            if not f.endswith('.html'): continue
            first_in_row={}
            for ctx,tgt,priv,rid in listings(os.path.join(out,f), f):
                if ctx=='table-row':
                    if rid in first_in_row: continue     # only the first internal link of a row = name cell
                    first_in_row[rid]=tgt
                if ctx=='member-detail':
                    if tgt!=target: continue
                elif tgt!=url: continue
                if not priv: k=(ctx,type(o).__name__,'summary' if f[0].islower() and f in('moduleIndex.html','nameIndex.html','classIndex.html','undoccedSummary.html') else 'object-page'); sig[k]+=1; ex.setdefault(k,(feat,target,f))
        # all-documents privacy field
        t=open(os.path.join(out,'all-documents.html'),encoding='utf-8').read()
        m=re.search(r'<li id="%s">(.*?)</li>'%re.escape(target), t, flags=re.S)
        if not m: sig[('all-documents-missing',type(o).__name__,'')]+=1; ex.setdefault(('all-documents-missing',type(o).__name__,''),(feat,target))
        elif '<div class="privacy">PRIVATE</div>' not in m.group(1): sig[('all-documents-unmarked',type(o).__name__,'')]+=1; ex.setdefault(('all-documents-unmarked',type(o).__name__,''),(feat,target))
        shutil.rmtree(d)
print('runs',runs)
for k,v in sig.most_common(): print(v,k,ex[k])
