import itertools, collections
from pydoctor import visitor
When = visitor.When
class N:
    def __init__(s, name): s.name=name; s.ch=[]; s.act=None
def trees(n):
    # ordered rooted trees with n nodes as nested tuples
    if n==1: yield ()
    else:
        # forest of n-1 nodes
        def forests(m):
            if m==0: yield (); return
            for k in range(1,m+1):
                for t in trees(k):
                    for rest in forests(m-k): yield (t,)+rest
        yield from forests(n-1)
def build(t, counter):
    node=N(f'n{next(counter)}')
    for c in t: node.ch.append(build(c,counter))
    return node
def nodes(n):
    yield n
    for c in n.ch: yield from nodes(c)
ACTS=[None,'SkipChildren','SkipSiblings','SkipNode','SkipDeparture']
def make_main(log):
    class Main(visitor.Visitor):
        def unknown_visit(s, ob):
            log.append(('main','+',ob.name))
            if ob.act: raise getattr(s, ob.act)()
        def unknown_departure(s, ob): log.append(('main','-',ob.name))
        @classmethod
        def get_children(cls, ob): return ob.ch
    return Main
def make_ext(when, tag, log):
    class E(visitor.VisitorExt): pass
    E.when=when
    E.unknown_visit=lambda s,ob: log.append((tag,'+',ob.name))
    E.unknown_departure=lambda s,ob: log.append((tag,'-',ob.name))
    return E
def reference(root, timings):
    """documented contract -> expected event list"""
    ev=[]
    def order_visit(n):
        for tag,w in timings:
            if w in (When.BEFORE, When.OUTTER): ev.append((tag,'+',n.name))
        ev.append(('main','+',n.name))
        for tag,w in timings:
            if w in (When.AFTER, When.INNER): ev.append((tag,'+',n.name))
    def order_depart(n, main):
        for tag,w in timings:
            if w in (When.BEFORE, When.INNER): ev.append((tag,'-',n.name))
        if main: ev.append(('main','-',n.name))
        for tag,w in timings:
            if w in (When.AFTER, When.OUTTER): ev.append((tag,'-',n.name))
    def walk(n):
        """returns True if siblings to the right must be skipped"""
        order_visit(n)
        a=n.act
        if a not in ('SkipChildren','SkipNode'):
            for c in n.ch:
                if walk(c): break
        order_depart(n, main=a not in ('SkipNode','SkipDeparture'))
        return a=='SkipSiblings'
    walk(root)
    return ev
# note: extension order within same class: before_visit + outter_visit for visit; etc. reference must mirror list concatenation order
def ref_sorted(timings):
    return timings
sigs=collections.Counter(); ex={}; total=0
timing_sets=[]
W=[When.BEFORE,When.AFTER,When.INNER,When.OUTTER]
for r in range(0,5):
    for c in itertools.combinations(W,r): timing_sets.append(c)
for n in range(1,5):
    for t in trees(n):
        for acts in itertools.product(ACTS, repeat=n):
            for ts in timing_sets:
                root=build(t, itertools.count())
                for node,a in zip(nodes(root),acts): node.act=a
                log=[]
                exts=[make_ext(w, w.name, log) for w in ts]
                v=make_main(log)(visitor.ExtList(*exts))
                try: v.walkabout(root); exc=None
                except Exception as e: exc=type(e).__name__
                total+=1
                # checks: balance
                problems=set()
                if exc: problems.add('escaped:'+exc)
                for tag in [w.name for w in ts]:
                    entered=[e[2] for e in log if e[0]==tag and e[1]=='+']
                    left=[e[2] for e in log if e[0]==tag and e[1]=='-']
                    if len(entered)!=len(set(entered)): problems.add('ext-enter-twice')
                    if sorted(entered)!=sorted(left): problems.add('ext-unbalanced')
                me=[e[2] for e in log if e[0]=='main' and e[1]=='+']
                if len(me)!=len(set(me)): problems.add('main-enter-twice')
                # compare with reference
                # order of exts in visit: before+outter ; after+inner  (ExtList order) -> emulate
                tim=[(w.name,w) for w in ts]
                def refev():
                    ev=[]
                    def ov(nn):
                        for w in (When.BEFORE,When.OUTTER):
                            if w in ts: ev.append((w.name,'+',nn.name))
                        ev.append(('main','+',nn.name))
                        for w in (When.AFTER,When.INNER):
                            if w in ts: ev.append((w.name,'+',nn.name))
                    def od(nn,main):
                        for w in (When.BEFORE,When.INNER):
                            if w in ts: ev.append((w.name,'-',nn.name))
                        if main: ev.append(('main','-',nn.name))
                        for w in (When.AFTER,When.OUTTER):
                            if w in ts: ev.append((w.name,'-',nn.name))
                    def walk(nn):
                        ov(nn); a=nn.act
                        if a not in ('SkipChildren','SkipNode'):
                            for c in nn.ch:
                                if walk(c): break
                        od(nn, a not in ('SkipNode','SkipDeparture'))
                        return a=='SkipSiblings'
                    walk(root); return ev
                if log!=refev(): problems.add('differs-from-contract')
                if problems:
                    acts_used=tuple(sorted(set(a for a in acts if a)))
                    key=(tuple(sorted(problems)), acts_used)
                    sigs[key]+=1; ex.setdefault(key,(t,acts,[w.name for w in ts]))
print('total',total)
for k,v in sorted(sigs.items(), key=lambda kv:-kv[1])[:25]: print(v,k,ex[k])
