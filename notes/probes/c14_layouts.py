"""Design-phase probe for C14: all valid parameter layouts <=4 params, rendered signature read back."""
import ast, itertools, re, html, collections, time
from pydoctor import model
from pydoctor.stanutils import flatten
from pydoctor.templatewriter.pages import format_signature
kinds=['po','pk','va','ko','vk']
def render(ps):
    po=[p for p in ps if p[0]=='po']; pk=[p for p in ps if p[0]=='pk']; va=[p for p in ps if p[0]=='va']; ko=[p for p in ps if p[0]=='ko']; vk=[p for p in ps if p[0]=='vk']
    if [p[0] for p in ps] != [p[0] for p in po+pk+va+ko+vk]: return None
    if len(va)>1 or len(vk)>1: return None
    i=0; parts=[]
    def one(p):
        nonlocal i
        s=f'p{i}'; i+=1
        if p[2]: s+=': int'
        if p[1]: s+=' = 1' if p[2] else '=1'
        return s
    for p in po: parts.append(one(p))
    if po: parts.append('/')
    for p in pk: parts.append(one(p))
    if va: parts.append('*'+one(va[0]))
    elif ko: parts.append('*')
    for p in ko: parts.append(one(p))
    if vk: parts.append('**'+one(vk[0]))
    return ', '.join(parts)
sigs=[]
for L in range(0,5):
    for ps in itertools.product(itertools.product(kinds,[0,1],[0,1]), repeat=L):
        t=render(ps)
        if t is None: continue
        try: ast.parse(f'def f({t}): pass')
        except SyntaxError: continue
        sigs.append(t)
print('layouts',len(sigs))
def argsdump(a):
    def one(x): return (x.arg, ast.dump(x.annotation) if x.annotation else None)
    return dict(posonly=[one(x) for x in a.posonlyargs], args=[one(x) for x in a.args], vararg=one(a.vararg) if a.vararg else None,
                kwonly=[one(x) for x in a.kwonlyargs], kwarg=one(a.kwarg) if a.kwarg else None,
                defaults=[ast.dump(d) for d in a.defaults], kw_defaults=[ast.dump(d) if d else None for d in a.kw_defaults])
bad=collections.Counter(); ex={}; t0=time.time(); n=0
RET=['', ' -> int', ' -> None']
for ret in RET:
  for ctx in ('func','method'):
    for chunk in range(0,len(sigs),200):
        part=sigs[chunk:chunk+200]
        if ctx=='func': src='\n'.join(f'def f{chunk+i}({t}){ret}: pass' for i,t in enumerate(part))
        else: src='class K:\n'+'\n'.join(f'    def f{chunk+i}({t}){ret}: pass' for i,t in enumerate(part))
        s=model.System(); s.options.verbosity=-10
        b=s.systemBuilder(s); b.addModuleString(src,'m'); b.buildModules()
        for i,t in enumerate(part):
            fn=s.allobjects[('m.' if ctx=='func' else 'm.K.')+f'f{chunk+i}']
            text=html.unescape(re.sub(r'<[^>]+>','',flatten(format_signature(fn))))
            n+=1
            try: back=ast.parse(f'def f{text}: pass').body[0]
            except SyntaxError: bad[('unparsable',ctx,ret)]+=1; ex.setdefault(('unparsable',ctx,ret),(t,text)); continue
            orig=ast.parse(f'def f({t}){ret}: pass').body[0]
            if argsdump(back.args)!=argsdump(orig.args): bad[('args',ctx,ret)]+=1; ex.setdefault(('args',ctx,ret),(t,text))
            er = None if ret in ('',' -> None') else 'int'
            gr = ast.unparse(back.returns) if back.returns else None
            if er!=gr: bad[('returns',ctx,ret)]+=1; ex.setdefault(('returns',ctx,ret),(t,text))
print('checked',n,'time',round(time.time()-t0,1),'bad',dict(bad))
for k,v in ex.items(): print(k,v)
