import re, html
from pydoctor import model, epydoc2stan
from pydoctor.stanutils import flatten
docs = {
'epytext': '''w0001 B{w0002} I{w0003} C{w0004}
w0005 U{w0006<http://x/>} M{w0007}.

  - w0008 w0009
    w0010
      - w0011

  1. w0012
  2. w0013

w0014::

    w0015  <&> w0016
      w0017

    w0018

>>> w0019 = 1
... w0020
w0021

Sec w0022
=========

w0023

@param a: w0024
    w0025
@type a: C{w0026}
@return: w0027
@rtype: w0028
@raise ValueError: w0029
@note: w0030
@see: w0031
@author: w0032
@since: w0033
@keyword k: w0034
@foo: w0035
''',
'restructuredtext': '''w0001 **w0002** *w0003* ``w0004``
w0005 `w0006 <http://x/>`_ :math:`w0007`.

- w0008 w0009
  w0010

  - w0011

1. w0012
2. w0013

w0014::

    w0015  <&> w0016
      w0017

    w0018

>>> w0019 = 1
... w0020
w0021

.. code:: python

    w0036 = w0037

Sec w0022
=========

w0023

:param a: w0024
    w0025
:type a: ``w0026``
:return: w0027
:rtype: w0028
:raise ValueError: w0029
:note: w0030
:see: w0031
:author: w0032
:since: w0033
:keyword k: w0034
:foo: w0035
''',
'google': '''w0001 **w0002** *w0003* ``w0004``
w0005.

- w0008 w0009
  w0010

w0014::

    w0015  <&> w0016
      w0017

>>> w0019 = 1
... w0020
w0021

Args:
    a (``w0026``): w0024
        w0025

Keyword Args:
    k: w0034

Returns:
    w0028: w0027

Raises:
    ValueError: w0029

Note:
    w0030

See Also:
    w0031

Yields:
    w0040
''',
'numpy': '''w0001 **w0002** *w0003* ``w0004``
w0005.

- w0008 w0009
  w0010

w0014::

    w0015  <&> w0016
      w0017

>>> w0019 = 1
... w0020
w0021

Parameters
----------
a : ``w0026``
    w0024
    w0025

Returns
-------
w0028
    w0027

Raises
------
ValueError
    w0029

Notes
-----
w0030

See Also
--------
w0031
''',
'plaintext': 'w0001 <b> &amp;\n   w0002\n\n@param a: w0003\n',
}
for fmt, doc in docs.items():
    s = model.System(); s.options.verbosity=-10; s.options.docformat=fmt
    b = s.systemBuilder(s); b.addModuleString('def f(a, **kw):\n    pass\n', 'm'); b.buildModules()
    f = s.allobjects['m.f']; f.docstring = doc
    import io, contextlib
    out = io.StringIO()
    s.options.verbosity=0
    with contextlib.redirect_stdout(out):
        h = flatten(epydoc2stan.format_docstring(f))
    text = html.unescape(re.sub(r'<[^>]+>', '', h))
    toks = re.findall(r'w\d{4}', text)
    exp = re.findall(r'w\d{4}', doc)
    print(fmt, 'missing', sorted(set(exp)-set(toks)), 'order_same', toks==exp, 'msgs', out.getvalue().strip().replace('\n',' | ')[:300])
    if toks!=exp: print('   got', ' '.join(toks)); print('   exp', ' '.join(exp))
