"""Design-phase probe for C19 (second half): builder scope stack empty after walking each module of the C01 draft alphabet."""
import sys, ast, collections
sys.path.insert(0,'/verif/notes/probes')
import importlib.util, types
# reuse alphabet without running the probe's main: exec only the dict definitions
src=open('/verif/notes/probes/c01_alphabet.py').read().split("class TO(Exception)")[0]
ns={}; exec(compile(src,'alpha','exec'),ns)
S,PLACE=ns['S'],ns['PLACE']
from pydoctor import model, astbuilder
captured=[]
class B(astbuilder.ASTBuilder):
    def __init__(self, system): super().__init__(system); captured.append(self)
class Sys(model.System):
    defaultBuilder=B
bad=collections.Counter(); n=0
for name,s in S.items():
    for pl,fn in PLACE.items():
        full=fn(s)
        try: compile(full,'x','exec')
        except Exception: continue
        captured.clear()
        system=Sys(); system.options.verbosity=-10
        b=system.systemBuilder(system); b.addModuleString('', 'pk', is_package=True); b.addModuleString(full,'m','pk'); b.addModuleString('x=1\n','m0','pk')
        try: b.buildModules()
        except BaseException as e: bad[('exc',type(e).__name__)]+=1; continue
        n+=1
        for bb in captured:
            if bb._stack!=[] or bb.current is not None or bb.currentMod is not None: bad[('stack',name,pl)]+=1
print('modules',n,'bad',dict(bad))
