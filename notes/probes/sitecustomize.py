import os, pathlib
mode = os.environ.get('LISTORDER')
if mode:
    _orig = pathlib.Path.iterdir
    def iterdir(self):
        items = sorted(_orig(self), key=lambda p: p.name)
        if mode == 'rev': items.reverse()
        elif mode.startswith('rot'):
            k = int(mode[3:]) % max(1,len(items)); items = items[k:]+items[:k]
        return iter(items)
    pathlib.Path.iterdir = iterdir
    _scandir = os.scandir
