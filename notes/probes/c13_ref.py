import itertools, time
from pydoctor.qnmatch import qnmatch
def tokenize(p):
    toks=[]; i=0; n=len(p)
    while i<n:
        c=p[i]
        if c=='*':
            if i+1<n and p[i+1]=='*': toks.append(('**',)); i+=2
            else: toks.append(('*',)); i+=1
        elif c=='?': toks.append(('?',)); i+=1
        elif c=='[':
            j=i+1
            neg=False
            if j<n and p[j]=='!': neg=True; j+=1
            k=j
            if k<n and p[k]==']': k+=1
            while k<n and p[k]!=']': k+=1
            if k>=n: return None  # malformed
            seq=p[j:k]
            if not seq: return None
            toks.append(('set',neg,seq)); i=k+1
        elif c==']': return None  # stray close: treat as malformed for our purposes
        else: toks.append(('lit',c)); i+=1
    return toks
def match(toks, s):
    from functools import lru_cache
    @lru_cache(None)
    def m(ti, si):
        if ti==len(toks): return si==len(s)
        t=toks[ti]
        if t[0]=='lit': return si<len(s) and s[si]==t[1] and m(ti+1,si+1)
        if t[0]=='?': return si<len(s) and m(ti+1,si+1)
        if t[0]=='set':
            if si>=len(s): return False
            inn = s[si] in t[2]
            return (inn != t[1]) and m(ti+1,si+1)
        if t[0]=='**':
            return any(m(ti+1,k) for k in range(si,len(s)+1))
        if t[0]=='*':
            k=si
            while True:
                if m(ti+1,k): return True
                if k<len(s) and s[k]!='.': k+=1
                else: return False
    return m(0,0)
