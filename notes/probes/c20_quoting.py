"""Design-phase probe for C20 quoting: all strings <=3 over a quoting alphabet, written quoted, read back."""
import io, itertools, collections, toml, time
from pydoctor._configparser import IniConfigParser, TomlConfigParser
A = ['a', ' ', "'", '"', '\\', '#', ';', '%', '[', ']', ',', '\n']
ini = IniConfigParser(['pydoctor'], split_ml_text_to_list=True)
tml = TomlConfigParser(['tool.pydoctor'])
def py_quote(s, q):
    # write s as a python string literal with quote char q (documented rule: quoted values are python literals)
    body = s.replace('\\','\\\\').replace(q, '\\'+q).replace('\n','\\n')
    return q+body+q
def py_triple(s, q3):
    body = s.replace('\\','\\\\').replace(q3[0], '\\'+q3[0])
    return q3+body+q3
def ini_escape_percent(v): return v.replace('%','%%')
def ini_value(v):
    # continuation lines must be indented
    return v.replace('\n','\n    ')
sig=collections.Counter(); ex={}; n=0; t0=time.time()
for L in range(0,4):
    for t in itertools.product(A, repeat=L):
        s=''.join(t)
        forms={'sq':py_quote(s,"'"), 'dq':py_quote(s,'"')}
        if '\n' in s or True:
            forms['tsq']=py_triple(s,"'''"); forms['tdq']=py_triple(s,'"""')
        for fn,lit in forms.items():
            for pct in ('raw','escaped'):
                if pct=='escaped' and '%' not in s: continue
                v = ini_escape_percent(lit) if pct=='escaped' else lit
                text='[pydoctor]\nproject-name = '+ini_value(v)+'\n'
                n+=1
                try: r=ini.parse(io.StringIO(text)); got=r.get('project-name', '<missing>')
                except Exception as e: got=('EXC',type(e).__name__)
                if got!=s:
                    cls = 'exc:'+got[1] if isinstance(got,tuple) else ('missing' if got=='<missing>' else ('list' if isinstance(got,list) else 'different'))
                    chars=''.join(sorted(set(s)&set("'\"\\#;%[],\n ")))
                    k=('ini',fn,pct,cls,chars); sig[k]+=1; ex.setdefault(k,(s,text,got))
        # toml
        n+=1
        text='[tool.pydoctor]\n'+toml.dumps({'project-name':s})
        try: r=tml.parse(io.StringIO(text)); got=r.get('project-name','<missing>')
        except Exception as e: got=('EXC',type(e).__name__)
        if got!=s:
            k=('toml','basic','', 'exc' if isinstance(got,tuple) else 'different', ''.join(sorted(set(s)&set("'\"\\#;%[],\n ")))); sig[k]+=1; ex.setdefault(k,(s,text,got))
print('cases',n,'time',round(time.time()-t0,1),'signatures',len(sig))
agg=collections.Counter()
for k,v in sig.items(): agg[k[:4]]+=v
for k,v in agg.most_common(): print(v,k)
print('--- minimal examples')
seen=set()
for k in sorted(sig, key=lambda k:(len(ex[k][0]),k)):
    if k[:4] in seen: continue
    seen.add(k[:4]); print(k[:4], repr(ex[k][0]), '->', repr(ex[k][2]), '| file:', repr(ex[k][1][-60:]))
