"""Design-phase probe for C05: all hierarchies <=N classes through source -> System -> Class.mro(), find(), docsources, class_members, override info."""
import itertools, sys, time, inspect, collections, io, contextlib
from pydoctor import model
from pydoctor.templatewriter import util
from pydoctor.templatewriter.pages import get_override_info
from pydoctor.stanutils import flatten
N=int(sys.argv[1]) if len(sys.argv)>1 else 4
WITH_MEMBERS = (len(sys.argv)>2 and sys.argv[2]=='members')
def ordered_subsets(n):
    for k in range(n+1):
        for c in itertools.permutations(range(n),k): yield c
def hierarchies(n): return itertools.product(*[list(ordered_subsets(i)) for i in range(n)])
def subsets(n):
    for k in range(1,n+1):
        for c in itertools.combinations(range(n),k): yield c
def source(h):
    L=[]
    for i,bases in enumerate(h):
        L.append(f'class C{i}({", ".join("C%d"%b for b in bases)}):' if bases else f'class C{i}:')
        body=[]
        if WITH_MEMBERS:
            for P in subsets(len(h)):
                if i in P:
                    tag=''.join(map(str,P))
                    body.append(f'    def m_{tag}(self):\n        "doc m_{tag} in C{i}"')
                    for j in P:
                        body.append(f'    def d_{tag}_{j}(self):' + (f'\n        "doc d_{tag}_{j} from C{i}"' if j==i else '\n        pass'))
        L += body or ['    pass']
    return '\n'.join(L)+'\n'
def pyclasses(h, src):
    """execute class by class; rejected classes -> None (and dependents skipped)"""
    import types, sys as _sys
    mod=types.ModuleType('c05probe_mod'); _sys.modules['c05probe_mod']=mod
    ns=mod.__dict__; out=[]
    blocks=src.split('\nclass ')
    blocks=[blocks[0]]+['class '+b for b in blocks[1:]]
    for i,b in enumerate(blocks):
        if any(out[x] is None for x in h[i]): out.append(None); continue
        try: exec(b, ns); out.append(ns[f'C{i}'])
        except TypeError: out.append(None); ns.pop(f'C{i}',None)
    return out
bad=collections.Counter(); ex={}; t0=time.time(); nh=0; ncls=0
allh=list(hierarchies(N))
BATCH=200
for start in range(0,len(allh),BATCH):
    chunk=allh[start:start+BATCH]
    s=model.System(); s.options.verbosity=0
    b=s.systemBuilder(s); b.addModuleString('', 'pk', is_package=True)
    srcs=[]
    for i,h in enumerate(chunk):
        src=source(h); srcs.append(src); b.addModuleString(src, f'h{i}', 'pk')
    out=io.StringIO()
    with contextlib.redirect_stdout(out): b.buildModules()
    msgs=out.getvalue()
    for i,h in enumerate(chunk):
        nh+=1
        py=pyclasses(h, srcs[i])
        for ci in range(len(h)):
            cls=s.allobjects.get(f'pk.h{i}.C{ci}')
            if cls is None: bad['class-missing']+=1; ex.setdefault('class-missing',h); continue
            direct_reject = py[ci] is None and all(py[x] is not None for x in h[ci])
            if direct_reject:
                if f'pk.h{i}:' not in msgs and f'h{i}' not in msgs: bad['inconsistent-not-reported']+=1; ex.setdefault('inconsistent-not-reported',(h,ci))
                continue
            if py[ci] is None: continue
            ncls+=1
            exp=[k.__name__ for k in py[ci].__mro__[:-1]]
            got=[c.name for c in cls.mro()]
            if got!=exp: bad['mro']+=1; ex.setdefault('mro',(h,ci,exp,got)); continue
            if WITH_MEMBERS:
                names=set()
                for k in py[ci].__mro__[:-1]: names|={n for n in vars(k) if n.startswith(('m_','d_'))}
                for n in names:
                    definer=next(k for k in py[ci].__mro__ if n in vars(k)).__name__
                    f=cls.find(n)
                    if f is None or f.parent.name!=definer: bad['find']+=1; ex.setdefault('find',(h,ci,n,definer,f and f.parent.name)); continue
                    expdoc=inspect.getdoc(getattr(py[ci],n))
                    # docstring through docsources of the object found
                    gotdoc=model.get_docstring(f)[0]
                    if gotdoc!=expdoc: bad['doc']+=1; ex.setdefault('doc',(h,ci,n,expdoc,gotdoc))
                # inherited member tables
                inherited={}
                for via,attrs in util.class_members(cls):
                    for a in attrs: 
                        if a.name in inherited: bad['member-listed-twice']+=1; ex.setdefault('member-listed-twice',(h,ci,a.name))
                        inherited[a.name]=via[0].name
                for n in names:
                    definer=next(k for k in py[ci].__mro__ if n in vars(k)).__name__
                    if inherited.get(n)!=definer: bad['member-table']+=1; ex.setdefault('member-table',(h,ci,n,definer,inherited.get(n)))
                # override note for members defined in cls itself
                for n in [x for x in vars(py[ci]) if x.startswith('m_')]:
                    nxt=[k.__name__ for k in py[ci].__mro__[1:-1] if n in vars(k)]
                    info=flatten(list(get_override_info(cls,n))) if True else ''
                    import re
                    m=re.search(r'overrides <code><a href="[^"]*"[^>]*>([^<]+)</a>', info)
                    got_o=m.group(1).split('.')[-2] if m else None
                    if (nxt[0] if nxt else None)!=got_o: bad['overrides']+=1; ex.setdefault('overrides',(h,ci,n,nxt[:1],got_o))
print('hierarchies',nh,'consistent classes checked',ncls,'time',round(time.time()-t0,1),'bad',dict(bad))
for k,v in ex.items(): print(k,v)
