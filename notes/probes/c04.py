import sys, os, shutil, importlib, tempfile, itertools
from pathlib import Path
from pydoctor import model
def skeleton(tag):
    pa, qa = f'pa{tag}', f'qa{tag}'
    files = {
      f'{pa}/__init__.py': f'"ID:{pa}"\nfrom .b import Kb as Rb\nclass Ka:\n    "ID:Ka"\n',
      f'{pa}/b.py': f'"ID:{pa}.b"\nclass Kb:\n    "ID:Kb"\n    class Nb:\n        "ID:Nb"\n    def mb(self): "ID:mb"\ndef fb(): "ID:fb"\n__all__=["Kb","fb"]\n',
      f'{pa}/c.py': f'"ID:{pa}.c"\nclass Kc:\n    "ID:Kc"\ndef fc(): "ID:fc"\n_hc = 1\n',
      f'{pa}/s/__init__.py': f'"ID:{pa}.s"\nclass Ks:\n    "ID:Ks"\n',
      f'{pa}/s/d.py': f'"ID:{pa}.s.d"\nclass Kd:\n    "ID:Kd"\n',
      f'{qa}/__init__.py': f'"ID:{qa}"\n',
      f'{qa}/e.py': f'"ID:{qa}.e"\nclass Ke:\n    "ID:Ke"\n',
    }
    return pa, qa, files
stmts = lambda pa, qa: [
 f'import {pa}.b', f'import {pa}.b as mb', f'import {pa}.s.d', f'import {pa}.s.d as md', f'from {pa} import b', f'from {pa} import b as bb', f'from {pa} import s',
 f'from {pa}.b import Kb', f'from {pa}.b import Kb as X', f'from {pa}.b import *', f'from {pa}.c import *', f'from {pa} import Rb', f'from {pa} import *',
 'from . import d', 'from .d import Kd', 'from .. import c', 'from ..c import Kc', 'from ..b import Kb as Y', 'from .. import Rb', 'from ... import nope', f'from {qa}.e import Ke', f'import {qa}.e, {pa}.c',
 f'from {pa}.b import Kb\nZ = Kb', f'import {pa}.b\nmm = {pa}.b', f'from {pa}.b import Kb\nclass W(Kb):\n    "ID:W"\n    from {pa}.c import Kc as Inner\n',
]
def ident(v):
    import types
    d = getattr(v,'__doc__',None)
    if isinstance(v,(type,types.FunctionType,types.ModuleType)) and isinstance(d,str) and d.startswith('ID:'): return d
    return None
tmp = tempfile.mkdtemp(); sys.path.insert(0,tmp)
n=0
for i,_ in enumerate(stmts('x','y')):
    tag=f'{i:03d}'; pa,qa,files=skeleton(tag)
    st = stmts(pa,qa)[i]
    files[f'{pa}/s/u.py'] = f'"ID:{pa}.s.u"\n'+st+'\n'
    root=Path(tmp)/tag; 
    for rel,c in files.items():
        p=root/rel; p.parent.mkdir(parents=True,exist_ok=True); p.write_text(c)
    sys.path.insert(0,str(root))
    try:
        try:
            um = importlib.import_module(f'{pa}.s.u')
        except Exception as e:
            print(i, repr(st), 'PY-IMPORT-FAIL', type(e).__name__); continue
        s = model.System(); s.options.verbosity=-10
        b = s.systemBuilder(s); b.addModule(root/pa); b.addModule(root/qa); b.buildModules()
        pu = s.allobjects[f'{pa}.s.u']
        # enumerate dotted paths
        global checked
        bad=[]; checked=0; unresolved=[]
        def walk(scope_py, scope_pd, prefix, val, depth):
            global checked
            idp = ident(val)
            if idp:
                r = scope_pd.resolveName(prefix)
                checked+=1
                if r is not None:
                    got = r.docstring
                    if got != idp: bad.append((prefix, idp, r.fullName(), got))
                else: unresolved.append(prefix)
            if depth<3 and isinstance(val,(type,type(sys))):
                for k,v in list(vars(val).items()):
                    if k.startswith('__'): continue
                    if ident(v): walk(scope_py, scope_pd, prefix+'.'+k, v, depth+1)
        for k,v in list(vars(um).items()):
            if k.startswith('__'): continue
            walk(um, pu, k, v, 1)
        print(i, repr(st)[:60], 'checked', checked, 'BAD', bad, 'unresolved', unresolved)
    finally:
        sys.path.remove(str(root))
shutil.rmtree(tmp)
