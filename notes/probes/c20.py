import os, tempfile, time, warnings, attr, io, contextlib
from pydoctor.options import Options, get_parser
p = get_parser()
for a in p._actions:
    print(type(a).__name__, a.option_strings, a.dest, a.nargs, a.type.__name__ if a.type else None, a.choices and list(a.choices)[:3], p.get_possible_config_keys(a))
def with_cfg(fname, text, argv=()):
    d = tempfile.mkdtemp(); old=os.getcwd(); os.chdir(d)
    try:
        open(fname,'w').write(text)
        with warnings.catch_warnings(record=True) as w:
            warnings.simplefilter('always')
            err=io.StringIO()
            try:
                with contextlib.redirect_stderr(err):
                    o = Options.from_args(list(argv))
            except SystemExit as e:
                return ('EXIT', e.code, err.getvalue()[:200]), [str(x.message) for x in w]
        return attr.asdict(o), [str(x.message) for x in w]
    finally: os.chdir(old)
t=time.time()
base,_ = with_cfg('x.txt','')
cli,_ = with_cfg('x.txt','',['--project-name','a b','--privacy','HIDDEN:a.*','--privacy','PUBLIC:a.b','-W','--verbose','--verbose','--sidebar-expand-depth','3'])
toml_,w1 = with_cfg('pyproject.toml','[tool.pydoctor]\nproject-name = "a b"\nprivacy = ["HIDDEN:a.*", "PUBLIC:a.b"]\nwarnings-as-errors = true\nverbose = 2\nsidebar-expand-depth = 3\nnope = 1\n')
ini,w2 = with_cfg('setup.cfg','[tool:pydoctor]\nproject-name = a b\nprivacy =\n    HIDDEN:a.*\n    PUBLIC:a.b\nwarnings-as-errors = true\nverbose = 2\nsidebar-expand-depth = 3\nnope = 1\n')
ini2,w3 = with_cfg('pydoctor.ini','[pydoctor]\nproject-name = "a b"\nprivacy = ["HIDDEN:a.*", "PUBLIC:a.b"]\nwarnings-as-errors = true\nverbose = 2\nsidebar-expand-depth = 3\n')
def diff(a,b): return {k:(a[k],b[k]) for k in a if a[k]!=b[k]} if isinstance(a,dict) and isinstance(b,dict) else (a,b)
print('cli vs base', diff(base,cli))
print('toml', diff(cli,toml_), w1)
print('ini', diff(cli,ini), w2)
print('ini2', diff(cli,ini2), w3)
both,_ = with_cfg('pydoctor.ini','[pydoctor]\nproject-name = "file"\nprivacy = ["HIDDEN:f"]\n', ['--project-name','cli','--privacy','PUBLIC:c'])
print('both', both['projectname'], both['privacy'])
print('time', time.time()-t)
