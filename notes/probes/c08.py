import itertools, time, io, contextlib, re, html, signal, traceback, collections
from pydoctor import model, epydoc2stan
from pydoctor.stanutils import flatten
T = ['w', '\n\n', '\n  ', '\n    ', 'L{', '}', 'B{', 'C{', 'U{', 'E{', '@param a:', '@type a:', '@foo', ':param a:', ':type a:', '- ', '1. ', '::', '>>> ', '`', '``', '*', '|', '_', '<a&"', 'Args:', 'Returns\n-------', '.. note::', '.. code::', '\x00', '\x0b', '\udc80', '￿', '\\', '=====']
def mk(fmt, pt):
    s = model.System(); s.options.verbosity=-10; s.options.docformat=fmt; s.options.processtypes=pt
    b = s.systemBuilder(s); b.addModuleString('def f(a):\n    pass\ndef g():\n    "good"\n', 'm'); b.buildModules()
    return s
class TO(Exception): pass
def alarm(*a): raise TO()
signal.signal(signal.SIGALRM, alarm)
fails=collections.Counter(); ex={}
t0=time.time(); n=0
for fmt in ['epytext','restructuredtext','google','numpy','plaintext']:
  for pt in (False, True):
    s = mk(fmt, pt); f = s.allobjects['m.f']
    for L in (1,2):
        for toks in itertools.product(T, repeat=L):
            doc=''.join(toks)
            f.docstring=doc; f.parsed_docstring=None; f.parsed_summary=None; f._linker=None
            s.parse_errors.clear()
            n+=1
            signal.alarm(10)
            try:
                with contextlib.redirect_stdout(io.StringIO()):
                    h=flatten(epydoc2stan.format_docstring(f)); flatten(epydoc2stan.format_summary(f)); t=epydoc2stan.format_toc(f); 
                    if t is not None: flatten(t)
            except BaseException as e:
                tb=traceback.extract_tb(e.__traceback__)
                site=[fr for fr in tb if '/repo/pydoctor' in fr.filename]
                key=(type(e).__name__, site[-1].name if site else '?')
                fails[key]+=1; ex.setdefault(key,(fmt,pt,doc))
            finally:
                signal.alarm(0)
print('n',n,'t',time.time()-t0)
for k,v in fails.items(): print(k,v,repr(ex[k]))
