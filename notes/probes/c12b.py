import sys, shutil, os, re, json, zlib, collections
from urllib.parse import unquote, urldefrag
sys.path.insert(0,'/tmp/probe')
from proj2 import files, run, crawl
from html.parser import HTMLParser
class Ctx(HTMLParser):
    """collect for each <a href> the stack of (tag, class) ancestors"""
    def __init__(s): super().__init__(convert_charrefs=True); s.stack=[]; s.links=[]; s.ids=[]
    VOID={'meta','link','br','input','img','hr','wbr'}
    def handle_starttag(s, tag, attrs):
        a=dict(attrs)
        if 'href' in a: s.links.append((a['href'], [f"{t}.{c}" if c else t for t,c in s.stack[-4:]]))
        for k in ('id','name'):
            if k in a and tag!='meta': s.ids.append(a[k])
        if tag not in s.VOID: s.stack.append((tag, (a.get('class') or '').replace(' ','.')))
    def handle_endtag(s, tag):
        for i in range(len(s.stack)-1,-1,-1):
            if s.stack[i][0]==tag: del s.stack[i:]; break
d0, sys0, _ = run(files, [])
allnames = sorted(k for k,o in sys0.allobjects.items())
shutil.rmtree(d0)
traces=collections.Counter(); ex={}
for target in allnames:
    if target=='pk': continue
    d, system, log = run(files, ['--privacy', 'HIDDEN:'+target])
    out=d+'/out'
    hidden = {k:o for k,o in system.allobjects.items() if not o.isVisible}
    hurls = {}
    for k,o in hidden.items():
        try: hurls[o.url]=k
        except Exception: pass
    hpages = {u for u in hurls if '#' not in u}
    for f in sorted(os.listdir(out)):
        if f in hpages: key=('page-written',); traces[key]+=1; ex.setdefault(key,(target,f))
        if not f.endswith('.html'): continue
        c=Ctx(); c.feed(open(os.path.join(out,f),encoding='utf-8').read())
        for href,stack in c.links:
            path,frag=urldefrag(href); 
            full = (path or f)+('#'+frag if frag else '')
            if unquote(full) in {unquote(u) for u in hurls} :
                key=('href', 'summary-page' if f in ('nameIndex.html','classIndex.html','moduleIndex.html','undoccedSummary.html','all-documents.html') else 'obj-page', tuple(stack[-3:])); traces[key]+=1; ex.setdefault(key,(target,f,href))
        for i in c.ids:
            if i in hidden: key=('id',f if f.startswith(('name','class','module','undoc','all-')) else 'obj-page'); traces[key]+=1; ex.setdefault(key,(target,f,i))
    for jf in ('searchindex.json','fullsearchindex.json'):
        idx=json.load(open(os.path.join(out,jf)))
        refs=set()
        def walk(o):
            if isinstance(o,dict):
                for v in o.values(): walk(v)
            elif isinstance(o,list):
                for v in o: walk(v)
            elif isinstance(o,str): refs.add(o)
        walk(idx.get('fieldVectors')); 
        for h in hidden:
            if any(r.endswith('/'+h) for r in refs): key=('lunr',jf); traces[key]+=1; ex.setdefault(key,(target,h))
    inv=open(os.path.join(out,'objects.inv'),'rb').read().split(b'\n',4)[4]
    names={l.split(' ')[0] for l in zlib.decompress(inv).decode().splitlines()}
    for h in hidden:
        if h in names: key=('inventory',); traces[key]+=1; ex.setdefault(key,(target,h))
    shutil.rmtree(d)
for k,v in sorted(traces.items(), key=lambda kv:-kv[1]): print(v,k,ex[k])
