"""Design-phase probe for C10: payload x sink, marker-based DOM oracle (expat)."""
import sys, os, re, io, contextlib, tempfile, shutil, collections, xml.parsers.expat as expat
from pathlib import Path
from pydoctor import driver
M='zqx1'
PAYLOADS = ['<zqx1>t</zqx1>', '<zqx1 onzqa1=y>', '"><zqx1 onzqa1="1">', "'><zqx1 onzqa1='1'>", '</div><zqx1>', '</code></pre><zqx1>', '<script>zqx1</script>', '&', '&lt;zqx1&gt;', '&#60;zqx1&#62;', '&amp;lt;zqx1', '&zqx1;', ']]><zqx1>', '<![CDATA[<zqx1>]]>', '<!--zqx1-->', '--><zqx1>', '<?zqx1 ?>', '\x01zqx1', '\x0bzqx1', '\x7fzqx1', '\ufffezqx1', '\u2028zqx1', 'javascript:zqx1']
def pylit(s): return repr(s)
SINKS = {
 # name: (format, function building module source from payload P)
 'doc-word-epy':   ('epytext', lambda P: f'def f():\n    """Doc {P} end."""\n'),
 'doc-code-epy':   ('epytext', lambda P: f'def f():\n    """Doc C{{{P}}} end."""\n'),
 'doc-literal-epy':('epytext', lambda P: f'def f():\n    """Lit::\n\n        {P}\n    """\n'),
 'doc-doctest-epy':('epytext', lambda P: f'def f():\n    """\n    >>> x = {pylit(P)}\n    {P}\n    """\n'),
 'field-body-epy': ('epytext', lambda P: f'def f(a):\n    """\n    @param a: {P}\n    @note: {P}\n    """\n'),
 'field-arg-epy':  ('epytext', lambda P: f'def f(a):\n    """\n    @raise {P}: x\n    @param {P}: y\n    """\n'),
 'ivar-name-epy':  ('epytext', lambda P: f'class K:\n    """\n    @ivar {P}: x\n    """\n'),
 'xref-epy':       ('epytext', lambda P: f'def f():\n    """L{{{P}}} L{{label {P}<f>}}"""\n'),
 'doc-word-rst':   ('restructuredtext', lambda P: f'def f():\n    """Doc {P} end."""\n'),
 'doc-code-rst':   ('restructuredtext', lambda P: f'def f():\n    """Doc ``{P}`` end."""\n'),
 'doc-literal-rst':('restructuredtext', lambda P: f'def f():\n    """Lit::\n\n        {P}\n    """\n'),
 'field-rst':      ('restructuredtext', lambda P: f'def f(a):\n    """\n    :param a: {P}\n    :raises {P}: x\n    :type a: {P}\n    """\n'),
 'doc-google':     ('google', lambda P: f'def f(a):\n    """Doc {P}.\n\n    Args:\n        a ({P}): {P}\n\n    Returns:\n        {P}\n    """\n'),
 'doc-numpy':      ('numpy', lambda P: f'def f(a):\n    """Doc {P}.\n\n    Parameters\n    ----------\n    a : {P}\n        {P}\n    """\n'),
 'doc-plain':      ('plaintext', lambda P: f'def f():\n    """Doc {P} end."""\n'),
 'const-str':      ('epytext', lambda P: f'from typing import Final\nX: Final = {pylit(P)}\nY: Final = [{pylit(P)}, {{ {pylit(P)}: f({pylit(P)}) }}]\nZ: Final = {pylit((P+" ")*30)}\n'),
 'const-bytes':    ('epytext', lambda P: f'from typing import Final\nX: Final = {pylit(P.encode("utf-8","surrogatepass"))}\n'),
 'const-multiline':('epytext', lambda P: f'from typing import Final\nX: Final = {pylit(P+chr(10)+P)}\n'),
 'const-regex':    ('epytext', lambda P: f'import re\nfrom typing import Final\nX: Final = re.compile({pylit(P)})\n'),
 'default':        ('epytext', lambda P: f'def f(a={pylit(P)}, *, k={pylit(P)}): pass\n'),
 'annotation':     ('epytext', lambda P: f'def f(a: {pylit(P)}, b: "List[{P}]" = 1) -> {pylit(P)}: pass\nv: {pylit(P)} = 1\n'),
 'literal-ann':    ('epytext', lambda P: f'from typing import Literal\ndef f(a: Literal[{pylit(P)}]): pass\n'),
 'decorator':      ('epytext', lambda P: f'@deco({pylit(P)}, k={pylit(P)})\ndef f(): pass\nclass K:\n    @deco({pylit(P)})\n    def m(self): pass\n'),
 'base':           ('epytext', lambda P: f'class K(Base[{pylit(P)}], metaclass=M({pylit(P)})): pass\n'),
 'all-docformat':  ('epytext', lambda P: f'__all__ = [{pylit(P)}]\n__docformat__ = {pylit(P)}\n'),
 'deprecated':     ('epytext', lambda P: f'from twisted.python.deprecate import deprecated\nfrom incremental import Version\n@deprecated(Version("pk", 1, 2, 3), {pylit(P)})\ndef f(): pass\n'),
 'zope-attr':      ('epytext', lambda P: f'from zope.interface import Interface, Attribute\nclass I(Interface):\n    a = Attribute({pylit(P)})\n'),
 'attr-doc':       ('epytext', lambda P: f'x = 1\n{pylit("attr " + P)}\n'),
}
ILLEGAL = re.compile('[\x00-\x08\x0b\x0c\x0e-\x1f\ufffe\uffff]')
def check_page(path):
    raw=open(path,encoding='utf-8',errors='surrogateescape').read()
    t=re.sub(r'^<!DOCTYPE[^>]*>\s*','',raw); t=ILLEGAL.sub('',t)
    probs=[]; stack=[]
    p=expat.ParserCreate()
    def start(name, attrs):
        stack.append(name)
        if M in name.lower(): probs.append(('element-name',name))
        for k,v in attrs.items():
            if M in k.lower() or 'onzqa' in k.lower(): probs.append(('attr-name',k))
            if M in v:
                if k.lower().startswith('on'): probs.append(('on-attr-value',k))
                if k.lower() in ('href','src','action') and v.strip().lower().startswith('javascript:'): probs.append(('js-url',k))
    def end(name): stack.pop()
    def chars(data):
        if M in data and any(s in ('script','style') for s in stack): probs.append(('text-in-script',stack[-1]))
    def comment(data):
        if M in data: probs.append(('comment',data[:30]))
    def pi(target,data):
        if M in target or M in data: probs.append(('pi',target))
    cd=[False]
    def startcd(): cd[0]=True
    def endcd(): cd[0]=False
    p.StartElementHandler=start; p.EndElementHandler=end; p.CharacterDataHandler=lambda d: (probs.append(('cdata',d[:20])) if cd[0] and M in d else None, chars(d)); p.CommentHandler=comment; p.ProcessingInstructionHandler=pi
    p.StartCdataSectionHandler=startcd; p.EndCdataSectionHandler=endcd
    try: p.Parse(t.encode('utf-8','surrogateescape'), True)
    except expat.ExpatError as e: probs.append(('ill-formed',str(e)))
    return probs
def run(src, fmt):
    d=tempfile.mkdtemp(dir='/dev/shm'); old=os.getcwd()
    try:
        (Path(d)/'src/pk').mkdir(parents=True); (Path(d)/'cwd').mkdir()
        (Path(d)/'src/pk/__init__.py').write_text(src, encoding='utf-8', errors='surrogatepass')
        os.chdir(d+'/cwd'); buf=io.StringIO()
        try:
            with contextlib.redirect_stdout(buf), contextlib.redirect_stderr(buf):
                rc=driver.main(['--html-output',d+'/out','--project-base-dir',d+'/src','--docformat',fmt,d+'/src/pk'])
        except BaseException as e: return [('crash',type(e).__name__)]
        probs=[]
        for f in os.listdir(d+'/out'):
            if f.endswith('.html'): probs+=[(f,)+x for x in check_page(os.path.join(d,'out',f))]
        return probs
    finally: os.chdir(old); shutil.rmtree(d,ignore_errors=True)
sig=collections.Counter(); ex={}; n=0
for sname,(fmt,fn) in SINKS.items():
    for P in PAYLOADS:
        try: src=fn(P); compile(src,'x','exec')
        except Exception as e: continue
        n+=1
        for pr in run(src,fmt):
            k=(pr[1] if len(pr)>1 else pr[0], sname); sig[k]+=1; ex.setdefault(k,(P,pr))
print('runs',n)
for k,v in sig.most_common(): print(v,k,ex[k])
