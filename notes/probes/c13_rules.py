"""Design-phase probe for C13 (b,c): rule lists <=3 and cache/reparent op sequences vs stateless reference."""
import itertools, collections, sys
sys.path.insert(0,'/verif/notes/probes')
from c13_ref import tokenize, match
from pydoctor import model
from pydoctor.model import PrivacyClass as P
SRC = {'m': 'a = 1\n_a = 2\n__a__ = 3\nclass C:\n    def f(self): pass\n    def _g(self): pass\nclass _C:\n    def f(self): pass\n', 'n': ''}
NAMES = ['m.a','m._a','m.__a__','m.C.f','m.C._g','m._C.f','m.C','m']
def default(name):
    last=name.split('.')[-1]
    return P.PRIVATE if last.startswith('_') and not (last.startswith('__') and last.endswith('__')) else P.PUBLIC
def ref_privacy(name, rules):
    priv=default(name)
    exact=[p for p,pat in rules if pat==name]
    if exact: return exact[-1]
    for p,pat in reversed(rules):
        toks=tokenize(pat)
        if toks is not None and match(toks,name): return p
    return priv
def ref_visible(name, rules):
    parts=name.split('.')
    return all(ref_privacy('.'.join(parts[:i]),rules) is not P.HIDDEN for i in range(1,len(parts)+1))
def shapes(name):
    parent='.'.join(name.split('.')[:-1])
    return [name, name[:-1]+'?', '**.'+name.split('.')[-1], (parent+'.*') if parent else '*', 'zz.*', '**']
def build(rules):
    s=model.System(); s.options.verbosity=-10; s.options.privacy=list(rules)
    b=s.systemBuilder(s)
    for k,v in SRC.items(): b.addModuleString(v,k)
    b.buildModules(); return s
bad=collections.Counter(); ex={}; n=0
for target in ['m.a','m._a','m.__a__','m.C.f','m._C.f']:
    rs=[(lvl,pat) for lvl in (P.HIDDEN,P.PRIVATE,P.PUBLIC) for pat in shapes(target)]
    for L in range(0,4):
        for rules in itertools.product(rs, repeat=L):
            s=build(rules); n+=1
            for name in NAMES:
                o=s.allobjects[name]
                if o.privacyClass is not ref_privacy(name,rules): bad['privacy']+=1; ex.setdefault('privacy',(name,rules,o.privacyClass))
                if o.isVisible != ref_visible(name,rules): bad['visible']+=1; ex.setdefault('visible',(name,rules,o.isVisible))
            if L==3 and n>40000: break
print('rule-list systems',n,'bad',dict(bad)); 
for k,v in ex.items(): print(k,v)
# (c) cache + reparent op sequences
ops=['q1','q2','rep','q1new']
bad2=collections.Counter(); m=0
rules=[(P.HIDDEN,'n.a'),(P.PRIVATE,'m.a'),(P.PUBLIC,'**._a')]
for L in range(1,5):
    for seq in itertools.product(['q:a','q:_a','reparent:a->n'], repeat=L):
        s=build(rules); m+=1
        a=s.allobjects['m.a']; _a=s.allobjects['m._a']
        for op in seq:
            if op=='q:a':
                if a.privacyClass is not ref_privacy(a.fullName(),rules): bad2['cache']+=1; ex.setdefault('cache',(seq,a.fullName(),a.privacyClass))
            elif op=='q:_a':
                if _a.privacyClass is not ref_privacy(_a.fullName(),rules): bad2['cache']+=1
            elif a.parent is s.allobjects['m']:
                a.reparent(s.allobjects['n'],'a')
print('op sequences',m,'bad',dict(bad2), ex.get('cache'))
