import itertools, json
from pydoctor import model
def build(mods, order):
    s = model.System(); s.options.verbosity = -10
    b = s.systemBuilder(s)
    byname = {(m[2]+'.' if m[2] else '')+m[0]: m for m in mods}
    for fn in order:
        name, text, parent, ispkg = byname[fn]
        b.addModuleString(text, name, parent, is_package=ispkg)
    b.buildModules()
    return s
def dump(s, hierarchy_only=False):
    d={}
    for k,o in sorted(s.allobjects.items()):
        e={'type':type(o).__name__}
        if isinstance(o, model.Class):
            e['bases']=o.bases; e['baseobjs']=[b.fullName() if b else None for b in o.baseobjects]; e['mro']=[x.fullName() if not isinstance(x,str) else x for x in o.mro(True)]
        if not hierarchy_only:
            e['kind']=o.kind.name if o.kind else None; e['doc']=o.docstring
        d[k]=e
    return d
def schedules(pkgname, children):
    for perm in itertools.permutations(children):
        yield [pkgname]+list(perm)
progs = {
 'base-from': {'p':('', True), 'a':('class A:\n "A"\n def f(self): "f"\n', False), 'b':('from .a import A\nclass B(A):\n def f(self): pass\n', False), 'c':('from .b import B\nclass C(B): pass\n', False)},
 'base-modattr': {'p':('', True), 'a':('class A: pass\n', False), 'b':('import p.a\nclass B(p.a.A): pass\n', False), 'c':('from p import a\nclass C(a.A): pass\n', False)},
 'base-star': {'p':('', True), 'a':('class A: pass\nclass _H: pass\n__all__=["A","_H"]\n', False), 'b':('from .a import *\nclass B(A): pass\nclass B2(_H): pass\n', False), 'c':('from .b import *\nclass C(B, A): pass\n', False)},
 'exc-kind': {'p':('', True), 'a':('class E(Exception): pass\n', False), 'b':('from .a import E\nclass E2(E): pass\n', False), 'c':('import p.b\nclass E3(p.b.E2): pass\n', False)},
 'final-alias': {'p':('', True), 'a':('from typing import Final\nF = Final\n', False), 'b':('import p.a\nx: p.a.Final = 1\ny: p.a.F = 2\n', False), 'c':('from p.a import Final as FF\nz: FF = 3\n', False)},
 'overload-alias': {'p':('', True), 'a':('from typing import overload\n', False), 'b':('import p.a\n@p.a.overload\ndef f(x:int)->int: ...\ndef f(x): pass\n', False), 'c':('from .a import overload as ov\n@ov\ndef g(x:int)->int: ...\ndef g(x): pass\n', False)},
 'reexport-init': {'p':('from .a import A\n__all__=["A"]\n', True), 'a':('class A:\n def f(self): pass\n', False), 'b':('from .a import A\nclass B(A): pass\n', False), 'c':('from p import A\nclass C(A): pass\n', False)},
 'reexport-sibling': {'p':('', True), 'a':('class A:\n def f(self): pass\n', False), 'b':('from .a import A\n__all__=["A"]\n', False), 'c':('from .a import A\nclass C(A): pass\nfrom .b import A as A2\nclass C2(A2): pass\n', False)},
 'ivar-inherit': {'p':('', True), 'a':('class A:\n """\n @ivar v: doc\n """\n', False), 'b':('from .a import A\nclass B(A):\n v = 1\n', False), 'c':('import p.b\nclass C(p.b.B):\n v = 2\n', False)},
 'zope': {'p':('', True), 'a':('from zope.interface import Interface\nclass IA(Interface):\n def m(): "doc"\n', False), 'b':('from zope.interface import implementer\nfrom .a import IA\n@implementer(IA)\nclass B:\n def m(self): pass\n', False), 'c':('import p.a\nclass IC(p.a.IA): pass\n', False)},
 'cycle2': {'p':('', True), 'a':('from .b import B\nclass A: pass\nclass A2(B): pass\n', False), 'b':('from .a import A\nclass B(A): pass\n', False), 'c':('from .a import A2\nclass C(A2): pass\n', False)},
 'alias-var': {'p':('', True), 'a':('class A: pass\nAl = A\n', False), 'b':('from .a import Al\nclass B(Al): pass\n', False), 'c':('import p.a as m\nclass C(m.Al): pass\nAl2 = m.A\nclass D(Al2): pass\n', False)},
 'docformat-inherit': {'p':('__docformat__="restructuredtext"\n', True), 'a':('def f():\n "`x`"\n', False), 'b':('__docformat__="epytext"\ndef g(): "L{x}"\n', False), 'c':('', False)},
}
for n,p in progs.items():
    mods=[(k, v[0], None if k=='p' else 'p', v[1]) for k,v in p.items()]
    res={}
    for sch in schedules('p',['p.a','p.b','p.c']):
        try:
            s=build(mods, sch)
            res[tuple(sch)]=json.dumps(dump(s, hierarchy_only=n.startswith('cycle')), sort_keys=True)
        except Exception as e:
            res[tuple(sch)]='EXC %s %s'%(type(e).__name__, e)
    vals=set(res.values())
    print(n, 'distinct dumps:', len(vals))
    if len(vals)>1:
        items=list(res.items())
        base=json.loads(items[0][1]) if not items[0][1].startswith('EXC') else items[0][1]
        for sch,v in items[1:]:
            if v!=items[0][1]:
                vv=json.loads(v) if not v.startswith('EXC') else v
                if isinstance(vv,dict) and isinstance(base,dict):
                    diff={k:(base.get(k),vv.get(k)) for k in set(base)|set(vv) if base.get(k)!=vv.get(k)}
                else: diff=(base,vv)
                print('   ', items[0][0], 'vs', sch, str(diff)[:600]); break
