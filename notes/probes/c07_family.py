"""Design-phase probe for C07: re-export family x consumers x schedules; clause signatures."""
import itertools, collections, re
from pydoctor import model, epydoc2stan
from pydoctor.stanutils import flatten
from pydoctor.templatewriter.pages import format_signature, format_class_signature
OBJ = {'class': 'class O:\n    "doc"\n    def m(self): "m"\n    class N: pass\n', 'func': 'def O(): "doc"\n', 'var': 'O = 1\n"doc"\n'}
def program(kind, rex, form, consumer):
    exported = 'N2' if form=='as' else 'O'
    imp = {'plain':'from ._impl import O\n', 'as':'from ._impl import O as N2\n', 'star':'from ._impl import *\n'}[form]
    imp_abs = imp.replace('from ._impl','from p._impl')
    mods = {'p':'', '_impl': OBJ[kind], 'rx':'', 'c':''}
    target_mod = 'p' if rex=='init' else 'p.rx'
    if rex=='init': mods['p'] = imp + f'__all__ = ["{exported}"]\n'
    else: mods['rx'] = imp + f'__all__ = ["{exported}"]\n'
    new_full = f'{target_mod}.{exported}'
    local = 'L'
    if consumer=='definer': cimp = 'from p._impl import O as L\n'
    elif consumer=='reexporter': cimp = f'from {target_mod} import {exported} as L\n'
    elif consumer=='modattr-definer': cimp = 'import p._impl\nL = p._impl.O\n'
    elif consumer=='modattr-reexporter': cimp = f'import {target_mod}\nL = {target_mod}.{exported}\n'
    body = cimp
    if kind=='class': body += 'class D(L):\n    """D L{L} L{p._impl.O} L{%s}"""\n' % new_full
    body += 'def g(a: L) -> L:\n    """g L{L} L{p._impl.O} L{%s}"""\n' % new_full
    mods['c'] = body
    return mods, new_full
def build(mods, order):
    s = model.System(); s.options.verbosity = -10
    b = s.systemBuilder(s)
    b.addModuleString(mods['p'], 'p', None, is_package=True)
    for m in order: b.addModuleString(mods[m], m, 'p')
    b.buildModules(); return s
sig=collections.Counter(); ex={}; n=0
for kind,rex,form,consumer in itertools.product(OBJ, ('init','sibling'), ('plain','as','star'), ('definer','reexporter','modattr-definer','modattr-reexporter')):
    mods,new_full = program(kind,rex,form,consumer)
    dumps=set()
    for order in itertools.permutations(['_impl','rx','c']):
        s=build(mods,order); n+=1
        probs=[]
        O=s.allobjects.get(new_full)
        if O is None: probs.append('not-at-new-location')
        if any(k=='p._impl.O' or k.startswith('p._impl.O.') for k in s.allobjects): probs.append('still-at-old-location')
        if O is not None:
            c=s.allobjects['p.c']
            if c.resolveName('L') is not O: probs.append('local-name-unresolved')
            if kind=='class':
                D=s.allobjects['p.c.D']
                if D.baseobjects!=[O]: probs.append('base-unresolved')
                h=flatten(epydoc2stan.format_docstring(D))
                hrefs=re.findall(r'href="([^"]+)"',h)
                if len(hrefs)!=3 or any(x!=O.url for x in hrefs): probs.append('xref-links:%d'%len([x for x in hrefs if x==O.url]))
                hs=flatten(format_class_signature(D))
                if O.url not in hs: probs.append('class-header-unlinked')
            g=s.allobjects['p.c.g']
            hg=flatten(format_signature(g))
            if hg.count('href="%s"'%O.url)!=2: probs.append('annotation-unlinked')
            hd=flatten(epydoc2stan.format_docstring(g)); hrefs=re.findall(r'href="([^"]+)"',hd)
            if len([x for x in hrefs if x==O.url])<3: probs.append('func-xref-links:%d'%len([x for x in hrefs if x==O.url]))
        for p_ in probs:
            k=(p_, consumer); sig[k]+=1; ex.setdefault(k,(kind,rex,form,order))
        dumps.add(tuple(sorted(probs)))
    if len(dumps)>1: sig[('schedule-dependent',consumer)]+=1; ex.setdefault(('schedule-dependent',consumer),(kind,rex,form))
print('builds',n)
for k,v in sorted(sig.items(), key=lambda kv:(kv[0][1],-kv[1])): print(v,k,ex[k])
