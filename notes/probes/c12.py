import sys, re, shutil, os
sys.path.insert(0,'/tmp/probe')
from crawl import run
files = {
 'pk/__init__.py': '"""Package doc."""\n',
 'pk/a.py': 'class A:\n    "A doc"\n    def meth(self): "meth doc"\n    X = 1\n',
 'pk/b.py': 'from .a import A\nclass B(A):\n    "B doc"\n    def meth(self): pass\n    def _priv(self): "p"\nclass C(B):\n    def meth(self): pass\ndef fn(): pass\n',
 'pk/_m.py': 'def g(): pass\n',
}
d, system, log = run(files, ['--privacy','PRIVATE:pk.b.B', '--privacy', 'PRIVATE:pk.b.fn', '--sidebar-expand-depth', '2'])
out=d+'/out'
for f in sorted(os.listdir(out)):
    if not f.endswith('.html'): continue
    t=open(os.path.join(out,f)).read()
    for m in re.finditer(r'<(\w+)([^>]*)>', t):
        pass
    # find contexts of links to pk.b.B.html or #fn or #_priv
    for target in ['pk.b.B.html"', '#fn"', 'pk.b.html#fn"', '#_priv"', 'pk._m.html"']:
        for m in re.finditer(re.escape(target), t):
            ctx = t[max(0,m.start()-400):m.start()]
            # nearest enclosing tr/li/div with class
            tags = re.findall(r'<(tr|li|div|span)\b([^>]*)>', ctx)
            print(f, target, tags[-2:])
shutil.rmtree(d)
