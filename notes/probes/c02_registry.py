import itertools
from pydoctor import model
def build(mods, order=None):
    s = model.System()
    s.options.verbosity = -10
    b = s.systemBuilder(s)
    for name, text, parent, ispkg in mods:
        b.addModuleString(text, name, parent, is_package=ispkg)
    if order:
        s.unprocessed_modules.sort(key=lambda m: order.index(m.fullName()))
    b.buildModules()
    return s
def check(s):
    bad=[]
    for k,o in s.allobjects.items():
        if o.fullName()!=k: bad.append(('key',k,o.fullName()))
        if o.parent is not None:
            if o.parent.contents.get(o.name) is not o and ' ' not in o.name: bad.append(('notinparent',k))
            if s.allobjects.get(o.parent.fullName()) is not o.parent: bad.append(('parentunreg',k, o.parent.fullName()))
        else:
            if o not in s.rootobjects: bad.append(('rootless',k))
    def walk(o):
        if s.allobjects.get(o.fullName()) is not o: bad.append(('unreg',o.fullName()))
        for c in o.contents.values():
            if c.parent is not o: bad.append(('parentmismatch', c.fullName(), o.fullName()))
            walk(c)
    for r in s.rootobjects: walk(r)
    return bad
progs = {
 'dup+move': [('p','from .a import X\n__all__=["X"]\n',None,True),('a','class X:\n  def m(self): pass\nclass X:\n  def n(self): pass\n','p',False)],
 'move-then-dup-in-target': [('p','from .a import X\n__all__=["X"]\nclass X:\n  def k(self): pass\n',None,True),('a','class X:\n  def m(self): pass\n','p',False)],
 'dup-in-target-then-move': [('p','class X:\n  def k(self): pass\nfrom .a import X\n__all__=["X"]\n',None,True),('a','class X:\n  def m(self): pass\n','p',False)],
 'two reexporters': [('p','from .a import X\n__all__=["X"]\n',None,True),('a','class X:\n  def m(self): pass\n','p',False),('b','from .a import X\n__all__=["X"]\n','p',False)],
 'rename': [('p','from .a import X as Y\n__all__=["Y"]\n',None,True),('a','class X:\n  def m(self): pass\nclass Z(X): pass\n','p',False)],
 'move var then redefine in source': [('p','from .a import X\n__all__=["X"]\n',None,True),('a','X = 1\n','p',False), ('b', 'from .a import X\nfrom p import X as Y\n', 'p', False)],
 'star': [('p','from .a import *\n__all__=["X"]\n',None,True),('a','class X:\n  def m(self): pass\n','p',False)],
 'ivar field + assign': [('a','class X:\n  """\n  @ivar v: doc\n  """\n  v = 1\n  def __init__(self): self.v = 2\n',None,False)],
 'class then func same name': [('a','class X:\n  def m(self): pass\ndef X(): pass\nX = 3\n',None,False)],
 'submodule vs class same name': [('p','class a:\n  pass\n',None,True),('a','class X: pass\n','p',False)],
 'import of submodule name + reexport module': [('p','from . import a\n__all__=["a"]\n',None,True),('a','class X: pass\n','p',False)],
 'reexport module from sibling pkg': [('p','from q import a\n__all__=["a"]\n',None,True),('q','',None,True),('a','class X: pass\n','q',False)],
}
for n,p in progs.items():
    names=[ (m[2]+'.' if m[2] else '')+m[0] for m in p]
    for order in itertools.permutations(names):
        try:
            s=build(p, list(order))
            print(n, order, sorted(s.allobjects), check(s))
        except Exception as e:
            import traceback
            print(n, order, 'EXC', type(e).__name__, e)
