import io, contextlib, tempfile, os, sys, shutil, traceback, signal
from pathlib import Path
from pydoctor import driver

def run(files, args=(), root='pk'):
    d = tempfile.mkdtemp(prefix='pdprobe')
    try:
        for rel, content in files.items():
            p = Path(d)/rel; p.parent.mkdir(parents=True, exist_ok=True)
            if isinstance(content, bytes): p.write_bytes(content)
            else: p.write_text(content, encoding='utf-8', errors='surrogatepass')
        out = io.StringIO(); err = io.StringIO()
        rc = None; exc = None
        with contextlib.redirect_stdout(out), contextlib.redirect_stderr(err):
            try:
                rc = driver.main(['--html-output', d+'/out', '--project-base-dir', d, *args, str(Path(d)/root)])
            except SystemExit as e:
                rc = ('SystemExit', e.code)
            except BaseException as e:
                exc = traceback.format_exc()
        listing = sorted(os.listdir(d+'/out')) if os.path.isdir(d+'/out') else None
        return rc, exc, out.getvalue().replace(d,'<D>'), err.getvalue().replace(d,'<D>'), listing
    finally:
        shutil.rmtree(d, ignore_errors=True)

if __name__=='__main__':
    cases = {
     'surrogate docstring': {'pk/__init__.py': '', 'pk/m.py': 'def f():\n    "\\udc80 x"\n'},
     'surrogate const': {'pk/__init__.py': '', 'pk/m.py': 'X = "\\udc80"\nY: Final = 1\nfrom typing import Final\nZ: Final = "\\ud800"\n'},
     'nul byte file': {'pk/__init__.py': '', 'pk/m.py': b'x = 1\n\x00\n', 'pk/n.py':'def g(): "ok"\n'},
     'bad encoding': {'pk/__init__.py': '', 'pk/m.py': b'# -*- coding: latin-1 -*-\nx = "\xff"\n', 'pk/n.py': b'x = "\xff"\n'},
     'syntax err': {'pk/__init__.py': '', 'pk/m.py': 'def (:\n', 'pk/n.py':'def g(): "ok"\n'},
     'star base': {'pk/__init__.py': '', 'pk/m.py': 'B=()\nclass A(*B, **{}): pass\nclass C(A, metaclass=type): pass\n'},
     'odd all': {'pk/__init__.py': '__all__ = ["a", 1, *x]\n__all__ += ["b"]\n__all__ = 3\n', 'pk/m.py':'__all__ = [f"{x}"]\n__docformat__ = 3\n__docformat__ = ""\n__docformat__="nope"\ndef f():\n  "doc"\n'},
     'rel too high': {'pk/__init__.py': 'from .... import x\nfrom . import *\nfrom .nope import *\n', 'pk/m.py':'from ..... import *\n'},
     'deep nesting': {'pk/__init__.py': '', 'pk/m.py': 'x = ' + '('*80 + '1' + ')'*80 + '\ny = ' + '['*150 + ']'*150 + '\n'},
     'deep binop': {'pk/__init__.py': '', 'pk/m.py': 'from typing import Final\nX: Final = ' + '+'.join(['1']*3000) + '\n'},
     'prop cm': {'pk/__init__.py': '', 'pk/m.py': 'class A:\n  @property\n  @classmethod\n  def p(cls): "d"\n  @p.setter\n  def p(self, v): pass\n  @staticmethod\n  @classmethod\n  def q(): pass\n'},
     'weird decorators': {'pk/__init__.py': '', 'pk/m.py': 'class A:\n  @(lambda f: f)\n  def p(self): pass\n  @x[0].y(1)(2)\n  def q(self): pass\n@(yield)\ndef f(): pass\n'},
     'doc assign': {'pk/__init__.py': '', 'pk/m.py': 'class A: pass\nA.__doc__ = "x"\nA.__doc__ = 1\nB.__doc__ = "x"\n(a, b).__doc__ = "x"\nA.__doc__, c = "x", 1\nf().__doc__ = "y"\n'},
     'cond nested': {'pk/__init__.py': '', 'pk/m.py': 'if x:\n  class A:\n    if y:\n      def f(self): pass\n    else:\n      def f(self): pass\n  try:\n    import q\n  except ImportError:\n    q = None\n  finally:\n    z = 1\n  while 1:\n    def w(): pass\n  with a as b:\n    class W: pass\n  match x:\n    case 1:\n      def mm(): pass\n'},
     'dup module/pkg': {'pk/__init__.py': '', 'pk/m.py': 'x=1\n', 'pk/m/__init__.py': 'y=1\n'},
     'main': {'pk/__init__.py': '', 'pk/__main__.py': 'x=1\n'},
     'annotation junk': {'pk/__init__.py': '', 'pk/m.py': 'def f(a: "(", b: "x y" = 1, *c: "1 +", **d: "") -> "lambda": pass\nv: "(" = 1\nw = 1 # type: (\n'},
     'overload junk': {'pk/__init__.py': '', 'pk/m.py': 'from typing import overload\ndef f(): pass\n@overload\ndef f(a): "doc"\n@overload\ndef g(a): pass\n@overload\ndef g(a, b): pass\n'},
     'ctrl chars': {'pk/__init__.py': '', 'pk/m.py': 'def f():\n  "a\\x00b\\x01c\\x0bd\\x7f \\ufffe \\uffff"\nX = "\\x00\\x1b"\n'},
     'empty pkg only': {'pk/__init__.py': ''},
     'bom': {'pk/__init__.py': b'\xef\xbb\xbfx=1\n'},
     'form feed': {'pk/__init__.py': 'def f():\n\x0c  pass\n'},
     'lambda default': {'pk/__init__.py': 'def f(a=lambda x, *y, z=1, **k: (yield), b=[i for i in range(3) if i], c={**d}, e=f"{x!r:>{w}}", g=b"\\xff", h=...): pass\n'},
     'class kw': {'pk/__init__.py': 'class A(x for x in y): pass\n' },
     'walrus slice': {'pk/__init__.py': 'X = a[1:2, ::3, ...]\nY = (z := 3)\nclass B(a[1:2]): pass\nclass C(f(x)[0]): pass\n' },
    }
    for fmt in ['epytext','restructuredtext','google','numpy','plaintext']:
        for name, files in cases.items():
            rc, exc, out, err, listing = run(files, ['--docformat', fmt])
            flag = 'CRASH' if exc else ''
            if exc or fmt=='epytext':
                print('==', fmt, name, rc, flag, 'files' , len(listing or []))
                if exc: print(exc[-1500:])
                if fmt=='epytext' and '-v' in sys.argv: print(out[-800:]); print(err[-300:])
