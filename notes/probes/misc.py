from pydoctor import visitor
from pydoctor.sphinx import SphinxInventory, _parseInventoryLine
import zlib, io
# (a) visitor
class N:
    def __init__(s, name, *ch, act=None): s.name=name; s.ch=list(ch); s.act=act
log=[]
class Main(visitor.Visitor):
    def unknown_visit(s, ob):
        log.append(('main','visit',ob.name))
        if ob.act: raise getattr(s, ob.act)()
    def unknown_departure(s, ob): log.append(('main','depart',ob.name))
    @classmethod
    def get_children(cls, ob): return ob.ch
def mk(when):
    class E(visitor.VisitorExt):
        pass
    E.when = when
    E.unknown_visit = lambda s, ob: log.append((when.name,'visit',ob.name))
    E.unknown_departure = lambda s, ob: log.append((when.name,'depart',ob.name))
    return E
for act in ['SkipSiblings','SkipChildren','SkipNode','SkipDeparture']:
    log.clear()
    t = N('r', N('a', N('a1'), act=act), N('b'))
    v = Main(visitor.ExtList(mk(visitor.When.AFTER)))
    v.walkabout(t)
    print(act, [f'{w[0][:2]}{"+" if w[1]=="visit" else "-"}{w[2]}' for w in log])
# (b) inventory
errs=[]
inv = SphinxInventory(logger=lambda *a, **k: errs.append(a))
class C:
    def get(self, url): return b'# Sphinx inventory version 2\n# Project: x\n# Version: 1\n# zlib\n'+zlib.compress(b'good py:class 1 good.html -\nbad py:class 1\nalso py:class 1 also.html -\n')
    def close(self): pass
try:
    inv.update(C(), 'http://h/objects.inv'); print('ok', inv._links, errs)
except Exception as e: print('INV EXC', type(e).__name__, e)
# (c) ini percent
from pydoctor._configparser import IniConfigParser
p = IniConfigParser(['pydoctor'], True)
for v in ["'100%'", '"a%%b"', "'a;b'", "'#x'", "' x '"]:
    try: print(v, p.parse(io.StringIO('[pydoctor]\nproject-name = %s\n' % v)))
    except Exception as e: print(v, 'EXC', type(e).__name__, e)
