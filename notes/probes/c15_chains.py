"""Design-phase probe for C15: operator chains of depth 3 (all operator triples, all positions) + truncation marking."""
import ast, itertools, collections, time
from pydoctor.epydoc.markup._pyval_repr import colorize_inline_pyval, colorize_pyval
from pydoctor import node2stan
UN=['-','+','not ','~']; BIN=['+','-','*','/','//','%','**','<<','>>','|','^','&','@']; BOOL=['and','or']
OPS=[('u',o) for o in UN]+[('b',o) for o in BIN]+[('l',o) for o in BOOL]+[('c','<'),('c','is not'),('i','if')]
def apply(op, args):
    k,o=op
    if k=='u': return f'{o}({args[0]})'
    if k in 'blc': return f'({args[0]}) {o} ({args[1]})'
    if k=='i': return f'({args[0]}) if ({args[1]}) else ({args[2]})'
def arity(op): return {'u':1,'b':2,'l':2,'c':2,'i':3}[op[0]]
class T(ast.NodeTransformer):
    def visit_Call(s,n):
        s.generic_visit(n)
        if isinstance(n.func,ast.Name) and n.func.id=='set' and len(n.args)==1 and isinstance(n.args[0],ast.List) and not n.keywords:
            return ast.Set(elts=n.args[0].elts)
        return n
def norm(e): return ast.dump(T().visit(ast.parse(ast.unparse(e),mode='eval').body))
def check(src):
    e=ast.parse(src,mode='eval').body
    canon=ast.unparse(e); e=ast.parse(canon,mode='eval').body
    t=''.join(node2stan.gettext(colorize_inline_pyval(e).to_node()))
    try: back=ast.parse(t,mode='eval').body
    except SyntaxError: return ('syntax',canon,t)
    if norm(back)!=norm(e): return ('diff',canon,t)
    return None
sig=collections.Counter(); ex={}; n=0; t0=time.time()
leaves=iter(lambda: None, 1)
for o1 in OPS:
    for p1 in range(arity(o1)):
        for o2 in OPS:
            for p2 in range(arity(o2)):
                for o3 in OPS:
                    inner=apply(o3,['a','b','c'][:arity(o3)])
                    a2=['d','e','f'][:arity(o2)]; a2[p2]=inner
                    mid=apply(o2,a2)
                    a1=['g','h','i'][:arity(o1)]; a1[p1]=mid
                    src=apply(o1,a1); n+=1
                    r=check(src)
                    if r:
                        k=(r[0], o1[0], p1, o2[0], p2, o3[0]); sig[k]+=1; ex.setdefault(k,r[1:])
print('chains',n,'time',round(time.time()-t0,1),'signature classes',len(sig))
for k,v in sig.most_common(30): print(v,k,ex[k])
# truncation (layout-independent oracle)
import re
def wsfree(s): return re.sub(r'\s+','',s.replace('↵',''))
vals=['[1, 2, 3, 4, 5, 6, 7, 8, 9, 10]', '"abcdefghij klmnop qrstuv wxyz"', '{"a": [1,2,3], "b": (4,5,6), "c": {7,8,9}}', 'f(aaaa, bbbb, cccc, k=dddd)', '"line1\\nline2\\nline3\\nline4"', '[[1,2],[3,4],[5,6],[7,8]]', 'a.b.c.d.e.f.g.h.i.j', '1', 'b"bytes\\nmore"', '(aaaa + bbbb) * cccc - dddd', '[x for x in range(100) if x % 2]', 're.compile("a+b*(c|d)")']
tb=collections.Counter(); texs={}; m=0
for v in vals:
    e=ast.parse(v,mode='eval').body
    full=''.join(node2stan.gettext(colorize_pyval(e,linelen=0,maxlines=0).to_node()))
    for ll in (0,5,10,20,80):
        for ml in (0,1,2,7):
            m+=1
            r=colorize_pyval(ast.parse(v,mode='eval').body,linelen=ll,maxlines=ml)
            t=''.join(node2stan.gettext(r.to_node()))
            same = wsfree(t)==wsfree(full)
            if same:
                if not r.is_complete: tb['complete-but-flagged-incomplete']+=1; texs.setdefault('complete-but-flagged-incomplete',(v,ll,ml,t))
                try:
                    back=ast.parse(t.replace('↵\n',''),mode='eval').body
                    if norm(back)!=norm(e): tb['block-diff']+=1; texs.setdefault('block-diff',(v,ll,ml,t))
                except SyntaxError: tb['block-unparsable']+=1; texs.setdefault('block-unparsable',(v,ll,ml,t))
            else:
                if r.is_complete: tb['cut-but-is_complete']+=1; texs.setdefault('cut-but-is_complete',(v,ll,ml,t,full))
                if not t.rstrip().endswith('...'): tb['cut-without-ellipsis']+=1; texs.setdefault('cut-without-ellipsis',(v,ll,ml,t,full))
                elif not wsfree(full).startswith(wsfree(t.rstrip()[:-3])): tb['not-a-prefix']+=1; texs.setdefault('not-a-prefix',(v,ll,ml,t,full))
print('truncation cases',m,dict(tb))
for k,v in texs.items(): print(k,v)
