from run import run
cases = {
 'doc': {'pk/__init__.py': 'def f():\n    "\\udc80 x"\n'},
 'attrdoc': {'pk/__init__.py': 'x = 1\n"\\udc80 attr"\n'},
 'docassign': {'pk/__init__.py': 'class A: pass\nA.__doc__ = "\\udc80"\n'},
 'fstring': {'pk/__init__.py': 'from typing import Final\nX: Final = f"\\udc80{1}"\ndef g(a=f"\\udc80{1}"): pass\n'},
 'const': {'pk/__init__.py': 'from typing import Final\nX: Final = "\\udc80"\n'},
 'zopeattr': {'pk/__init__.py': 'from zope.interface import Interface, Attribute\nclass I(Interface):\n    a = Attribute("\\udc80")\n'},
 'all': {'pk/__init__.py': '__all__ = ["\\udc80"]\n__docformat__ = "\\udc80"\n'},
 'deco': {'pk/__init__.py': '@d("\\udc80")\ndef f(): pass\nclass B(X["\\udc80"]): pass\n'},
 'bytesname': {'pk/__init__.py': 'def f(a: "\\udc80"): pass\n'},
}
for n,f in cases.items():
    rc, exc, out, err, listing = run(f)
    print(n, rc, (exc or '').strip().splitlines()[-1:] )
