"""Design-phase probe for C06: feature singles+pairs on skeleton p{a,b,c} x all 6 schedules; dump equality; processing-state graph stats."""
import itertools, json, collections
from pydoctor import model
F = {
 'base-from':    {'a':'class A:\n    "A doc"\n    def f(self): "f doc"\n', 'b':'from .a import A\nclass B(A):\n    def f(self): pass\n'},
 'base-modattr': {'a':'class A2: pass\n', 'c':'import p.a\nclass C2(p.a.A2): pass\n'},
 'base-from-pkg':{'a':'class A3: pass\n', 'c':'from p import a\nclass C3(a.A3): pass\n'},
 'base-star':    {'a':'class A4: pass\n', 'b':'from .a import *\nclass B4(A4): pass\n'},
 'base-init':    {'p':'class P5: pass\n', 'c':'from p import P5\nclass C5(P5): pass\n'},
 'exc-kind':     {'a':'class E6(Exception): pass\n', 'b':'from .a import E6\nclass E6b(E6): pass\n', 'c':'from .b import E6b\nclass E6c(E6b): pass\n'},
 'ivar-inherit': {'a':'class A7:\n    """\n    @ivar v: doc\n    """\n', 'b':'from .a import A7\nclass B7(A7):\n    v = 1\n'},
 'final-from':   {'a':'from typing import Final\n', 'b':'from .a import Final as F8\nx8: F8 = 1\n'},
 'final-modattr':{'a':'from typing import Final\n', 'c':'import p.a\nx9: p.a.Final = 1\n'},
 'overload-modattr':{'a':'from typing import overload\n', 'c':'import p.a\n@p.a.overload\ndef f19(x:int)->int: ...\ndef f19(x): pass\n'},
 'zope-modattr': {'a':'from zope.interface import Interface\nclass I20(Interface): pass\n', 'c':'import p.a\nclass I20c(p.a.I20): pass\n'},
 'reexport-sib-definer': {'b':'from .a import R21\n__all__=["R21"]\n', 'a':'class R21: pass\n', 'c':'from .a import R21\nclass C21(R21): pass\n'},
 'reexport-init-definer': {'p':'from .a import R22\n__all__=["R22"]\n', 'a':'class R22: pass\n', 'c':'from .a import R22\nclass C22(R22): pass\n'},
 'reexport-init':{'p':'from .a import R10\n__all__=["R10"]\n', 'a':'class R10:\n    def m(self): pass\n', 'c':'from p import R10\nclass C10(R10): pass\n'},
 'reexport-as':  {'p':'from .a import R11 as N11\n__all__=["N11"]\n', 'a':'class R11: pass\n', 'b':'from p import N11\nclass B11(N11): pass\n'},
 'reexport-star':{'p':'from .a import *\n__all__=["R12"]\n', 'a':'class R12: pass\n__all__=[]\n'},
 'reexport-sib': {'b':'from .a import R13\n__all__=["R13"]\n', 'a':'class R13: pass\n', 'c':'from .b import R13\nclass C13(R13): pass\n'},
 'alias-chain':  {'a':'class A14: pass\nAl14 = A14\n', 'b':'from .a import Al14\nclass B14(Al14): pass\n', 'c':'from .b import Al14 as Z14\nclass C14(Z14): pass\n'},
 'zope':         {'a':'from zope.interface import Interface\nclass I15(Interface):\n    def m(): "doc"\n', 'b':'from zope.interface import implementer\nfrom .a import I15\n@implementer(I15)\nclass B15:\n    def m(self): pass\n', 'c':'from .a import I15\nclass I15c(I15): pass\n'},
 'docformat':    {'p':'__docformat__="restructuredtext"\n', 'b':'__docformat__="epytext"\ndef g16(): "L{x}"\n', 'c':'def h16():\n    "`x`"\n'},
 'cycle':        {'a':'from .b import B17\nclass A17: pass\nclass A17b(B17): pass\n', 'b':'from .a import A17\nclass B17(A17): pass\n', '__cyclic__':True},
 'tc-cycle':     {'a':'from typing import TYPE_CHECKING\nif TYPE_CHECKING:\n    from .b import B18\nclass A18: pass\n', 'b':'from .a import A18\nclass B18(A18): pass\n', '__cyclic__':True},
}
def program(feats):
    src={'p':'','a':'','b':'','c':''}; cyc=False
    for f in feats:
        for k,v in F[f].items():
            if k=='__cyclic__': cyc=True
            else: src[k]+=v
    return src,cyc
class TS(model.System):
    def __init__(self,*a,**k): super().__init__(*a,**k); self.trace=[]; self._stack=[]
    def processModule(self, mod):
        self._stack.append(mod.fullName()); self.trace.append(('enter',mod.fullName(),tuple(self._stack)))
        try: super().processModule(mod)
        finally: self._stack.pop(); self.trace.append(('exit',mod.fullName(),tuple(self._stack)))
def build(src, order):
    s=TS(); s.options.verbosity=-10
    b=s.systemBuilder(s); b.addModuleString(src['p'],'p',None,is_package=True)
    for m in order: b.addModuleString(src[m],m,'p')
    b.buildModules(); return s
def dump(s, hierarchy_only):
    d={}
    for k,o in sorted(s.allobjects.items()):
        e={'type':type(o).__name__}
        if isinstance(o, model.Class):
            e['bases']=o.bases; e['baseobjs']=[b.fullName() if b else None for b in o.baseobjects]; e['mro']=[x.fullName() if not isinstance(x,str) else x for x in o.mro(True)]
        if not hierarchy_only:
            e['kind']=o.kind.name if o.kind else None; e['doc']=o.docstring
            if isinstance(o, model.Module): e['docformat']=o.docformat
        if hierarchy_only and not isinstance(o, model.Class): continue
        d[k]=e
    return d
names=list(F); cases=[(a,) for a in names]+list(itertools.combinations(names,2))
sig=collections.Counter(); ex={}; states=set(); trans=set(); execs=0; nontrivial=0
for feats in cases:
    src,cyc=program(feats); res={}; traces=set()
    for order in itertools.permutations(['a','b','c']):
        try: s=build(src,order)
        except Exception as e: res[order]='EXC '+type(e).__name__+str(e)[:50]; continue
        execs+=1
        res[order]=json.dumps(dump(s,cyc),sort_keys=True)
        tr=[]; done=frozenset(); prev=None
        for ev,name,stack in s.trace:
            if ev=='exit': done=done|{name}
            st=(done,stack); states.add(st)
            if prev is not None: trans.add((prev,st))
            prev=st; tr.append((ev,name))
        traces.add(tuple(tr))
    if len(traces)>1: nontrivial+=1
    if len(set(res.values()))>1:
        items=list(res.items()); base=items[0][1]
        diffkeys=set()
        for o,v in items[1:]:
            if v!=base and not v.startswith('EXC') and not base.startswith('EXC'):
                a,b=json.loads(base),json.loads(v)
                for k in set(a)|set(b):
                    if a.get(k)!=b.get(k):
                        fields=tuple(sorted(f for f in set(a.get(k,{}))|set(b.get(k,{})) if a.get(k,{}).get(f)!=b.get(k,{}).get(f)))
                        diffkeys.add((k.split('.')[-1][:3]+'..', fields))
            elif v!=base: diffkeys.add(('EXC',))
        culprit=tuple(sorted(set(feats)))
        sig[culprit]+=1; ex[culprit]=sorted(diffkeys)[:3]
print('programs',len(cases),'executions',execs,'programs with >=2 distinct processing traces',nontrivial,'states',len(states),'transitions',len(trans))
single=[k for k in sig if len(k)==1]
print('order-dependent singles:',[(k,ex[k]) for k in single])
print('order-dependent pairs not explained by a single:',[(k,ex[k]) for k in sig if len(k)==2 and not any((f,) in sig for f in k)])
