import re, html, ast
from pydoctor import model
from pydoctor.stanutils import flatten
from pydoctor.templatewriter.pages import format_signature, format_function_def, format_overloads
src = '''
from typing import overload, List, Literal, Optional, Callable
class K:
    def m(self, a, /, b: int = 1, *args: 'str', c, d: "List[int]" = (1,), **kw: Literal['x']) -> None: pass
    @classmethod
    def cm(cls, x=lambda a, b=1: 0, *, y: Optional["K"] = None) -> 'K': pass
    @staticmethod
    def sm(*, z=-1): pass
def f(a=(1, 2), b=[x], c={}, d=x or y, e=f(a, k=1), g: Callable[[int], str] = None, h: int | None = 3) -> int: pass
@overload
def o(a: int) -> int: ...
@overload
def o(a: str, b: bytes = b'x') -> str: ...
def o(a, b=None): pass
'''
s = model.System(); s.options.verbosity=-10
b = s.systemBuilder(s); b.addModuleString(src, 'm'); b.buildModules()
def text(stan): return html.unescape(re.sub(r'<[^>]+>', '', flatten(stan)))
for n in ['m.K.m','m.K.cm','m.K.sm','m.f']:
    t = text(format_signature(s.allobjects[n]))
    try: ast.parse('def f'+t+': pass'); ok=True
    except SyntaxError as e: ok=e
    print(n, t, ok)
o = s.allobjects['m.o']
for ov in o.overloads: print('ov', text(format_signature(ov)))
print(text(list(format_overloads(o))))
