import io, contextlib, tempfile, os, sys, shutil, re
sys.path.insert(0,'/tmp/probe')
from run import run
def case(fmt, body_lines, k=0, indent='    ', first_on_open=True, lead_blank=0, raw=False):
    # function docstring
    pre = '\n'*k
    q = ('r' if raw else '')+'"""'
    doc = []
    if first_on_open:
        doc.append(indent+q+body_lines[0])
        rest = body_lines[1:]
    else:
        doc.append(indent+q)
        doc += ['']*lead_blank
        rest = body_lines
    doc += [ (indent+l if l else '') for l in rest]
    doc.append(indent+'"""')
    src = pre+'def f(a):\n'+'\n'.join(doc)+'\n    pass\n'
    return src
bodies = {
 'epytext': ['First para L{nope1}', 'continues L{nope2}.', '', 'Second para', 'with L{nope3} here.', '', '  - item L{nope4}', '    more L{nope5}', '', '@param a: desc L{nope6}', '    cont L{nope7}', '@param zz: no such', '@foo: unknown'],
 'restructuredtext': ['First para `nope1`', 'continues `nope2`.', '', 'Second para', 'with `nope3` here.', '', '- item `nope4`', '  more `nope5`', '', ':param a: desc `nope6`', '    cont `nope7`', ':param zz: no such', ':foo: unknown'],
 'google': ['First para `nope1`', 'continues `nope2`.', '', 'Args:', '    a: desc `nope6`', '        cont `nope7`', '    zz: no such', ''],
 'numpy': ['First para `nope1`', 'continues `nope2`.', '', 'Parameters', '----------', 'a: int', '    desc `nope6`', 'zz: int', '    no such', ''],
}
for fmt, b in bodies.items():
    for first_on_open, lead in [(True,0),(False,0),(False,2)]:
        for k in (0,3):
            src = case(fmt, b, k=k, first_on_open=first_on_open, lead_blank=lead)
            rc, exc, out, err, listing = run({'pk/__init__.py':'', 'pk/m.py':src}, ['--docformat',fmt,'-W'])
            lines = src.split('\n')
            rep = []
            for l in out.splitlines():
                m = re.match(r'<D>/pk/m.py:(\d+|\?\?\?): (.*)', l)
                if m: 
                    ln = m.group(1); msg=m.group(2)
                    srcl = lines[int(ln)-1].strip() if ln.isdigit() and int(ln)<=len(lines) else '??'
                    rep.append((ln, msg[:45], srcl[:30]))
            print(fmt, first_on_open, lead, k, rc, exc and exc[-200:])
            if k==0:
                for r in rep: print('     ', r)
