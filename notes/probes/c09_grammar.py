"""Design-phase probe for C09: small document grammar serialised to epytext / reST / google / numpy;
oracle = word tokens of the description in order, literal/doctest blocks char-exact, field tokens in their row."""
import itertools, re, html, io, contextlib, collections, sys
from pydoctor import model, epydoc2stan
from pydoctor.stanutils import flatten

class W:
    def __init__(s): s.n=0
    def __call__(s): s.n+=1; return f'w{s.n:04d}'

# ---- block constructors: each returns (kind, payload) using fresh words
def para(w, inline='plain'):
    return ('para', [(inline, w()), ('plain', w()), ('plain', w())])
def bullets(w, nested=False, two=True):
    items=[[('plain',w()),('plain',w())]]
    if two: items.append([('plain',w())])
    return ('ulist', items, ([('plain',w())] if nested else None))
def olist(w): return ('olist', [[('plain',w())],[('plain',w())]])
def literal(w): return ('literal', [f'{w()}  <&> {w()}', f'  {w()}', '', f'{w()}'])
def doctest(w): return ('doctest', [f'>>> {w()} = 1', f'... {w()}', f'{w()}'])
def section(w): return ('section', w(), [('plain',w())])
BLOCKS = {
 'para': lambda w: para(w), 'para-bold': lambda w: para(w,'bold'), 'para-ital': lambda w: para(w,'ital'),
 'para-code': lambda w: para(w,'code'), 'para-url': lambda w: para(w,'url'),
 'ulist': lambda w: bullets(w), 'ulist1': lambda w: bullets(w,two=False), 'ulist-nested': lambda w: bullets(w,nested=True),
 'olist': olist, 'literal': literal, 'doctest': doctest, 'section': section,
}
def inl(fmt, kind, word):
    if kind=='plain': return word
    if fmt=='epytext': return {'bold':f'B{{{word}}}','ital':f'I{{{word}}}','code':f'C{{{word}}}','url':f'U{{{word}<http://x/>}}'}[kind]
    return {'bold':f'**{word}**','ital':f'*{word}*','code':f'``{word}``','url':f'`{word} <http://x/>`_'}[kind]
def ser_inlines(fmt, inls): return ' '.join(inl(fmt,k,wd) for k,wd in inls)
def ser_block(fmt, b, intro_needed):
    k=b[0]; L=[]
    if k=='para':
        words=[inl(fmt,kk,wd) for kk,wd in b[1]]
        L=[' '.join(words[:2]), words[2]]
    elif k=='ulist':
        ind = '  ' if fmt=='epytext' else ''
        for i,item in enumerate(b[1]):
            L.append(f'{ind}- '+ser_inlines(fmt,item))
            if i==0 and b[2]:
                L.append('')
                L.append(f'{ind}  '+('  ' if fmt=='epytext' else '')+'- '+ser_inlines(fmt,b[2]))
                L.append('')
    elif k=='olist':
        ind = '  ' if fmt=='epytext' else ''
        for i,item in enumerate(b[1],1): L.append(f'{ind}{i}. '+ser_inlines(fmt,item))
    elif k=='literal':
        L=['Lit::','']+[('    '+l if l else '') for l in b[1]]
    elif k=='doctest':
        L=list(b[1])
    elif k=='section':
        L=[b[1], '='*len(b[1]), '', ser_inlines(fmt,b[2])]
    return L
FIELDS_E = {'param':'@param a: {w}', 'return':'@return: {w}', 'raise':'@raise ValueError: {w}', 'note':'@note: {w}', 'see':'@see: {w}', 'author':'@author: {w}', 'since':'@since: {w}', 'keyword':'@keyword k: {w}', 'type':'@type a: {w}', 'rtype':'@rtype: {w}', 'unknown':'@foo: {w}', 'warns':'@warns: {w}', 'yield':'@yield: {w}'}
NAP_FIELDS = {
 'google': {'param':'Args:\n    a: {w}', 'return':'Returns:\n    {w}', 'raise':'Raises:\n    ValueError: {w}', 'note':'Note:\n    {w}', 'see':'See Also:\n    {w}', 'keyword':'Keyword Args:\n    k: {w}', 'type':'Args:\n    a (int): {w}', 'rtype':'Returns:\n    int: {w}', 'warns':'Warns:\n    UserWarning: {w}', 'yield':'Yields:\n    {w}'},
 'numpy': {'param':'Parameters\n----------\na\n    {w}', 'return':'Returns\n-------\nint\n    {w}', 'raise':'Raises\n------\nValueError\n    {w}', 'note':'Notes\n-----\n{w}', 'see':'See Also\n--------\nfoo : {w}', 'keyword':'Other Parameters\n----------------\nk\n    {w}', 'type':'Parameters\n----------\na : int\n    {w}', 'rtype':'Returns\n-------\nint\n    {w}', 'warns':'Warns\n-----\nUserWarning\n    {w}', 'yield':'Yields\n------\nint\n    {w}'},
}
def serialize(fmt, blocks, field, w):
    if fmt in NAP_FIELDS:
        L=[]
        for b in blocks:
            if L: L.append('')
            L+=ser_block('restructuredtext',b,False)
        ftok=None
        if field:
            if field not in NAP_FIELDS[fmt]: return None,None
            ftok=w(); L+=['',*NAP_FIELDS[fmt][field].format(w=ftok).split('\n')]
        return '\n'.join(L), ftok
    return _serialize(fmt, blocks, field, w)
def _serialize(fmt, blocks, field, w):
    L=[]
    for b in blocks:
        if L: L.append('')
        L+=ser_block(fmt,b,False)
    ftok=None
    if field:
        ftok=w()
        line=FIELDS_E[field].format(w=ftok)
        if fmt=='restructuredtext': line=re.sub(r'^@(\w+)( [^:]+)?:', lambda m:':'+m.group(1)+(m.group(2) or '')+':', line)
        L+=['',line]
    return '\n'.join(L), ftok
def expected_tokens(blocks):
    out=[]
    for b in blocks:
        if b[0]=='para': out+=[wd for _,wd in b[1]]
        elif b[0]=='ulist':
            for i,item in enumerate(b[1]):
                out+=[wd for _,wd in item]
                if i==0 and b[2]: out+=[wd for _,wd in b[2]]
        elif b[0]=='olist':
            for item in b[1]: out+=[wd for _,wd in item]
        elif b[0] in('literal','doctest'): out+=re.findall(r'w\d{4}',' '.join(b[1]))
        elif b[0]=='section': out+=[b[1]]+[wd for _,wd in b[2]]
    return out
def mk(fmt):
    s = model.System(); s.options.verbosity=0; s.options.docformat=fmt
    b = s.systemBuilder(s); b.addModuleString('def f(a, **kw):\n    pass\n', 'm'); b.buildModules()
    return s
sig=collections.Counter(); ex={}; n=0
maxb=int(sys.argv[1]) if len(sys.argv)>1 else 2
for fmt in (sys.argv[2].split(',') if len(sys.argv)>2 else ('epytext','restructuredtext')):
    s=mk(fmt); f=s.allobjects['m.f']
    for nb in range(1,maxb+1):
        for combo in itertools.product(BLOCKS, repeat=nb):
            # literal intro "Lit::" is a paragraph; doctest directly after para needs blank (we always add blank)
            for field in [None]+list(FIELDS_E):
                w=W(); blocks=[BLOCKS[c](w) for c in combo]
                doc,ftok=serialize(fmt,blocks,field,w)
                if doc is None: continue
                f.docstring=doc; f.parsed_docstring=None; f.parsed_summary=None
                s.parse_errors.clear()
                out=io.StringIO()
                with contextlib.redirect_stdout(out):
                    h=flatten(epydoc2stan.format_docstring(f))
                n+=1
                msgs=out.getvalue()
                body_html, _, table = h.partition('<table class="fieldTable">')
                text=html.unescape(re.sub(r'<[^>]+>','',body_html))
                got=re.findall(r'w\d{4}',text); exp=expected_tokens(blocks)
                if fmt in NAP_FIELDS and field in ('note','see') and ftok in got: got.remove(ftok); in_body=True
                else: in_body=False
                key=None
                if 'bad docstring' in msgs: key=('parse-error', fmt, combo, msgs.strip().splitlines()[0][-60:])
                elif got!=exp: key=('body-tokens', fmt, combo)
                elif field and field!='unknown' and not in_body and ftok not in html.unescape(re.sub(r'<[^>]+>','',table)): key=('field-lost', fmt, field)
                else:
                    for b in blocks:
                        if b[0]=='literal':
                            lit='\n'.join(b[1])
                            pres=[html.unescape(re.sub(r'<[^>]+>','',p)) for p in re.findall(r'<pre[^>]*>(.*?)</pre>', body_html, flags=re.S)]
                            import textwrap
                            if not any(textwrap.dedent(p).strip('\n')==textwrap.dedent(lit).strip('\n') for p in pres): key=('literal-not-exact', fmt, combo); ex.setdefault(key,(doc,pres))
                        if b[0]=='doctest':
                            dt='\n'.join(b[1])
                            pres=[html.unescape(re.sub(r'<[^>]+>','',p)) for p in re.findall(r'<pre[^>]*>(.*?)</pre>', body_html, flags=re.S)]
                            if not any(p.strip('\n')==dt for p in pres): key=('doctest-not-exact', fmt, combo); ex.setdefault(key,(doc,pres))
                if key:
                    k2=key[:2]+((key[2] if isinstance(key[2],str) else tuple(key[2])),)+key[3:]
                    sig[k2]+=1; ex.setdefault(k2,(doc,got,exp,msgs[:200]))
print('renders',n,'distinct signatures',len(sig))
for k,v in sig.most_common(40): print(v,k)
if sig:
    k=next(iter(sig)); print('EXAMPLE',k); print(ex[k][0]); print(ex[k][1:])
