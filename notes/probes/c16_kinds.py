"""Design-phase probe for C16: problem kinds x docformat x owner: reported line vs truth, exit statuses."""
import re, sys, collections
sys.path.insert(0,'/verif/notes/probes')
from run import run
PROB = {
 'epytext': {'xref':'L{nopeX}', 'markup':'B{unclosedX', 'field':'@fooX: bar', 'param':'@param zzX: nothing'},
 'restructuredtext': {'xref':'`nopeX`', 'markup':'.. bogusX:: arg', 'field':':fooX: bar', 'param':':param zzX: nothing'},
 'google': {'xref':'`nopeX`', 'param':'Args:\n    zzX: nothing'},
 'numpy': {'xref':'`nopeX`', 'param':'Parameters\n----------\nzzX: int\n    nothing'},
}
def mk(owner, fmt, kind, first_on_open, k):
    p = PROB[fmt][kind].replace('X','1')
    plines = p.split('\n')
    if kind in ('field','param'): body = ['Intro para.', ''] + plines
    else: body = ['Intro para.', '', 'Second para'] + plines[:1] if kind=='xref' else ['Intro para.', ''] + plines + ['']
    if kind=='xref': body = ['Intro para.', '', 'Second para '+plines[0]+' end.']
    q='"""'
    def doc(ind):
        L=[]
        if first_on_open: L.append(ind+q+body[0]); rest=body[1:]
        else: L.append(ind+q); rest=body
        L+=[(ind+l if l else '') for l in rest]; L.append(ind+q); return L
    lines=['']*k
    if owner=='module': lines+=doc('')+['x = 1']
    elif owner=='class': lines+=['class K:']+doc('    ')+['    def __init__(self, a): pass']
    elif owner=='function': lines+=['def f(a):']+doc('    ')+['    pass']
    elif owner=='method': lines+=['class K:','    def m(self, a):']+doc('        ')+['        pass']
    elif owner=='attribute': lines+=['v = 1']+doc('')
    src='\n'.join(lines)+'\n'
    marker = {'xref':'nope1','markup':('unclosed1' if fmt=='epytext' else 'bogus1'),'field':'foo1','param':'zz1'}[kind]
    truth=[i for i,l in enumerate(src.split('\n'),1) if marker in l][0]
    dstart=[i for i,l in enumerate(src.split('\n'),1) if '"""' in l][0]; dend=[i for i,l in enumerate(src.split('\n'),1) if '"""' in l][-1]
    return src, truth, (dstart,dend), marker
res=collections.Counter(); ex={}
for fmt in PROB:
  for kind in PROB[fmt]:
    for owner in ['module','class','function','method','attribute']:
      if kind=='param' and owner in ('module','attribute'): continue
      for foo in (True,False):
        lines_by_k={}
        for k in (0,3):
            src,truth,(ds,de),marker=mk(owner,fmt,kind,foo,k)
            out_by_W={}
            for W in (True,False):
                rc,exc,out,err,listing=run({'pk/__init__.py':'','pk/m.py':src},['--docformat',fmt]+(['-W'] if W else []))
                out_by_W[W]=(rc,exc,out)
            rcW,excW,out=out_by_W[True]; rc0=out_by_W[False][0]
            rep=[(int(m.group(1)) if m.group(1).isdigit() else m.group(1), m.group(2)) for m in re.finditer(r'<D>/pk/m.py:(\d+|\?\?\?): (.*)', out)]
            nlines=len(rep)
            # which reported line relates to the planted problem
            rel=[r for r in rep if marker in r[1] or (kind=='markup') ]
            ok_line = bool(rel) and all(isinstance(r[0],int) and ((r[0]==truth) if fmt in('epytext','restructuredtext') else ds<=r[0]<=de) for r in rel)
            exp0 = 2 if kind=='markup' else 0
            ok_status = (rcW==3) == (nlines>0) and rc0==exp0 and not excW
            lines_by_k[k]=[r[0] for r in rel]
            key=(fmt,kind,owner,foo)
            if not ok_line: res[('line',)+key]+=1; ex[('line',)+key]=(truth,rep)
            if not ok_status: res[('status',)+key]+=1; ex[('status',)+key]=(rcW,rc0,nlines,excW and excW[-200:])
        if lines_by_k[0] and lines_by_k[3] and [x+3 for x in lines_by_k[0] if isinstance(x,int)]!=[x for x in lines_by_k[3] if isinstance(x,int)]:
            res[('shift',)+key]+=1; ex[('shift',)+key]=lines_by_k
print('distinct problems',len(res))
for k,v in res.items(): print(k, ex[k])
