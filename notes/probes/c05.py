import itertools, time
from pydoctor import mro as pmro
def ordered_subsets(n):
    items=list(range(n))
    for k in range(n+1):
        for c in itertools.permutations(items,k): yield c
def hierarchies(n):
    spaces=[list(ordered_subsets(i)) for i in range(n)]
    return itertools.product(*spaces)
t0=time.time(); cnt=0; bad=[]; incons=0
for h in hierarchies(5):
    cnt+=1
    classes=[]; ok=[True]*5
    pyc=[]
    for i,bases in enumerate(h):
        if any(pyc[b] is None for b in bases): pyc.append(None); continue
        try: pyc.append(type(f'C{i}', tuple(pyc[b] for b in bases), {}))
        except TypeError: pyc.append(None)
    getb=lambda i: [b+1 for b in h[i-1]]
    for i in range(5):
        if any(pyc[b] is None for b in h[i]):
            continue
        try: got=pmro.mro(i+1,getb); exc=None
        except ValueError as e: got=None
        # careful: node 0 is falsy! mro._merge uses `if head and ...`
        if pyc[i] is None:
            incons+=1
            if got is not None: bad.append((h,i,'py rejects, pydoctor gives',got))
        else:
            exp=[int(k.__name__[1:])+1 for k in pyc[i].__mro__[:-1]]
            if got!=exp: bad.append((h,i,exp,got))
print(cnt, 'inconsistent', incons, 'bad', len(bad), bad[:5], time.time()-t0)
