import ast, itertools, collections, time
from pydoctor.epydoc.markup._pyval_repr import colorize_inline_pyval
from pydoctor import node2stan
L=lambda s: ast.parse(s,mode='eval').body
leaves=['a','1',"'s'"]
def forms(children):
    """yield (name, source-template builder taking child sources)"""
    c=children
    F=[]
    for op in ['-','+','not ','~']: F.append((f'un{op.strip()}',1,lambda x,op=op: f'{op}({x})'))
    for op in ['+','-','*','/','//','%','**','<<','>>','|','^','&','@']: F.append((f'bin{op}',2,lambda x,y,op=op: f'({x}) {op} ({y})'))
    for op in ['and','or']: F.append((f'bool{op}',2,lambda x,y,op=op: f'({x}) {op} ({y})'))
    F.append(('bool3and',3,lambda x,y,z: f'({x}) and ({y}) and ({z})'))
    for op in ['<','==','in','is not']: F.append((f'cmp{op}',2,lambda x,y,op=op: f'({x}) {op} ({y})'))
    F.append(('cmpchain',3,lambda x,y,z: f'({x}) < ({y}) <= ({z})'))
    F.append(('ifexp',3,lambda x,y,z: f'({x}) if ({y}) else ({z})'))
    F.append(('lambda',1,lambda x: f'lambda q: ({x})'))
    F.append(('call1',2,lambda f,x: f'({f})(({x}))'))
    F.append(('callkw',2,lambda f,x: f'({f})(k=({x}))'))
    F.append(('callstar',2,lambda f,x: f'({f})(*({x}))'))
    F.append(('callss',2,lambda f,x: f'({f})(**({x}))'))
    F.append(('attr',1,lambda x: f'({x}).at'))
    F.append(('sub',2,lambda x,y: f'({x})[({y})]'))
    F.append(('slice',3,lambda x,y,z: f'({x})[({y}):({z})]'))
    F.append(('subtuple',3,lambda x,y,z: f'({x})[({y}),({z})]'))
    F.append(('list',2,lambda x,y: f'[({x}),({y})]'))
    F.append(('tuple0',0,lambda : '()'))
    F.append(('tuple1',1,lambda x: f'(({x}),)'))
    F.append(('tuple2',2,lambda x,y: f'(({x}),({y}))'))
    F.append(('set',2,lambda x,y: '{(%s),(%s)}'%(x,y)))
    F.append(('dict',2,lambda x,y: '{(%s):(%s)}'%(x,y)))
    F.append(('dictss',1,lambda x: '{**(%s)}'%x))
    F.append(('starlist',1,lambda x: f'[*({x})]'))
    F.append(('walrus',1,lambda x: f'(w := ({x}))'))
    F.append(('fstr',1,lambda x: 'f"p{(%s)}s"'%x))
    F.append(('listcomp',2,lambda x,y: f'[({x}) for i in ({y})]'))
    F.append(('genexp',2,lambda x,y: f'(({x}) for i in ({y}))'))
    F.append(('await',1,lambda x: f'await ({x})'))
    F.append(('yield',1,lambda x: f'(yield ({x}))'))
    return F
F=forms(None)
def norm(node):
    class T(ast.NodeTransformer):
        def visit_Set(s,n):
            s.generic_visit(n)
            return ast.Call(func=ast.Name(id='set',ctx=ast.Load()),args=[ast.List(elts=n.elts,ctx=ast.Load())],keywords=[])
    return ast.dump(T().visit(ast.parse(ast.unparse(node),mode='eval').body))
def check(src):
    try: e=ast.parse(src,mode='eval').body
    except SyntaxError: return 'skip'
    canon=ast.unparse(e)
    e=ast.parse(canon,mode='eval').body
    r=colorize_inline_pyval(e)
    t=''.join(node2stan.gettext(r.to_node()))
    try: back=ast.parse(t,mode='eval').body
    except SyntaxError: return ('syntax',canon,t)
    if ast.dump(back)!=norm(e): return ('diff',canon,t)
    return None
bad=collections.Counter(); ex={}; n=0; t0=time.time()
# depth 2: parent form with each child position replaced by each child form (others leaf 'a')
for pname,par,pb in F:
    for pos in range(par):
        for cname,car,cb in F:
            child=cb(*['b','c','d'][:car])
            args=['a']*par; args[pos]=child
            src=pb(*args); r=check(src); n+=1
            if r and r!='skip':
                key=(r[0],pname,pos,cname); bad[key]+=1; ex[key]=r[1:]
print('depth2 cases',n,'bad',len(bad),'t',time.time()-t0)
for k in list(bad):
    if k[3]=="tuple1" or (k[1].startswith("bin") and k[2]==1 and k[3].startswith("bin")): continue
    print(k, ex[k])
