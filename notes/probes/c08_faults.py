"""Design-phase probe for C08 fault enumeration: inject an exception at parser / renderer entry points."""
import io, contextlib, re, html, collections, importlib
from unittest import mock
from pydoctor import model, epydoc2stan, node2stan, stanutils, linker
from pydoctor.stanutils import flatten
DOCS = {
 'epytext': 'Summary L{f} B{bold}.\n\nSecond para C{code}.\n\n>>> 1+1\n2\n\n@param a: the a L{f}\n@return: r\n',
 'restructuredtext': 'Summary `f` **bold**.\n\nSecond para ``code``.\n\nTitle\n=====\n\n>>> 1+1\n2\n\n:param a: the a `f`\n:return: r\n',
 'google': 'Summary `f`.\n\nArgs:\n    a (int): the a\n\nReturns:\n    int: r\n',
 'numpy': 'Summary `f`.\n\nParameters\n----------\na : int\n    the a\n\nReturns\n-------\nint\n    r\n',
 'plaintext': 'Summary.\n\nSecond para.\n',
}
SITES = [
 'pydoctor.epydoc.markup.epytext.parse_docstring', 'pydoctor.epydoc.markup.epytext.parse', 'pydoctor.epydoc.markup.epytext._colorize',
 'pydoctor.epydoc.markup.restructuredtext.parse_docstring', 'pydoctor.epydoc.markup.restructuredtext.publish_string',
 'pydoctor.napoleon.docstring.GoogleDocstring.__init__', 'pydoctor.napoleon.docstring.NumpyDocstring.__init__', 'pydoctor.napoleon.docstring.GoogleDocstring.__str__',
 'pydoctor.epydoc.markup.plaintext.ParsedPlaintextDocstring.to_node',
 'pydoctor.epydoc.markup.epytext.ParsedEpytextDocstring.to_node', 'pydoctor.epydoc.markup.restructuredtext.ParsedRstDocstring.to_node',
 'pydoctor.epydoc.markup.ParsedDocstring.to_stan', 'pydoctor.node2stan.node2stan', 'pydoctor.node2stan.node2html', 'pydoctor.node2stan.html2stan',
 'pydoctor.node2stan.HTMLTranslator.visit_title_reference', 'pydoctor.node2stan.HTMLTranslator.visit_doctest_block', 'pydoctor.node2stan.HTMLTranslator.starttag',
 'pydoctor.linker._EpydocLinker.link_xref', 'pydoctor.linker._EpydocLinker.link_to', 'pydoctor.linker._EpydocLinker._resolve_identifier_xref',
 'pydoctor.epydoc.markup.SummaryExtractor.visit_paragraph', 'pydoctor.epydoc.markup.build_table_of_content',
 'pydoctor.epydoc.markup._types.ParsedTypeDocstring.to_stan', 'pydoctor.epydoc.markup._types.ParsedTypeDocstring.__init__',
 'pydoctor.epydoc.doctest.colorize_doctest',
]
EXC = [RuntimeError('injected'), AssertionError('injected'), RecursionError('injected'), KeyError('injected')]
def resolve(path):
    parts=path.split('.')
    for i in range(len(parts),0,-1):
        try: mod=importlib.import_module('.'.join(parts[:i])); break
        except ImportError: continue
    obj=mod; 
    for p in parts[i:-1]: obj=getattr(obj,p)
    return obj, parts[-1]
def mk(fmt, pt):
    s = model.System(); s.options.verbosity=0; s.options.docformat=fmt; s.options.processtypes=pt
    b = s.systemBuilder(s); b.addModuleString('def f(a):\n    pass\ndef g():\n    "good L{f}"\n', 'm'); b.buildModules()
    return s
sig=collections.Counter(); ex={}; n=0; hit=collections.Counter()
for fmt,doc in DOCS.items():
  for pt in (False,True):
    for site in SITES:
        owner,attr=resolve(site)
        for e in EXC:
            s=mk(fmt,pt); f=s.allobjects['m.f']; f.docstring=doc
            called=[]
            def boom(*a, **k): called.append(1); raise e
            out=io.StringIO(); n+=1
            try:
                with mock.patch.object(owner, attr, boom), contextlib.redirect_stdout(out):
                    hb=flatten(epydoc2stan.format_docstring(f)); hs=flatten(epydoc2stan.format_summary(f)); t=epydoc2stan.format_toc(f)
                    if t is not None: flatten(t)
            except BaseException as err:
                if called: k=('escaped',site.split('.')[-2]+'.'+site.split('.')[-1], type(err).__name__); sig[k]+=1; ex.setdefault(k,(fmt,pt))
                continue
            if not called: continue
            hit[site]+=1
            text=html.unescape(re.sub(r'<[^>]+>','',hb))
            reported = 'm.f' in s.parse_errors.get('docstring',set()) or any(s.parse_errors.values())
            msgs=out.getvalue()
            if not reported and 'm:' not in msgs: k=('not-reported',site.split('.')[-1]); sig[k]+=1; ex.setdefault(k,(fmt,pt,type(e).__name__))
print('injections',n,'sites reached',len(hit),'of',len(SITES))
for k,v in sig.most_common(): print(v,k,ex[k])
print('never reached:',[s for s in SITES if s not in hit and not any(k[1].endswith(s.split('.')[-1]) for k in sig)])
