"""Design-phase probe for C11: feature pairs on a fixed skeleton, full run + crawl, dead-link signatures."""
import sys, os, re, shutil, itertools, collections, io, contextlib, tempfile
from pathlib import Path
from html.parser import HTMLParser
from urllib.parse import unquote, urldefrag
from pydoctor import driver
from pydoctor.options import Options
from pydoctor.templatewriter.pages.table import ChildTable
from pydoctor.templatewriter.pages.sidebar import ExpandableItem

class Pg(HTMLParser):
    VOID={'meta','link','br','input','img','hr','wbr'}
    def __init__(s): super().__init__(convert_charrefs=True); s.links=[]; s.anchors=set()
    def handle_starttag(s, tag, attrs):
        a=dict(attrs)
        for k in ('href','src'):
            if a.get(k) is not None: s.links.append((tag,a.get('class') or '',k,a[k]))
        for k in ('id','name'):
            if a.get(k) is not None and tag!='meta': s.anchors.add(a[k])

BASE = {
 'pk/__init__.py': '"""Package."""\n',
 'pk/a.py': '"""Mod a."""\nclass A:\n    """A doc."""\n    def meth(self):\n        """meth doc."""\n    X = 1\n',
 'pk/b.py': '"""Mod b."""\nfrom .a import A\n',
 'pk/sub/__init__.py': '"""Sub."""\n',
 'pk/sub/deep.py': '"""Deep."""\n',
}
F = {
 'subclass':      {'pk/b.py': 'class B(A):\n    """B doc."""\n    def meth(self): pass\n    X = 2\n'},
 'subsub':        {'pk/sub/deep.py': 'from ..a import A\nclass D(A):\n    def other(self): "other L{A.meth}"\n'},
 'inh-xref':      {'pk/a.py': 'class A2(A):\n    def meth(self): pass\n', 'pk/b.py': 'class B2(A):\n    def meth(self): pass\n'},
 'summary-xref':  {'pk/a.py': 'def fs():\n    """Summary L{A.meth} and L{pk.b}. More."""\n'},
 'xrefs':         {'pk/b.py': 'def fx():\n    """L{A} L{A.meth} L{A.X} L{pk.a} L{pk} L{pk.sub.deep} L{fx}"""\n'},
 'annot':         {'pk/b.py': 'def fa(x: A, y: "A" = A.X) -> "A": pass\nV: A = A()\n'},
 'const':         {'pk/b.py': 'from typing import Final\nCONST: Final = [A, A.meth, A.X]\n'},
 'ctor':          {'pk/a.py': 'class K:\n    def __init__(self, a: int): pass\n    @classmethod\n    def make(cls) -> "K": pass\n'},
 'nested':        {'pk/a.py': 'class O:\n    class M:\n        class I:\n            def deep(self): "L{O.M}"\n'},
 'reexport':      {'pk/__init__.py': 'from .a import A\n__all__=["A"]\n'},
 'dup':           {'pk/a.py': 'def A(): "dup"\n'},
 'private':       {'pk/a.py': 'class _P(A):\n    def _pm(self): pass\n'},
 'hidden-base':   {'pk/a.py': 'class H(A):\n    def meth(self): pass\n', 'pk/b.py': 'from .a import H\nclass HB(H):\n    def meth(self): "L{H}"\n', '__args__': ['--privacy','HIDDEN:pk.a.H']},
 'zope':          {'pk/a.py': 'from zope.interface import Interface, implementer\nclass IF(Interface):\n    def im(): "im doc"\n@implementer(IF)\nclass Z:\n    def im(self): pass\n'},
 'property':      {'pk/a.py': 'class Pr:\n    @property\n    def p(self) -> A: "p"\n    @p.setter\n    def p(self, v): pass\n'},
 'overload':      {'pk/b.py': 'from typing import overload\n@overload\ndef ov(x: int) -> A: ...\n@overload\ndef ov(x: str) -> A: ...\ndef ov(x): pass\n'},
 'sections':      {'pk/a.py': 'def fsec():\n    """\n    Intro.\n\n    Title\n    =====\n\n    Text.\n    """\n'},
 'deprecated':    {'pk/b.py': 'from twisted.python.deprecate import deprecated\nfrom incremental import Version\n@deprecated(Version("pk",1,2,3), replacement="pk.a.A")\ndef old(): pass\n'},
 'ivar':          {'pk/a.py': 'class Iv:\n    """\n    @ivar q: doc L{A}\n    @type q: L{A}\n    """\n'},
}
CONFIGS = [[], ['--sidebar-expand-depth','3'], ['--theme','readthedocs']]
def project(feats):
    files=dict(BASE); args=[]
    for f in feats:
        for k,v in F[f].items():
            if k=='__args__': args+=v
            else: files[k]=files[k]+v
    return files,args
def run(files,args):
    d=tempfile.mkdtemp(dir='/dev/shm'); old=os.getcwd()
    for rel,c in files.items():
        p=Path(d)/'src'/rel; p.parent.mkdir(parents=True,exist_ok=True); p.write_text(c)
    os.makedirs(d+'/cwd'); os.chdir(d+'/cwd')
    ChildTable.last_id=0; ExpandableItem.last_ExpandableItem_id=0
    buf=io.StringIO()
    try:
        with contextlib.redirect_stdout(buf), contextlib.redirect_stderr(buf):
            o=Options.from_args(['--html-output',d+'/out','--project-base-dir',d+'/src',*args,d+'/src/pk'])
            s=driver.get_system(o); driver.make(s)
    finally: os.chdir(old)
    return d,s
def crawl(out, system):
    pages={}
    for f in os.listdir(out):
        if f.endswith('.html'):
            p=Pg(); p.feed(open(os.path.join(out,f),encoding='utf-8').read()); pages[f]=p
    byurl={}
    for k,o in system.allobjects.items():
        try: byurl[unquote(o.url)]=o
        except Exception: pass
    sigs=[]
    for f,p in pages.items():
        for tag,cls,k,u in p.links:
            if re.match(r'^[a-zA-Z][a-zA-Z0-9+.-]*:',u) or u.startswith('//'): continue
            path,frag=urldefrag(u); path=unquote(path); frag=unquote(frag)
            tf=f if path=='' else path
            full=tf+('#'+frag if frag else '')
            clause=None
            if not os.path.exists(os.path.join(out,tf)): clause='dead-file'
            elif frag and tf.endswith('.html') and frag not in pages[tf].anchors: clause='dead-anchor'
            if clause:
                o=byurl.get(full)
                cat='no-object' if o is None else ('hidden-target' if not o.isVisible else ('superseded-duplicate' if re.search(r' \d+(\.|$)', o.fullName()) else 'visible'))
                srcpage='summary' if f in ('nameIndex.html','classIndex.html','moduleIndex.html','undoccedSummary.html','all-documents.html') else 'object-page'
                sigs.append((clause, f'{tag}.{cls}', cat, srcpage, u if cat in('no-object','visible') else ''))
    # model -> pages
    for k,o in system.allobjects.items():
        if not o.isVisible or re.search(r' \d+(\.|$)', k): continue
        u=unquote(o.url); path,frag=urldefrag(u)
        if not os.path.exists(os.path.join(out,path)): sigs.append(('visible-object-without-page','', type(o).__name__,'',''))
        elif frag and frag not in pages[path].anchors: sigs.append(('visible-object-without-anchor','',type(o).__name__,'',''))
    return sigs
allsig=collections.Counter(); ex={}; runs=0
names=list(F)
cases=[(a,) for a in names]+list(itertools.combinations(names,2))
for feats in cases:
    files,args=project(feats)
    for cfg in (CONFIGS if len(feats)==1 else CONFIGS[:1]):
        try:
            d,s=run(files,args+cfg)
        except BaseException as e:
            k=('CRASH',type(e).__name__,str(e)[:80]); allsig[k]+=1; ex.setdefault(k,(feats,cfg)); continue
        runs+=1
        for sg in set(crawl(d+'/out',s)):
            allsig[sg]+=1; ex.setdefault(sg,(feats,cfg))
        shutil.rmtree(d)
print('runs',runs)
for k,v in allsig.most_common(): print(v,k,ex[k])
