import itertools
from pydoctor import model, epydoc2stan
from pydoctor.stanutils import flatten
def build(mods, order=None):
    s = model.System()
    s.options.verbosity = -10
    b = s.systemBuilder(s)
    for name, text, parent, ispkg in mods:
        b.addModuleString(text, name, parent, is_package=ispkg)
    if order:
        s.unprocessed_modules.sort(key=lambda m: order.index(m.fullName()))
    b.buildModules()
    return s
p = [('p','from ._impl import O\n__all__=["O"]\n',None,True),
     ('_impl','class O:\n  "doc"\n  def m(self): pass\n','p',False),
     ('c1','from p._impl import O\nclass D(O):\n  """L{O} L{p._impl.O} L{p.O} L{O.m}"""\ndef f(x: O) -> O: pass\n','p',False),
     ('c2','from p import O\nclass E(O):\n  """L{O} L{p._impl.O} L{p.O}"""\ndef g(x: O) -> O: pass\n','p',False),
     ('c3','import p._impl\nimport p\nclass F(p._impl.O):\n  """L{p._impl.O} L{p.O}"""\nclass G(p.O): pass\n','p',False)]
names=['p','p._impl','p.c1','p.c2','p.c3']
seen=set()
for order in itertools.permutations(names):
    if order[0]!='p': continue
    s=build(p,list(order))
    out=[]
    for cn in ['p.c1','p.c2','p.c3']:
        c=s.allobjects[cn]
        out.append((cn, 'O' , str(c.resolveName('O')), str(c.resolveName('p._impl.O')), str(c.resolveName('p.O'))))
    for k in ['p.c1.D','p.c2.E','p.c3.F','p.c3.G']:
        o=s.allobjects[k]
        out.append((k,[str(b) for b in o.baseobjects], o.bases, flatten(epydoc2stan.format_docstring(o))))
    for k in ['p.c1.f','p.c2.g']:
        from pydoctor.templatewriter.pages import format_signature
        out.append((k, flatten(format_signature(s.allobjects[k]))))
    key=repr(out)
    if key not in seen:
        seen.add(key); print(order); [print('   ',x) for x in out]
print(len(seen))
