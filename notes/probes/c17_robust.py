"""Design-phase probe for C17 robustness: truncations, byte substitutions, header edits, column-grammar lines."""
import zlib, itertools, collections, traceback
from pydoctor.sphinx import SphinxInventory
HEADER = b'# Sphinx inventory version 2\n# Project: x\n# Version: 1\n# The remainder of this file is compressed with zlib.\n'
CTRL1 = 'ctrl.one py:class -1 ctrl.one.html -\n'; CTRL2 = 'ctrl.two py:function 1 ctrl.html#two Display name\n'
BASE_LINES = [CTRL1, 'some.mod py:module 0 some.mod.html -\n', 'a label std:label -1 page.html#a-label A Label\n', 'm.f py:method 1 m.html#$ -\n', CTRL2]
def load(data, url='http://h/objects.inv'):
    msgs=[]
    inv=SphinxInventory(logger=lambda *a,**k: msgs.append((a,k)))
    class C:
        def get(self,u): return data
        def close(self): pass
    try: inv.update(C(), url); return inv, msgs, None
    except BaseException as e:
        tb=traceback.extract_tb(e.__traceback__); site=[f for f in tb if '/pydoctor/' in f.filename]
        return inv, msgs, (type(e).__name__, site[-1].name if site else '?')
sig=collections.Counter(); ex={}; n=0
def note(kind, case, err):
    sig[(kind,)+err]+=1; ex.setdefault((kind,)+err, case)
good = HEADER + zlib.compress(''.join(BASE_LINES).encode())
inv,msgs,err = load(good); assert err is None and inv.getLink('ctrl.one')=='http://h/ctrl.one.html' and inv.getLink('m.f')=='http://h/m.html#m.f', (err, inv._links)
# truncations
for i in range(len(good)+1):
    n+=1; inv,msgs,err=load(good[:i])
    if err: note('truncate', i, err)
# single byte substitutions in header and in payload (before compression)
for sub in (b'\x00', b'\n', b'#', b' ', b'\xff', b'x'):
    for i in range(len(HEADER)):
        n+=1; data=HEADER[:i]+sub+HEADER[i+1:]+zlib.compress(''.join(BASE_LINES).encode()); inv,msgs,err=load(data)
        if err: note('subst-header', (i,sub), err)
    pl=''.join(BASE_LINES).encode()
    for i in range(len(pl)):
        n+=1; data=HEADER+zlib.compress(pl[:i]+sub+pl[i+1:]); inv,msgs,err=load(data)
        if err: note('subst-payload', (i,sub), err)
        else:
            # control lines not touched must still resolve
            if i>=len(CTRL1) and inv.getLink('ctrl.one')!='http://h/ctrl.one.html': note('ctrl-lost', (i,sub), ('ctrl.one',''))
# bodies
for name,body in {'raw':''.join(BASE_LINES).encode(), 'garbage':zlib.compress(b'\xff\xfe\x00'), 'empty':b'', 'trailing':zlib.compress(''.join(BASE_LINES).encode())+b'junk', 'gzip':__import__('gzip').compress(b'x y 1 z -\n')}.items():
    n+=1; inv,msgs,err=load(HEADER+body)
    if err: note('body-'+name, name, err)
for url in ('objects.inv','http://h/objects.inv',''):
    n+=1; inv,msgs,err=load(good,url)
    if err: note('url', url, err)
# column grammar
COLS=['name','py:class','std:label','-1','1','-','']
for L in range(0,7):
    for cols in itertools.product(COLS, repeat=L):
        line=' '.join(cols)+'\n'
        n+=1; data=HEADER+zlib.compress((CTRL1+line+CTRL2).encode()); inv,msgs,err=load(data)
        if err: note('line', cols, err)
        else:
            if inv.getLink('ctrl.one')!='http://h/ctrl.one.html' or inv.getLink('ctrl.two')!='http://h/ctrl.html#two': note('ctrl-lost-line', cols, ('',''))
print('cases',n)
for k,v in sig.most_common(): print(v,k,ex[k])
