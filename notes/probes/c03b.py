import sys, types, inspect, itertools, textwrap, collections
from pydoctor import model
DOCS = {'none':None, 'one':'"""One line."""', 'multi':'"""First line.\n{I}    indented more\n{I}back\n{I}"""', 'below':'"""\n{I}Below quotes.\n\n{I}  keep\n{I}"""', 'lead':'"""\n\n{I}Lead blank.\n{I}"""', 'raw': 'r"""Raw \\n text."""', 'tabs':'"""Tab\tin\n{I}\tline\n{I}"""', 'empty':'""""""', 'spaces':'"""   """'}
def defs(ind, doc):
    d = (ind+'    '+doc.replace('{I}',ind+'    ')+'\n') if doc else ''
    body = d or ''
    P=ind+'    pass\n'
    return {
     'def': f'{ind}def X(a):\n{body}{P}',
     'adef': f'{ind}async def X(a):\n{body}{P}',
     'class': f'{ind}class X:\n{body}{P}',
     'exc': f'{ind}class X(Exception):\n{body}{P}',
     'exc2': f'{ind}class Y0(KeyError):\n{P}{ind}class X(Y0):\n{body}{P}',
     'static': f'{ind}@staticmethod\n{ind}def X(a):\n{body}{P}',
     'clsm': f'{ind}@classmethod\n{ind}def X(cls):\n{body}{P}',
     'prop': f'{ind}@property\n{ind}def X(self):\n{body}{P}',
     'oldstatic': f'{ind}def X(a):\n{body}{P}{ind}X = staticmethod(X)\n',
     'oldclsm': f'{ind}def X(cls):\n{body}{P}{ind}X = classmethod(X)\n',
     'var_int': f'{ind}X = 1\n' + (ind+doc.replace('{I}',ind)+'\n' if doc else ''),
     'var_list': f'{ind}X = [1, 2]\n',
     'var_ann': f'{ind}X: int = 1\n',
     'redef': f'{ind}def X(a):\n{P}{ind}def X(a, b):\n{body}{P}',
     'redef_kind': f'{ind}class X:\n{P}{ind}def X(a, b):\n{body}{P}',
     'nested': f'{ind}class X:\n{body}{ind}    class In:\n{ind}        def m(self): pass\n',
    }
PLACE = {
 'module': ('', ''), 
 'class': ('class K:\n', '    '),
 'nestedclass': ('class K:\n    class N:\n', '        '),
 'if': ('if True:\n', '    '),
 'try': ('try:\n', '    ', 'except Exception:\n    pass\n'),
 'with': ('import contextlib\nwith contextlib.nullcontext():\n', '    '),
 'for': ('for _i in (1,):\n', '    '),
 'class-if': ('class K:\n    if True:\n', '        '),
 'class-try': ('class K:\n    try:\n', '        ', '    finally:\n        pass\n'),
 'func': ('def outer():\n', '    '),
 'main': ('if __name__ == "__main__":\n', '    '),
}
def pykind(ns, name):
    if name not in vars(ns): return None
    raw = vars(ns)[name]
    if isinstance(raw, staticmethod): return 'STATIC_METHOD', raw.__func__.__doc__, inspect.iscoroutinefunction(raw.__func__)
    if isinstance(raw, classmethod): return 'CLASS_METHOD', raw.__func__.__doc__, False
    if isinstance(raw, property): return 'PROPERTY', raw.__doc__, False
    if isinstance(raw, types.FunctionType): return ('METHOD' if isinstance(ns,type) else 'FUNCTION'), raw.__doc__, inspect.iscoroutinefunction(raw)
    if isinstance(raw, type): return ('EXCEPTION' if issubclass(raw, BaseException) else 'CLASS'), raw.__doc__, False
    return 'ATTR', None, False
bad=collections.Counter(); ex={}; n=0
for pl,(spec) in PLACE.items():
    head, ind = spec[0], spec[1]; tail = spec[2] if len(spec)>2 else ''
    for dn, doc in DOCS.items():
        for kn, src in defs(ind, doc).items():
            if kn in ('static','clsm','prop','oldstatic','oldclsm') and not pl.startswith(('class','nestedclass')): continue
            if dn!='none' and kn in ('var_list','var_ann'): continue
            full = head + src + tail
            try: compile(full,'m','exec')
            except SyntaxError as e: continue
            n+=1
            pm = types.ModuleType('mm'); 
            try: exec(compile(full,'mm','exec'), pm.__dict__)
            except Exception as e: print('pyexec fail', pl, kn, e); continue
            s = model.System(); s.options.verbosity=-10
            b = s.systemBuilder(s); b.addModuleString(full, 'mm'); b.buildModules()
            m = s.allobjects['mm']
            # locate namespace
            pns, dns = pm, m
            if pl in ('class','class-if','class-try'): pns, dns = pm.K, m.contents['K']
            if pl=='nestedclass': pns, dns = pm.K.N, m.contents['K'].contents['N']
            pk = pykind(pns, 'X') if pl not in ('func','main') else None
            dobj = dns.contents.get('X')
            if pk is None:
                if dobj is not None: key=('invented',pl,kn); bad[key]+=1; ex[key]=full
                continue
            if dobj is None: key=('missing',pl,kn); bad[key]+=1; ex[key]=full; continue
            kind, pdoc, isasync = pk
            dk = dobj.kind.name
            if kind=='ATTR':
                ok = isinstance(dobj, model.Attribute)
            else:
                ok = dk==kind and (not isinstance(dobj, model.Function) or dobj.is_async==isasync)
            if not ok: key=('kind',pl,kn,kind,dk); bad[key]+=1; ex[key]=full
            if kind!='ATTR':
                exp = inspect.cleandoc(pdoc) if pdoc is not None else None
                if dobj.docstring != exp: key=('doc',pl,kn,dn); bad[key]+=1; ex[key]=(full, exp, dobj.docstring)
            elif dn!='none' and kn=='var_int':
                lit = eval(doc.replace('{I}',ind))
                if dobj.docstring != inspect.cleandoc(lit): key=('attrdoc',pl,dn); bad[key]+=1; ex[key]=(full, dobj.docstring)
print('cases', n, 'distinct bad', len(bad))
for k,v in bad.items(): print(v, k)
