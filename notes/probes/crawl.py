import io, contextlib, tempfile, os, sys, shutil, re
from pathlib import Path
from html.parser import HTMLParser
from urllib.parse import unquote, urldefrag
from pydoctor import driver
from pydoctor.options import Options

class P(HTMLParser):
    def __init__(s):
        super().__init__(convert_charrefs=True); s.links=[]; s.anchors=set()
    def handle_starttag(s, tag, attrs):
        a=dict(attrs)
        for k in ('href','src'):
            if k in a and a[k] is not None: s.links.append((tag,k,a[k]))
        for k in ('id','name'):
            if k in a and a[k] is not None and tag!='meta': s.anchors.add(a[k])

def crawl(out):
    pages={}
    for f in os.listdir(out):
        if f.endswith('.html'):
            p=P(); p.feed(open(os.path.join(out,f),encoding='utf-8').read()); pages[f]=p
    dead=[]
    for f,p in pages.items():
        for tag,k,u in p.links:
            if re.match(r'^[a-zA-Z][a-zA-Z0-9+.-]*:',u) or u.startswith('//'): continue
            path,frag=urldefrag(u)
            path=unquote(path); frag=unquote(frag)
            tf = f if path=='' else path
            if not os.path.exists(os.path.join(out,tf)): dead.append((f,u,'nofile')); continue
            if frag and tf.endswith('.html'):
                if frag not in pages[tf].anchors: dead.append((f,u,'noanchor'))
    return dead, pages

def run(files, args=(), roots=('pk',)):
    d = tempfile.mkdtemp(prefix='pdprobe')
    for rel, content in files.items():
        p = Path(d)/rel; p.parent.mkdir(parents=True, exist_ok=True); p.write_text(content)
    out = io.StringIO()
    with contextlib.redirect_stdout(out), contextlib.redirect_stderr(out):
        opts = Options.from_args(['--html-output', d+'/out', '--project-base-dir', d, *args, *[str(Path(d)/r) for r in roots]])
        system = driver.get_system(opts)
        driver.make(system)
    return d, system, out.getvalue()

if __name__=='__main__':
    files = {
     'pk/__init__.py': '"""Package doc L{pk.a.A} L{B}."""\nfrom ._impl import R\n__all__=["R"]\n',
     'pk/_impl.py': 'class R:\n  """R doc L{R.m}"""\n  def m(self):\n    """m doc L{R}"""\n',
     'pk/a.py': '''
"""Module a. L{A.meth}"""
from pk._impl import R
class A:
    """Class A. L{meth} L{b.B}

    @ivar iv: ivar doc L{A}
    """
    X = 1
    def __init__(self, a: 'A', b: int = 3): self.iv = 1
    def meth(self) -> 'A':
        """meth doc L{A.X}. Second sentence."""
    @classmethod
    def make(cls) -> 'A':
        "maker"
    class Inner:
        "inner L{A}"
        def im(self): "im doc L{Inner}"
def A(): "dup of A"
class _P(R): pass
''',
     'pk/b.py': '''
from .a import A
from . import a
class B(a.A):
    """B doc"""
    def meth(self):
        pass
    X = 2
class C(B):
    def meth(self): "C.meth L{B.meth}"
class H(B):
    "hidden"
    def meth(self): pass
CONST = [A, B, a.A.Inner]
''',
    }
    for args in [[], ['--privacy','HIDDEN:pk.b.H'], ['--privacy','HIDDEN:pk.b.B'], ['--privacy','HIDDEN:pk.a.A.meth'], ['--privacy','HIDDEN:pk.a'], ['--privacy','PRIVATE:pk.b.B', '--theme','readthedocs'], ['--sidebar-expand-depth','3']]:
        d, system, log = run(files, args)
        dead, pages = crawl(d+'/out')
        print(args, 'dead:', sorted(set(dead))[:12])
        shutil.rmtree(d)
