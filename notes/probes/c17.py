import sys, shutil, os
sys.path.insert(0,'/tmp/probe')
from crawl import run
from pydoctor.sphinx import SphinxInventory
from sphinx.util.inventory import InventoryFile
files = {'pk/__init__.py':'class A:\n  def m(self): pass\n  v = 1\n  class In: pass\ndef f(): pass\nX = 1\nclass _P: pass\nclass H: pass\ndef f(): "dup"\n', 'pk/m.py':'y=2\n'}
d, system, log = run(files, ['--privacy','HIDDEN:pk.H'])
data=open(d+'/out/objects.inv','rb').read()
class C:
    def get(self,u): return data
    def close(self): pass
msgs=[]
inv=SphinxInventory(logger=lambda *a,**k: msgs.append(a)); inv.update(C(),'http://base/objects.inv')
vis=sorted(k for k,o in system.allobjects.items() if o.isVisible)
print('pydoctor reader names', sorted(inv._links)); print('visible', vis)
print({k: inv.getLink(k) for k in list(inv._links)[:4]}, {k: system.allobjects[k].url for k in list(inv._links)[:4]})
sx=InventoryFile.loads(data, uri='http://base/')
names={}
for typ,items in sx.data.items() if hasattr(sx,'data') else sx.items():
    for name,item in items.items(): names[name]=(typ, getattr(item,'uri',item))
print('sphinx', {k:v for k,v in list(names.items())[:12]})
print(msgs)
shutil.rmtree(d)
