"""Design-phase probe for C20: every option action x value alphabet x 3 file formats vs CLI."""
import os, tempfile, warnings, io, contextlib, collections, argparse, shutil, toml
import attr
from pydoctor.options import Options, get_parser
parser = get_parser()
def values(a):
    if isinstance(a, argparse._StoreTrueAction) or isinstance(a, argparse._StoreFalseAction): return [True]
    if isinstance(a, argparse._CountAction): return [1, 3]
    if a.choices: return list(a.choices)+['nope']
    if a.type is int: return ['0','1','7','-1','x']
    base=['simple','with space','a=b','a:b','x#y','x;y',"it's",'say "hi"','ünï','[x]','a,b','100%','  lead','trail  ','']
    if isinstance(a, argparse._AppendAction): return [[], ['one'], ['one','two'], ['a,b','[c]'], ['x y', "q'"]]
    return base
SPECIAL = {'privacy': [[], ['HIDDEN:a.*'], ['PUBLIC:a','private:b.**','HIDDEN:c']], 'systemclass':['pydoctor.model.System','nope','pydoctor.nope.X'], 'htmlwriter':['pydoctor.templatewriter.TemplateWriter','x.y'],
           'intersphinx_cache_max_age':['1d','2w','x'], 'buildtime':['2020-01-01 00:00:00','bad'], 'projectbasedirectory':['.','sub/dir'], 'templatedir':[[],['t1'],['t1','t2']], 'packages':[[],['p1'],['p1','p2']]}
def cli_args(a, v):
    opt=a.option_strings[-1] if a.option_strings[-1].startswith('--') else a.option_strings[0]
    if isinstance(a,(argparse._StoreTrueAction,argparse._StoreFalseAction)): return [opt]
    if isinstance(a,argparse._CountAction): return [opt]*v
    if isinstance(a,argparse._AppendAction): return [x for item in v for x in (opt+'='+item,)]
    return [opt+'='+v]
def key(a): return [k for k in parser.get_possible_config_keys(a) if not k.startswith('--')][0]
def toml_text(a,v):
    k=key(a)
    if isinstance(a,(argparse._StoreTrueAction,argparse._StoreFalseAction)): val=True
    elif isinstance(a,argparse._CountAction): val=v
    else: val=v
    return '[tool.pydoctor]\n'+toml.dumps({k:val})
def ini_text(a,v,section):
    k=key(a)
    if isinstance(a,(argparse._StoreTrueAction,argparse._StoreFalseAction)): val='true'
    elif isinstance(a,argparse._CountAction): val=str(v)
    elif isinstance(v,list): val=repr(v)
    else: val=repr(v).replace('%','%%') if (v!=v.strip() or v=='' or '\n' in v or v[:1] in '["\'' ) else v.replace('%','%%')
    return f'[{section}]\n{k} = {val}\n'
def load(fname, text, argv):
    d=tempfile.mkdtemp(dir='/dev/shm'); old=os.getcwd(); os.chdir(d)
    try:
        if fname: open(fname,'w',encoding='utf-8').write(text)
        err=io.StringIO()
        with warnings.catch_warnings(record=True) as w:
            warnings.simplefilter('always')
            try:
                with contextlib.redirect_stderr(err), contextlib.redirect_stdout(err):
                    o=Options.from_args(list(argv))
            except SystemExit as e: return ('EXIT',e.code), [str(x.message) for x in w]
            except BaseException as e: return ('EXC',type(e).__name__,str(e)[:80]), [str(x.message) for x in w]
        dct=attr.asdict(o)
        for k in ('projectbasedirectory','sourcepath','templatedir'):  # cwd-relative paths: relativise
            def rel(p): 
                try: return os.path.relpath(str(p), d)
                except Exception: return str(p)
            if isinstance(dct[k],list): dct[k]=[rel(x) for x in dct[k]]
            elif dct[k] is not None: dct[k]=rel(dct[k])
        return dct, [str(x.message) for x in w]
    finally: os.chdir(old); shutil.rmtree(d,ignore_errors=True)
sig=collections.Counter(); ex={}; n=0
for a in parser._actions:
    if not a.option_strings or a.dest in ('help','version','config'): continue
    for v in SPECIAL.get(a.dest, values(a)):
        if isinstance(a,argparse._AppendAction) and v==[]: continue
        cli,_=load(None,'',cli_args(a,v))
        for fmt,(fname,text) in {'toml':('pyproject.toml',toml_text(a,v)), 'setupcfg':('setup.cfg',ini_text(a,v,'tool:pydoctor')), 'ini':('pydoctor.ini',ini_text(a,v,'pydoctor'))}.items():
            n+=1
            got,warns=load(fname,text,[])
            if got!=cli:
                if isinstance(got,dict) and isinstance(cli,dict): d={k:(cli[k],got[k]) for k in cli if cli[k]!=got[k]}
                else: d=(cli if not isinstance(cli,dict) else 'OK-dict', got if not isinstance(got,dict) else 'OK-dict')
                k=(a.dest,fmt,type(v).__name__); sig[k]+=1; ex.setdefault(k,(v,text,d))
print('comparisons',n,'deviating (option,format) classes',len(sig))
for k,v in sig.most_common(60): print(v,k,str(ex[k])[:230])
