"""Design-phase probe: all histories <=3 over a draft C02 event alphabet, both schedules, invariants I1-I7."""
import itertools, collections, sys
from pydoctor import model
EVENTS = {
 'defC':   ('a', 'class X:\n    def m(self): pass\n'),
 'redefC': ('a', 'class X:\n    def n(self): pass\n'),
 'redefF': ('a', 'def X(): pass\n'),
 'var':    ('a', 'X = 1\n'),
 'nest':   ('a', 'class X:\n    class I:\n        def k(self): pass\n'),
 'field':  ('a', 'class X:\n    """\n    @ivar v: doc\n    """\n    v = 1\n'),
 'move':   ('p', 'from .a import X\n__all__ = ["X"]\n'),
 'moveAs': ('p', 'from .a import X as Y\n__all__ = ["Y"]\n'),
 'star':   ('p', 'from .a import *\n__all__ = ["X"]\n'),
 'local':  ('p', 'class X:\n    def k(self): pass\n'),
 'subA':   ('b', 'from .a import X\nclass S(X): pass\n'),
 'subP':   ('b', 'from p import X\nclass T(X): pass\n'),
 'cycle':  ('a', 'from .b import S\nclass Z(S): pass\n'),
 'zope':   ('b', 'from zope.interface import Interface, implementer\nclass IX(Interface): pass\n@implementer(IX)\nclass W: pass\n'),
}
def program(hist):
    src = {'p':'', 'a':'', 'b':''}
    for e in hist:
        m, s = EVENTS[e]; src[m] += s
    return src
def build(src, order):
    s = model.System(); s.options.verbosity = -10
    b = s.systemBuilder(s)
    b.addModuleString(src['p'], 'p', None, is_package=True)
    for m in order: b.addModuleString(src[m], m, 'p')
    b.buildModules(); return s
def invariants(s):
    bad = []
    for k, o in s.allobjects.items():
        if o.fullName() != k: bad.append('I1-key')
        par = o.parent
        if par is None:
            if o not in s.rootobjects: bad.append('I3-rootless')
        else:
            if s.allobjects.get(par.fullName()) is not par: bad.append('I3-parent-unregistered')
            if par.contents.get(o.name) is not o:
                import re
                if not re.search(r' \d+$', o.name): bad.append('I4-not-entry-not-superseded')
        if isinstance(o, model.Function):
            if o.contents: bad.append('I5-func-children')
            if isinstance(par, model.Class) and o.kind not in (model.DocumentableKind.METHOD, model.DocumentableKind.CLASS_METHOD, model.DocumentableKind.STATIC_METHOD): bad.append('I5-kind')
            if isinstance(par, model.Module) and o.kind is not model.DocumentableKind.FUNCTION: bad.append('I5-kind')
        if isinstance(o, model.Class):
            mro = o.mro(True)
            if not mro or mro[0] is not o: bad.append('I6-mro-head')
            names = [x if isinstance(x,str) else id(x) for x in mro]
            if len(names) != len(set(names)): bad.append('I6-mro-dup')
            for b in o.baseobjects:
                if b is not None and b not in o.mro(): bad.append('I6-base-missing')
                if b is not None and b.subclasses.count(o) != 1: bad.append('I7-subclasses')
            for sc in o.subclasses:
                if o not in sc.baseobjects: bad.append('I7-inverse')
    def walk(o):
        if s.allobjects.get(o.fullName()) is not o: bad.append('I2-reachable-unregistered')
        for c in o.contents.values():
            if c.parent is not o: bad.append('I2-parent-mismatch')
            walk(c)
    for r in s.rootobjects: walk(r)
    urls = collections.Counter(o.url for o in s.allobjects.values() if isinstance(o,(model.Module,model.Class)))
    if any(v>1 for v in urls.values()): bad.append('I9-url-clash')
    return sorted(set(bad))
sig = collections.Counter(); ex = {}; n = 0; crashes = collections.Counter()
names = list(EVENTS)
maxlen = int(sys.argv[1]) if len(sys.argv)>1 else 3
for L in range(1, maxlen+1):
    for hist in itertools.product(names, repeat=L):
        src = program(hist)
        for order in (('a','b'),('b','a')):
            n += 1
            try: s = build(src, order)
            except Exception as e:
                k=('CRASH', type(e).__name__, str(e)[:60]); crashes[k]+=1; ex.setdefault(k,(hist,order)); continue
            bad = invariants(s)
            for b in bad:
                sig[b]+=1; ex.setdefault(b,(hist,order))
print('executions', n)
for k,v in sig.most_common(): print(v, k, ex[k])
for k,v in crashes.most_common(): print(v, k, ex[k])
