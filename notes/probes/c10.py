import sys, re, os, shutil, xml.parsers.expat as expat
sys.path.insert(0,'/tmp/probe')
from crawl import run
from html.parser import HTMLParser
class Shape(HTMLParser):
    def __init__(s): super().__init__(convert_charrefs=True); s.shape=[]
    def handle_starttag(s, tag, attrs): s.shape.append((tag, tuple(sorted(k for k,_ in attrs))))
    def handle_endtag(s, tag): s.shape.append(('/'+tag,))
ILLEGAL = re.compile('[\x00-\x08\x0b\x0c\x0e-\x1f￾￿]')
def wellformed(path):
    t = open(path, encoding='utf-8', errors='surrogateescape').read()
    t = re.sub(r'^<!DOCTYPE[^>]*>\s*', '', t)
    t = ILLEGAL.sub('', t)
    p = expat.ParserCreate()
    try: p.Parse(t.encode('utf-8','surrogateescape'), True); return None
    except expat.ExpatError as e: return str(e)
def project(P):
    Pq = P.replace('\\','\\\\').replace('"','\\"')
    return {
     'pk/__init__.py': f'"""Doc {P} C{{{P}}} end.\n\n@var v: {P}\n"""\nfrom typing import Final\nX: Final = "{Pq}"\nY: Final = ["{Pq}", b"{Pq}"]\ndef f(a="{Pq}", b: "List[\'{Pq}\']" = 1) -> "{Pq}":\n    """\n    >>> x = "{Pq}"\n    {P}\n\n    Lit::\n\n        {P}\n    @param a: {P}\n    @raise {P}: x\n    """\nclass K(Base["{Pq}"]):\n    "k"\n    @deco("{Pq}")\n    def m(self): pass\n',
    }
payloads = ['BENIGN', '<script>x</script>', '"><b>', "'><b>", '</div>', '&', '&lt;', '&#60;', '&bogus;', ']]>', '<![CDATA[', '<!--', '-->', '<?php', '\x01', '\x0b', '<img src=x onerror=y>']
base=None
for P in payloads:
    d, system, log = run(project(P), [])
    out=d+'/out'; shapes={}; wf={}
    for f in sorted(os.listdir(out)):
        if f.endswith('.html'):
            e = wellformed(os.path.join(out,f))
            if e: wf[f]=e
            sh=Shape(); sh.feed(open(os.path.join(out,f),encoding='utf-8').read()); shapes[f]=sh.shape
    if base is None: base=shapes
    diffs=[f for f in shapes if shapes[f]!=base.get(f)]
    print(repr(P), 'illformed:', wf, 'shape-diff pages:', diffs, 'newfiles', sorted(set(shapes)^set(base)))
    if diffs:
        f=diffs[0]; a=base[f]; b=shapes[f]
        for i,(x,y) in enumerate(zip(a,b)):
            if x!=y: print('    first diff', f, i, x, y, b[i-3:i+3]); break
    shutil.rmtree(d)
