"""Statement-shape alphabet shared by C01 (full runs), C19 (builder stack) and others.

One item per shortcut visible in astbuilder.ModuleVistor / astutils / model / epydoc2stan /
pages; all instantiated over the colliding identifiers x, y, z so that items interact when
they are combined in one scope.  Items need not compile: whether CPython accepts an item in
a placement is decided by compile() in the checks that need it.
"""
from __future__ import annotations
from typing import Callable, Dict

S = {
 # definitions / decorators
 'def': 'def x(a, b=1): "doc"', 'adef': 'async def x(): pass', 'class': 'class x:\n    "doc"\n    def y(self): pass',
 'lambda': 'x = lambda a: a', 'defdef': 'def x():\n    def y(): pass\n    class z: pass',
 'prop': 'class K:\n    @property\n    def x(self): "doc"\n    @x.setter\n    def x(self, v): pass\n    @x.deleter\n    def x(self): pass',
 'prop-cm': 'class K:\n    @property\n    @classmethod\n    def x(cls): "d"\n    @staticmethod\n    @classmethod\n    def y(): pass',
 'prop-module': '@property\ndef x(): pass', 'setter-only': 'class K:\n    @x.setter\n    def x(self, v): pass',
 'deco-call': '@d(1, k=2)\ndef x(): pass', 'deco-odd': '@d[0].e(1)(2)\ndef x(): pass\n@(lambda f: f)\ndef y(): pass',
 'overload': 'from typing import overload\n@overload\ndef x(a: int) -> int: ...\n@overload\ndef x(a: str) -> str: ...\ndef x(a): pass',
 'overload-after': 'from typing import overload\ndef x(a): pass\n@overload\ndef x(a: int) -> int: ...',
 'overload-doc': 'from typing import overload\n@overload\ndef x(a: int) -> int:\n    "doc"\ndef x(a): pass',
 'overload-only': 'import typing\n@typing.overload\ndef x(a): ...',
 'deprecated': 'from twisted.python.deprecate import deprecated\nfrom incremental import Version\n@deprecated(Version("p", 1, 2, 3), "r")\ndef x(): pass',
 'deprecated-bad': 'from twisted.python.deprecate import deprecated\n@deprecated()\ndef x(): pass\n@deprecated(1, 2, 3, 4)\ndef y(): pass\n@deprecated(Version("<b>", "NEXT", 0, 0))\nclass z: pass',
 # class headers
 'base-attr': 'import a.b\nclass x(a.b.C, a.b.D[int]): pass', 'base-call': 'class x(f(1), metaclass=M, k=1): pass', 'base-star': 'class x(*b, **k): pass',
 'base-self': 'class x(x): pass', 'base-cycle': 'class x(y): pass\nclass y(x): pass', 'base-dup': 'class y: pass\nclass x(y, y): pass', 'base-gen': 'class x(i for i in y): pass',
 'base-lambda': 'class x(lambda: 1, "s", 1, None): pass', 'base-exc': 'class x(Exception): pass\nclass y(x, ValueError): pass',
 # assignments
 'assign': 'x = 1\n"attr doc"', 'assign-tuple': 'x, (y, *z) = 1, (2, 3)', 'assign-chain': 'x = y = []', 'aug': 'x = 1\nx += 1\ny += 1', 'ann': 'x: int\ny: "str" = 1',
 'ann-bad': 'x: "(" = 1\ny: "a b" = 2\nz: "" = 3', 'final': 'from typing import Final\nx: Final = 1\ny: Final[int] = 2\nz: Final[1:2] = 3\nw: Final[int, str] = 4',
 'classvar': 'from typing import ClassVar\nclass K:\n    x: ClassVar[int] = 1\n    y: ClassVar = 2', 'typealias': 'from typing import TypeAlias, TypeVar, List\nx: TypeAlias = "List[int]"\ny = List["x"]\nT = TypeVar("T", bound="y")\nz: TypeAlias = "("',
 'typecomment': 'x = 1 # type: int\ny = 2 # type: (\nz = [] # type: List[int]', 'self-attr': 'class K:\n    def __init__(self):\n        self.x = 1\n        "doc"\n        self.y: int = 2\n        self.x.z = 3\n        cls.w = 4',
 'self-mod': 'self.x = 1\ndef f(self):\n    self.y = 2', 'sub-target': 'x[0] = 1\nx.y[1].z = 2', 'walrus': 'x = (y := 1)', 'del': 'x = 1\ndel x', 'slots': 'class K:\n    __slots__ = ("x", "y")',
 'doc-assign': 'class x: pass\nx.__doc__ = "d"\nx.__doc__ = 1\nnope.__doc__ = "d"\nx.__doc__, y = "d", 1\nf().__doc__ = "d"\nx.__doc__ = "a" "b"\nx.__doc__ = f"{x}"',
 'all-ok': '__all__ = ["x", "y"]\nx = 1', 'all-odd': '__all__ = ["x", 1, *y, f"{z}", b"b"]\n__all__ += ["w"]\n__all__ = 3\n__all__ = ("x",)\n__all__: list = []',
 'docformat-odd': '__docformat__ = 3\n__docformat__ = ""\n__docformat__ = "nope"\n__docformat__ = "Epytext EN"\n__docformat__ = x',
 # imports
 'imp': 'import os, sys as s, a.b.c, a.b.c as d', 'imp-from': 'from a.b import c, d as e', 'imp-rel': 'from . import x\nfrom .y import z\nfrom .. import w', 'imp-high': 'from ..... import x\nfrom ..... import *',
 'imp-star': 'from os import *\nfrom nope import *\nfrom . import *\nfrom .m0 import *', 'imp-class': 'class K:\n    import os\n    from a import b\n    from c import *', 'imp-func': 'def f():\n    import os\n    from a import *' if False else 'def f():\n    import os\n    from a import b',
 'imp-future': 'from __future__ import annotations\nx: NotDefined = 1',
 # control flow
 'if-else': 'if a:\n    x = 1\nelif b:\n    def x(): pass\nelse:\n    class x: pass', 'main': 'if __name__ == "__main__":\n    x = 1\nif "__main__" == __name__:\n    y = 1\nif __name__ != "__main__":\n    z = 1',
 'try': 'try:\n    import x\nexcept ImportError:\n    x = None\nelse:\n    y = 1\nfinally:\n    z = 1', 'trystar': 'try:\n    x = 1\nexcept* ValueError:\n    pass', 'with': 'with a as x, b as (y, z):\n    def w(): pass\nasync def f():\n    async with a as b:\n        pass',
 'for': 'for x in y:\n    def z(): pass\nelse:\n    w = 1\nwhile x:\n    y = 1', 'match': 'match x:\n    case 1:\n        def y(): pass\n    case _:\n        z = 1',
 # strings
 'str-stmt': 'x = 1\n"doc1"\n"doc2"\nb"bytes"\nf"f{x}"\n1\n"doc3"', 'doc-ctrl': 'def x():\n    "a\\x00b\\x01c\\x0bd\\x7f \\ufffe \\uffff \\U0001F600 \\r\\n end"', 'doc-ws': 'def x():\n    "   "\ndef y():\n    ""\ndef z():\n    """\n\n    """',
 'doc-long': 'def x():\n    """' + 'word '*3000 + '"""', 'doc-surrogate': 'def x():\n    "\\udc80"', 'docassign-surrogate': 'class x: pass\nx.__doc__ = "\\udc80"', 'ann-surrogate': 'def x(a: "\\udc80"): pass',
 'const-str': 'from typing import Final\nX: Final = "a\\n<b>&amp;\\x00\\udc80\\U0001F600"\nY: Final = b"\\xff\\x00"\nZ: Final = r"\\d+"', 'const-re': 'import re\nfrom typing import Final\nX: Final = re.compile(r"(?P<n>a|b)+[^c]\\d{2,}(?=x)", re.I)\nY: Final = re.compile("(")\nZ: Final = re.compile(b"\\xff", flags=1)\nW: Final = re.compile()',
 # expressions
 'exprs': 'X = [a if b else c, lambda: 0, (yield_ := 1), f"{a!r:>{w}}", a[1:2, ::3, ...], {**d, 1: 2}, {*s}, (*t,), not a, -a ** -b, a @ b, await_, [i for i in j if k], {i: j for i in k}, (i for i in j), a < b < c, a.b.c(d)(e)[f]]',
 'default-exprs': 'def x(a=[], b={}, c=(), d=(1,), e=lambda: 0, f=f"{1}", g=1_000.5e10, h=0xFF, i=-1j, j=..., k=None, *l: 1, **m: "2"): pass',
 'deep-nest': 'X = ' + '('*60 + '1' + ')'*60, 'deep-list': 'X = ' + '['*120 + ']'*120, 'long-chain': 'from typing import Final\nX: Final = ' + '+'.join(['1']*600),
 'very-deep': 'X = ' + '+'.join(['1']*3000), 'huge-int': 'from typing import Final\nX: Final = 0x' + 'f'*6000, 'huge-int-default': 'def x(a=0x' + 'f'*6000 + '): pass',
 # zope / attrs
 'zope': 'from zope.interface import Interface, Attribute, implementer, implements, classImplements, moduleProvides\nclass IX(Interface):\n    a = Attribute("doc")\n    b = Attribute()\n    def m(): "d"\n@implementer(IX, *more)\nclass x:\n    implements(IX)\nclassImplements(x, IX)\nclassImplements()\nclassImplements(nope, IX)\nmoduleProvides(IX)\n@implementer\nclass y: pass',
 'zope-schema': 'from zope import schema, interface\nclass IX(interface.Interface):\n    t = schema.TextLine(description="d")\n    u = schema.Int(description=1)',
 'attrs': 'import attr\n@attr.s(auto_attribs=True)\nclass x:\n    a: int = 1\n    b = attr.ib(default=2, type=int)\n    c = attr.ib(factory=list)\n@attr.s(auto_attribs=nope)\nclass y:\n    a = attr.ib(1, 2, 3)',

 # ---- additions (build phase): more shortcuts of astbuilder / astutils / _pyval_repr / model
 'all-unhashable': '__all__ = [{[]: 1}]', 'docformat-unhashable': '__docformat__ = {[]: 1}', 'doc-assign-unhashable': 'def x(): pass\nx.__doc__ = {[]: 1}\nx.__doc__ = [1, *y]',
 'docformat-internal': '__docformat__ = "_types"\ndef x():\n    "doc"', 'docformat-doctest': '__docformat__ = "doctest"\ndef x():\n    "doc"', 'docformat-napoleon': '__docformat__ = "_napoleon"\ndef x():\n    "doc"',
 're-overflow': 'import re\nfrom typing import Final\nX: Final = re.compile("a{99999999999}")', 're-cond-group': 'import re\nfrom typing import Final\nX: Final = re.compile(r"(<)?(\\w+@\\w+(?:\\.\\w+)+)(?(1)>|$)")\nY: Final = re.compile("(?L)a")\nZ: Final = re.compile("(?au)a")',
 're-default': 'import re\ndef x(a=re.compile("(?(1)a|b)"), b=re.compile("a{99999999999}")): pass', 're-flags-odd': 'import re\nfrom typing import Final\nX: Final = re.compile("a", 99999, 1, 2)\nY: Final = re.compile(pattern="a", flags=re.X|re.S)\nZ: Final = re.compile(*a, **k)',
 'lambda-deep': 'x = ' + 'lambda: ' * 2500 + '0', 'paren-deep': 'x = ' + '(' * 250 + '1' + ')' * 250, 'call-chain-deep': 'x = f' + '()' * 2500, 'attr-chain-long': 'from typing import Final\nX: Final = a' + '.b' * 400,
 'subscript-deep': 'x: ' + 'List[' * 300 + 'int' + ']' * 300 + ' = 1', 'str-concat-long': 'from typing import Final\nX: Final = ' + ' + '.join(['"s"'] * 250), 'list-long': 'from typing import Final\nX: Final = [' + ', '.join(['1'] * 5000) + ']',
 'staticmethod-twice': 'class K:\n    def x(a): pass\n    x = staticmethod(x)\n    x = staticmethod(x)\n    def y(cls): pass\n    y = classmethod(y)\n    y = staticmethod(y)\n    z = staticmethod(nope)\n    x = classmethod(y)',
 'oldschool-odd': 'class K:\n    def x(a): pass\n    x = staticmethod(x, 1)\n    x = staticmethod()\n    w = classmethod(lambda c: 1)\n    x.y = staticmethod(x)\n    x, v = staticmethod(x), 1',
 'prop-odd': 'class K:\n    x = property(lambda s: 1)\n    @property\n    def y(self): pass\n    @y.getter\n    def y(self): pass\n    @z.setter\n    def y(self, v): pass\n    @y.setter\n    @y.deleter\n    def y(self): pass\n    y = 3',
 'class-in-class-dup': 'class x:\n    class x:\n        class x: pass\n        def x(self): pass\n    x = 1\nclass x(x.x): pass', 'func-attr': 'def x(): pass\nx.y = 1\nx.y.z = 2\nx.__doc__ = "d"\nx.__name__ = "n"',
 'typealias-odd': 'from typing import TypeAlias, TypeVar, Callable\nx: TypeAlias = "Callable[[int], (str]"\ny: TypeAlias\nz: TypeAlias = 1 if a else 2\nT = TypeVar(*a)\nU = TypeVar("U", bound="(")\nV = TypeVar()',
 'final-odd': 'import typing\nx: typing.Final\ny: typing.Final = ...\nz: typing.Final[typing.Final[int]] = 1\nclass K:\n    a: typing.Final = 1\n    def __init__(self):\n        self.b: typing.Final = 2\n        self.a = 3',
 'ann-exprs': 'x: 1 + 2 = 3\ny: [int, str] = 4\nz: (lambda: 0) = 5\nw: f"{a}" = 6\nv: (yield) = 7' , 'ann-assign-targets': 'x.y: int = 1\nx[0]: int = 2\n(z): int = 3',
 'aug-odd': 'x = [1]\nx += [2]\nx *= 2\n__all__ += ["a"]\n__all__ = ["b"]\n__all__ += nope\n__all__ -= ["b"]\n__all__ += ("c",)', 'all-extend': '__all__ = []\n__all__.extend(["x", 1])\n__all__.append("y")\n__all__.append(z)\n__all__.extend(*q)\n__all__ = __all__ + ["w"]\n__all__ = other.__all__ + ["v"]',
 'global-nonlocal': 'def x():\n    global y\n    y = 1\n    def z():\n        nonlocal y', 'decorated-class': '@d\n@e(1)\nclass x:\n    @d\n    class y: pass',
 'star-expr-assign': '*x, y = z\n[a, *b] = c\nx = *y, 1', 'dict-odd-const': 'from typing import Final\nX: Final = {**a, None: {1: {2: {3: [()]}}}}\nY: Final = {1, (2, 3), frozenset()}\nZ: Final = -(-(-1))',
 'numbers-odd': 'from typing import Final\nA: Final = 1e999\nB: Final = -1e999\nC: Final = 1e-999\nD: Final = 0xFFFFFFFFFFFFFFFFFFFFFFFF\nE: Final = 1_0.0_1e0_1j\nF: Final = 0o777\nG: Final = 0b1\nH: Final = 1 .real',
 'bytes-odd': 'from typing import Final\nA: Final = b"it\'s"\nB: Final = b"\\x00\\xff\\n"\nC: Final = b""\nD: Final = b"a" b"b"\nE: Final = rb"\\d"', 'str-odd': 'from typing import Final\nA: Final = "\\x00"\nB: Final = "\'\'\'"\nC: Final = "\\"\\"\\""\nD: Final = "a\\\\"\nE: Final = "\\N{BULLET}"\nF: Final = "\\r\\n\\t\\f\\v"',
 'unicode-idents': 'class Ünï:\n    def mé(self): "d"\nπ = 3\ndef ƒ(ß=π): pass', 'dunder-names': '__x__ = 1\n_y = 2\n__z = 3\nclass __K__:\n    __slots__ = ()\n    def __m(self): pass',
 'nested-func-class-deep': 'def x():\n' + ''.join('    ' * (i + 1) + f'class c{i}:\n' + '    ' * (i + 2) + f'def f{i}(self):\n' for i in range(0, 20, 2)) + '    ' * 21 + 'pass',
 'very-long-line': 'x = "' + 'a' * 100000 + '"', 'many-defs': '\n'.join(f'def f{i}(): "d{i}"' for i in range(400)), 'many-params': 'def x(' + ', '.join(f'p{i}=None' for i in range(300)) + '): pass',
 'many-bases': 'class y: pass\nclass x(' + ', '.join(f'b{i}' for i in range(100)) + '): pass', 'many-decorators': '\n'.join('@d%d' % i for i in range(100)) + '\ndef x(): pass',
 'zope-nonclass-iface': 'from zope.interface import Interface, implementer, classImplements\ndef notiface(): pass\nnotiface2 = 1\n@implementer(notiface)\nclass c1:\n    def m(self): pass\n@implementer(notiface2, c1)\nclass c2:\n    def m(self): pass\n    notiface2 = 2\nclassImplements(c2, notiface)',
 'zope-odd': 'from zope.interface import Interface, implementer, Attribute, provider, directlyProvides, alsoProvides\nclass IX(Interface): pass\nIY = InterfaceClass("IY")\n@implementer()\nclass a: pass\n@implementer(1, "s")\nclass b: pass\n@provider(IX)\nclass c: pass\nalsoProvides(c, IX)\nx = Attribute(1, 2, 3)\nclass IZ(IX, nope): pass',
 'attrs-unevaluable-args': 'import attr\n@attr.s(auto_attribs={[]: 1})\nclass x:\n    a: int = 1\n@attr.s(auto_attribs={[1]})\nclass y:\n    a: int = 1\n@attr.s(auto_attribs=-"s")\nclass z:\n    a: int = 1\n@attr.s(auto_attribs=1 + "s")\nclass w:\n    b = attr.ib(default={[]: 1}, type={[1]})\n',
 'expr-statements': 'a() if x else b()\nlambda: 0\n(lambda v: v)(1)\n[i for i in y]\n{k: v for k, v in z}\n{1: 2}\n{1, 2}\nx.y\nx[0]\nx[1:2]\nf"{x!r:>{w}}"\n-x\nx < y < z\nx and y or z\n(w := 1)\n...\nnot x\na @ b\n(yield_ for yield_ in ())\n1, 2\n[*a, *b]\nf(*a, **k)\n"s" "t"\nb"b"\nNone\nawait_ = 1\nx if (lambda: y)() else {z: [lambda: 0]}\n',
 'same-section-titles': 'class x:\n    """Intro.\n\n    Example\n    =======\n    one\n\n    Example\n    =======\n    two\n\n    Example\n    =======\n    three\n\n    Example-1\n    =========\n    four\n\n    Sub\n    ---\n    a\n\n    Sub\n    ---\n    b\n\n    Sub\n    ---\n    c\n    """\ndef y():\n    """X\n    =\n    a\n\n    X-1\n    ===\n    b\n\n    X\n    =\n    c\n\n    X\n    =\n    d\n    """\n',
 'ctor-no-params': "class a:\n    def __init__(): pass\nclass b:\n    def __new__(): pass\nclass c(a): pass\nclass d:\n    @classmethod\n    def make() -> 'd': pass\n    @staticmethod\n    def build() -> 'd': pass\n    @classmethod\n    def mk2(*a, **k) -> 'd': pass\nclass e:\n    def __init__(*args): pass\n    def __new__(**kw): pass\nclass f(b, d): pass\n",
 'dup-in-dup-then-redefined': 'class x:\n    class R:\n        def read(self): "1"\n        def read(self): "2"\n        v = 1\n        v = 2\n    class R:\n        def read(self): "3"\n    def m(self): pass\n    def m(self): pass\nclass x:\n    class R:\n        pass\nif True:\n    class x:\n        pass\ndef y():\n    pass\ndef y():\n    pass\nclass y:\n    def y(self): pass\n    def y(self): pass\n',
 'attrs-odd': 'import attr, attrs\n@attr.s(auto_attribs=True, kw_only=1, init=nope)\nclass x:\n    a: int\n    b: "(" = attr.ib()\n    c = attr.ib(type="(")\n    d = attr.Factory(list)\n@attrs.define\nclass y:\n    a: int = attrs.field(default=1)\n@attr.s()\nclass z(x): pass',
 'deprecated-odd': 'from twisted.python.deprecate import deprecated, deprecatedProperty\nfrom incremental import Version\n@deprecated(Version("p", "NEXT", 0, 0))\ndef a(): pass\n@deprecated(Version("p", 1, 2, 3), replacement=a)\ndef b(): pass\n@deprecated(version=Version(package="p", major=1, minor=2, micro=3), replacement="x\\ry")\nclass c: pass\n@deprecated(Version("p", 1, 2))\ndef d(): pass\nclass K:\n    @deprecatedProperty(Version("p", 1, 2, 3))\n    def e(self): pass',
 'overload-odd': 'import typing as t\n@t.overload\n@staticmethod\ndef x(): ...\n@t.overload\nclass y: ...\n@t.overload\nasync def z(a): ...\nasync def z(a): pass\nclass K:\n    @t.overload\n    def m(self, a: int): ...\n    @t.overload\n    def m(self, a: str): ...\n    m = 1',
 'type-checking': 'from typing import TYPE_CHECKING\nif TYPE_CHECKING:\n    from nowhere import x\n    class y: pass\nelse:\n    x = None\nif not TYPE_CHECKING:\n    z = 1',
 'try-import-dup': 'class x:\n    def m(self): pass\ntry:\n    from ._speedups import x\nexcept ImportError:\n    pass\ntry:\n    import json as y\nexcept ImportError:\n    y = None\nelse:\n    y.z = 1',
 'walrus-scope': 'if (x := f()) and (y := x.z):\n    class w: pass\n[z := i for i in q]', 'match-class': 'match x:\n    case {"a": [1, *r], **kw} if r:\n        class y: pass\n    case C(a=1) | D():\n        import os as z',
 'type-stmt': 'type x = int', 'generic-def': 'def x[T: int, *Ts, **P](a: T) -> T: pass\nclass y[T]:\n    def m[U](self, a: U) -> T: pass', 'fstring-nested': 'from typing import Final\nX: Final = f"{a!r:>{w}} {f\'{b}\'} {{}} {c=}"\nY: Final = f"{x:{y:{z}}}"',
 'except-star-defs': 'try:\n    def x(): pass\nexcept* ValueError as e:\n    def y(): pass\nfinally:\n    class z: pass', 'async-comp': 'async def x():\n    y = [i async for i in z]\n    async with a as b, c as d:\n        pass\n    await e',
 'docstring-forms': 'def x():\n    "a" "b"\ndef y():\n    ("doc")\ndef z():\n    """doc""" + "x"\ndef w():\n    "doc" % 1\nclass v:\n    b"bytes"\nclass u:\n    f"f"\nclass t:\n    ...\n    "late"', 'module-doc-after-future': 'from __future__ import annotations\n"not a docstring"\nx = 1',
 'ivar-fields': 'class x:\n    """\n    @ivar a: doc\n    @type a: C{int}\n    @cvar a: again\n    @ivar: noname\n    @ivar b c: twonames\n    @type: nothing\n    @var x: selfname\n    """\n    a = 1', 'ivar-fields-rst': 'class x:\n    """\n    :ivar a: doc\n    :vartype a: int\n    :var a b: twonames\n    :type a:\n    :ivar:\n    """',
 'param-fields': 'def x(a, *b, c=1, **d):\n    """\n    @param a: one\n    @param a: twice\n    @param *b: star\n    @param **d: starstar\n    @param e: nope\n    @type nope: int\n    @keyword c: kw\n    @keyword z: kw2\n    @return:\n    @rtype:\n    @raise: noexc\n    @raises X Y: two\n    """',
 'cycle-alias': 'x = y\ny = x\nclass z(x): pass\nw = w', 'alias-to-import': 'import os.path as p\nq = p\nr = q.join\nclass s(q.nope): pass\nt = s.mro', 'self-import': 'import pk\nfrom pk import m0\nfrom . import m0 as again\nfrom .m0 import *\nx = pk.m0.x',

 # ---- additions after the second round of seeded changes
 'doc-indented-field-then-list': 'def x(a):\n    """\n\n      @param a: w\n\n    - """',
 'doc-indented-field-then-section': 'def x(a):\n    """\n    Text.\n\n      @param a: w\n      @return: r\n\n    Notes\n    =====\n    More.\n    """',
 'doc-long-same-headings': 'def x():\n    """\n    Intro.\n\n    ' + ('A section title that is a good deal longer than forty eight characters\n    ' + '=' * 70 + '\n    text\n\n    ') * 2 + '"""',
 'const-nested-18': 'from typing import Final\nX: Final = ' + '[' * 18 + ', '.join(['"a rather long leaf value number %d"' % i for i in range(4)]) + ']' * 18,
 'const-nested-mixed': 'from typing import Final\nX: Final = ' + '{"k": (' * 9 + 'f(a < b, lambda: 0, x if y else z)' + ',)}' * 9,
 'ann-str-deep': 'def x(a: "' + '-' * 6000 + '1"): pass', 'ann-str-attr-deep': 'x: "a' + '.a' * 20000 + '" = 1',
 'deco-odd-method': 'class K:\n    @hooks["before"]\n    def x(self): pass\n    @retry(3)(fallback)\n    def y(self): pass\n    @(a or b)\n    def z(self): pass\n    @make().attr\n    def w(self): pass',
}


def _indent(s: str, n: int = 4) -> str:
    return '\n'.join((' ' * n + l) if l else l for l in s.split('\n'))


S['setter-on-nonproperty'] = ('class K:\n    class x: pass\n    @x.setter\n    def x(self, v): pass\n    y = 1\n    @y.setter\n    def y(self, v): pass\n    def z(self): pass\n'
                              '    @z.setter\n    def z(self, v): pass\n    @nope.setter\n    def w(self, v): pass\n    @x.getter\n    def x2(self): pass\n    @z.deleter\n    def z(self): pass\n'
                              '    @property\n    def p(self): pass\n    class p: pass\n    @p.setter\n    def p(self, v): pass')
_TNS = 'xmlns:t="http://twistedmatrix.com/ns/twisted.web.template/0.1"'
S['rst-raw-template-directives'] = ('def x():\n    r\'\'\'\n    Doc.\n\n    .. raw:: html\n\n       <t:slot name="x" %s/>\n       <p t:render="zz" %s>a</p>\n       <t:transparent %s>b</t:transparent>\n    \'\'\'\n'
                                   '__docformat__ = "restructuredtext"\ndef y():\n    r\'\'\'\n    .. raw:: html\n\n       <t:attr name="class" %s>v</t:attr>\n    \'\'\'' % (_TNS, _TNS, _TNS, _TNS))
S['very-long-names'] = 'class ' + 'C' * 260 + ':\n    "doc"\n    def ' + 'm' * 300 + '(self): pass\n' + ''.join('    ' * i + f'class Nested{i:02d}LongishName:\n' for i in range(30)) + '    ' * 30 + 'pass'
S['google-attr-odd-type'] = 'class x:\n    """\n    A class.\n\n    Attributes:\n        a (non\u00a0negative number): doc\n        b (some\ufffething, optional): doc\n    """\n    a = 1\n    b = 2\n    c = 3\n    """\n    @type: some\ufffething, optional\n    """'
S['setter-at-module-level'] = 'x = 1\n@x.setter\ndef x(v): pass\nclass C: pass\n@C.setter\ndef C(v): pass\n@property\ndef q(): pass\n@q.setter\ndef q(v): pass'

# ---- additions after the third round: every field of every docstring syntax on every kind of owner (a field that makes no sense on its
# owner - parameters of a module, instance variables of a function - is an ordinary mistake in real docstrings)
_EPY_TAGS = ['param a', 'type a', 'keyword k', 'return', 'rtype', 'raise ValueError', 'ivar q', 'cvar c', 'var v', 'type q', 'yield', 'ytype', 'note', 'see', 'author',
             'since', 'warns UserWarning', 'unknownfield', 'param', 'return r', 'attention', 'todo', 'precondition', 'change', 'newfield x', 'group g', 'sort']
ALLFIELDS = {
    'epy': '\n'.join(f'@{t}: text L{{nope}}' for t in _EPY_TAGS),
    'rst': '\n'.join(f':{t}: text `nope`' for t in _EPY_TAGS if not t.startswith(('newfield', 'group', 'sort'))) + '\n:vartype q: int\n:yieldtype: int\n:Parameters:\n    - `a`: cons\n:Variables:\n    - `q`: cons',
    'google': ('Args:\n    a (int): p\n    *args: s\n\nKeyword Args:\n    k: kw\n\nReturns:\n    int: r\n\nRaises:\n    ValueError: e\n\nAttributes:\n    q (int): i\n\nYields:\n    int: y\n\n'
               'Note:\n    n\n\nSee Also:\n    x\n\nWarns:\n    UserWarning: w\n\nExample:\n    >>> 1\n\nMethods:\n    m: d\n\nReferences:\n    r\n\nTodo:\n    t\n\nOther Parameters:\n    o: op\n\nReceives:\n    z: rc'),
    'numpy': ('Parameters\n----------\na : int\n    p\n*args\n    s\n\nOther Parameters\n----------------\nk\n    kw\n\nReturns\n-------\nint\n    r\n\nRaises\n------\nValueError\n    e\n\n'
              'Attributes\n----------\nq : int\n    i\n\nYields\n------\nint\n    y\n\nNotes\n-----\nn\n\nSee Also\n--------\nx : d\n\nWarns\n-----\nUserWarning\n    w\n\nExamples\n--------\n>>> 1\n\nMethods\n-------\nm\n    d\n\nReferences\n----------\nr'),
}


def _doc(text: str, ind: int) -> str:
    pad = ' ' * ind
    return pad + '"""\n' + '\n'.join((pad + l) if l else '' for l in ('Summary line.\n\n' + text).split('\n')) + '\n' + pad + '"""'


OWNERS = {
    'module': lambda t: _doc(t, 0) + '\nq = 1',
    'class': lambda t: 'class x:\n' + _doc(t, 4) + '\n    q = 1\n    def __init__(self, a, *args, k=1): pass',
    'function': lambda t: 'def x(a, *args, k=1):\n' + _doc(t, 4),
    'method': lambda t: 'class x:\n    def m(self, a, *args, k=1):\n' + _doc(t, 8),
    'property': lambda t: 'class x:\n    @property\n    def p(self):\n' + _doc(t, 8) + '\n    @p.setter\n    def p(self, a):\n' + _doc(t, 8),
    'attribute': lambda t: 'q = 1\n' + _doc(t, 0) + '\nclass x:\n    c = 2\n' + _doc(t, 4),
    'instance-var': lambda t: 'class x:\n    def __init__(self):\n        self.q = 1\n' + _doc(t, 8),
    'classmethod-static': lambda t: 'class x:\n    @classmethod\n    def cm(cls, a, *args, k=1):\n' + _doc(t, 8) + '\n    @staticmethod\n    def sm(a, *args, k=1):\n' + _doc(t, 8),
    'overload': lambda t: 'from typing import overload\n@overload\ndef x(a: int) -> int:\n' + _doc(t, 4) + '\ndef x(a, *args, k=1):\n' + _doc(t, 4),
    'exception-class': lambda t: 'class x(Exception):\n' + _doc(t, 4),
    'docassign': lambda t: 'class x: pass\nx.__doc__ = ' + repr('Summary.\n\n' + t),
}
for _syn, _text in ALLFIELDS.items():
    for _own, _fn in OWNERS.items():
        S[f'allfields-{_syn}@{_own}'] = _fn(_text)


PLACE: Dict[str, Callable[[str], str]] = {
    'module': lambda s: s,
    'class': lambda s: 'class Outer:\n' + _indent(s),
    'func': lambda s: 'def outer():\n' + _indent(s),
    'if': lambda s: 'if cond:\n' + _indent(s),
    'class-in-if': lambda s: 'if cond:\n    class Outer:\n' + _indent(s, 8),
    'nested-class': lambda s: 'class Outer:\n    class Inner:\n' + _indent(s, 8),
}

FMTS = ['epytext', 'restructuredtext', 'google', 'numpy', 'plaintext']
