"""Statement-shape alphabet shared by C01 (full runs), C19 (builder stack) and others.

One item per shortcut visible in astbuilder.ModuleVistor / astutils / model / epydoc2stan /
pages; all instantiated over the colliding identifiers x, y, z so that items interact when
they are combined in one scope.  Items need not compile: whether CPython accepts an item in
a placement is decided by compile() in the checks that need it.
"""
from __future__ import annotations
from typing import Callable, Dict

S = {
 # definitions / decorators
 'def': 'def x(a, b=1): "doc"', 'adef': 'async def x(): pass', 'class': 'class x:\n    "doc"\n    def y(self): pass',
 'lambda': 'x = lambda a: a', 'defdef': 'def x():\n    def y(): pass\n    class z: pass',
 'prop': 'class K:\n    @property\n    def x(self): "doc"\n    @x.setter\n    def x(self, v): pass\n    @x.deleter\n    def x(self): pass',
 'prop-cm': 'class K:\n    @property\n    @classmethod\n    def x(cls): "d"\n    @staticmethod\n    @classmethod\n    def y(): pass',
 'prop-module': '@property\ndef x(): pass', 'setter-only': 'class K:\n    @x.setter\n    def x(self, v): pass',
 'deco-call': '@d(1, k=2)\ndef x(): pass', 'deco-odd': '@d[0].e(1)(2)\ndef x(): pass\n@(lambda f: f)\ndef y(): pass',
 'overload': 'from typing import overload\n@overload\ndef x(a: int) -> int: ...\n@overload\ndef x(a: str) -> str: ...\ndef x(a): pass',
 'overload-after': 'from typing import overload\ndef x(a): pass\n@overload\ndef x(a: int) -> int: ...',
 'overload-doc': 'from typing import overload\n@overload\ndef x(a: int) -> int:\n    "doc"\ndef x(a): pass',
 'overload-only': 'import typing\n@typing.overload\ndef x(a): ...',
 'deprecated': 'from twisted.python.deprecate import deprecated\nfrom incremental import Version\n@deprecated(Version("p", 1, 2, 3), "r")\ndef x(): pass',
 'deprecated-bad': 'from twisted.python.deprecate import deprecated\n@deprecated()\ndef x(): pass\n@deprecated(1, 2, 3, 4)\ndef y(): pass\n@deprecated(Version("<b>", "NEXT", 0, 0))\nclass z: pass',
 # class headers
 'base-attr': 'import a.b\nclass x(a.b.C, a.b.D[int]): pass', 'base-call': 'class x(f(1), metaclass=M, k=1): pass', 'base-star': 'class x(*b, **k): pass',
 'base-self': 'class x(x): pass', 'base-cycle': 'class x(y): pass\nclass y(x): pass', 'base-dup': 'class y: pass\nclass x(y, y): pass', 'base-gen': 'class x(i for i in y): pass',
 'base-lambda': 'class x(lambda: 1, "s", 1, None): pass', 'base-exc': 'class x(Exception): pass\nclass y(x, ValueError): pass',
 # assignments
 'assign': 'x = 1\n"attr doc"', 'assign-tuple': 'x, (y, *z) = 1, (2, 3)', 'assign-chain': 'x = y = []', 'aug': 'x = 1\nx += 1\ny += 1', 'ann': 'x: int\ny: "str" = 1',
 'ann-bad': 'x: "(" = 1\ny: "a b" = 2\nz: "" = 3', 'final': 'from typing import Final\nx: Final = 1\ny: Final[int] = 2\nz: Final[1:2] = 3\nw: Final[int, str] = 4',
 'classvar': 'from typing import ClassVar\nclass K:\n    x: ClassVar[int] = 1\n    y: ClassVar = 2', 'typealias': 'from typing import TypeAlias, TypeVar, List\nx: TypeAlias = "List[int]"\ny = List["x"]\nT = TypeVar("T", bound="y")\nz: TypeAlias = "("',
 'typecomment': 'x = 1 # type: int\ny = 2 # type: (\nz = [] # type: List[int]', 'self-attr': 'class K:\n    def __init__(self):\n        self.x = 1\n        "doc"\n        self.y: int = 2\n        self.x.z = 3\n        cls.w = 4',
 'self-mod': 'self.x = 1\ndef f(self):\n    self.y = 2', 'sub-target': 'x[0] = 1\nx.y[1].z = 2', 'walrus': 'x = (y := 1)', 'del': 'x = 1\ndel x', 'slots': 'class K:\n    __slots__ = ("x", "y")',
 'doc-assign': 'class x: pass\nx.__doc__ = "d"\nx.__doc__ = 1\nnope.__doc__ = "d"\nx.__doc__, y = "d", 1\nf().__doc__ = "d"\nx.__doc__ = "a" "b"\nx.__doc__ = f"{x}"',
 'all-ok': '__all__ = ["x", "y"]\nx = 1', 'all-odd': '__all__ = ["x", 1, *y, f"{z}", b"b"]\n__all__ += ["w"]\n__all__ = 3\n__all__ = ("x",)\n__all__: list = []',
 'docformat-odd': '__docformat__ = 3\n__docformat__ = ""\n__docformat__ = "nope"\n__docformat__ = "Epytext EN"\n__docformat__ = x',
 # imports
 'imp': 'import os, sys as s, a.b.c, a.b.c as d', 'imp-from': 'from a.b import c, d as e', 'imp-rel': 'from . import x\nfrom .y import z\nfrom .. import w', 'imp-high': 'from ..... import x\nfrom ..... import *',
 'imp-star': 'from os import *\nfrom nope import *\nfrom . import *\nfrom .m0 import *', 'imp-class': 'class K:\n    import os\n    from a import b\n    from c import *', 'imp-func': 'def f():\n    import os\n    from a import *' if False else 'def f():\n    import os\n    from a import b',
 'imp-future': 'from __future__ import annotations\nx: NotDefined = 1',
 # control flow
 'if-else': 'if a:\n    x = 1\nelif b:\n    def x(): pass\nelse:\n    class x: pass', 'main': 'if __name__ == "__main__":\n    x = 1\nif "__main__" == __name__:\n    y = 1\nif __name__ != "__main__":\n    z = 1',
 'try': 'try:\n    import x\nexcept ImportError:\n    x = None\nelse:\n    y = 1\nfinally:\n    z = 1', 'trystar': 'try:\n    x = 1\nexcept* ValueError:\n    pass', 'with': 'with a as x, b as (y, z):\n    def w(): pass\nasync def f():\n    async with a as b:\n        pass',
 'for': 'for x in y:\n    def z(): pass\nelse:\n    w = 1\nwhile x:\n    y = 1', 'match': 'match x:\n    case 1:\n        def y(): pass\n    case _:\n        z = 1',
 # strings
 'str-stmt': 'x = 1\n"doc1"\n"doc2"\nb"bytes"\nf"f{x}"\n1\n"doc3"', 'doc-ctrl': 'def x():\n    "a\\x00b\\x01c\\x0bd\\x7f \\ufffe \\uffff \\U0001F600 \\r\\n end"', 'doc-ws': 'def x():\n    "   "\ndef y():\n    ""\ndef z():\n    """\n\n    """',
 'doc-long': 'def x():\n    """' + 'word '*3000 + '"""', 'doc-surrogate': 'def x():\n    "\\udc80"', 'docassign-surrogate': 'class x: pass\nx.__doc__ = "\\udc80"', 'ann-surrogate': 'def x(a: "\\udc80"): pass',
 'const-str': 'from typing import Final\nX: Final = "a\\n<b>&amp;\\x00\\udc80\\U0001F600"\nY: Final = b"\\xff\\x00"\nZ: Final = r"\\d+"', 'const-re': 'import re\nfrom typing import Final\nX: Final = re.compile(r"(?P<n>a|b)+[^c]\\d{2,}(?=x)", re.I)\nY: Final = re.compile("(")\nZ: Final = re.compile(b"\\xff", flags=1)\nW: Final = re.compile()',
 # expressions
 'exprs': 'X = [a if b else c, lambda: 0, (yield_ := 1), f"{a!r:>{w}}", a[1:2, ::3, ...], {**d, 1: 2}, {*s}, (*t,), not a, -a ** -b, a @ b, await_, [i for i in j if k], {i: j for i in k}, (i for i in j), a < b < c, a.b.c(d)(e)[f]]',
 'default-exprs': 'def x(a=[], b={}, c=(), d=(1,), e=lambda: 0, f=f"{1}", g=1_000.5e10, h=0xFF, i=-1j, j=..., k=None, *l: 1, **m: "2"): pass',
 'deep-nest': 'X = ' + '('*60 + '1' + ')'*60, 'deep-list': 'X = ' + '['*120 + ']'*120, 'long-chain': 'from typing import Final\nX: Final = ' + '+'.join(['1']*600),
 'very-deep': 'X = ' + '+'.join(['1']*3000), 'huge-int': 'from typing import Final\nX: Final = 0x' + 'f'*6000, 'huge-int-default': 'def x(a=0x' + 'f'*6000 + '): pass',
 # zope / attrs
 'zope': 'from zope.interface import Interface, Attribute, implementer, implements, classImplements, moduleProvides\nclass IX(Interface):\n    a = Attribute("doc")\n    b = Attribute()\n    def m(): "d"\n@implementer(IX, *more)\nclass x:\n    implements(IX)\nclassImplements(x, IX)\nclassImplements()\nclassImplements(nope, IX)\nmoduleProvides(IX)\n@implementer\nclass y: pass',
 'zope-schema': 'from zope import schema, interface\nclass IX(interface.Interface):\n    t = schema.TextLine(description="d")\n    u = schema.Int(description=1)',
 'attrs': 'import attr\n@attr.s(auto_attribs=True)\nclass x:\n    a: int = 1\n    b = attr.ib(default=2, type=int)\n    c = attr.ib(factory=list)\n@attr.s(auto_attribs=nope)\nclass y:\n    a = attr.ib(1, 2, 3)',
}


def _indent(s: str, n: int = 4) -> str:
    return '\n'.join((' ' * n + l) if l else l for l in s.split('\n'))


PLACE: Dict[str, Callable[[str], str]] = {
    'module': lambda s: s,
    'class': lambda s: 'class Outer:\n' + _indent(s),
    'func': lambda s: 'def outer():\n' + _indent(s),
    'if': lambda s: 'if cond:\n' + _indent(s),
    'class-in-if': lambda s: 'if cond:\n    class Outer:\n' + _indent(s, 8),
    'nested-class': lambda s: 'class Outer:\n    class Inner:\n' + _indent(s, 8),
}

FMTS = ['epytext', 'restructuredtext', 'google', 'numpy', 'plaintext']
