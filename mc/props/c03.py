"""C03 - what is documented in each namespace is what Python defines there.

Differential against CPython: every definition shape x placement x docstring layout (singles), every ordered pair
of definitions in one scope, and two-module packages (thorough) are executed by CPython and analysed by pydoctor;
per namespace the planted names, their kinds, docstrings (after inspect.cleandoc) and inferred literal types must agree.
"""
from __future__ import annotations

import ast
import inspect
import itertools
import sys
import types
from typing import Any, Dict, Iterable, List, Optional, Sequence, Tuple

from mc import core, pd

ID = 'C03'
LEVEL = 'exploration'
RULE = ('definition shapes x placements x docstring layouts generated as source, executed by CPython (exec/import) and analysed by the real '
        'ASTBuilder; a case is non-trivial when CPython binds the planted name in the examined namespace (positive) or the placement is a '
        'negative one (function body, __main__ block); distinct cases = distinct generated sources')
ASSUMPTIONS = [
    'CPython (vars(), type of the bound object, __doc__, inspect.cleandoc, type(value)) is the oracle',
    'a name bound by def/class and later re-assigned to a value keeps documenting the def/class by documented design (_handleModuleVar): not generated',
    'only the agreed subset is generated: no aliases, bare annotations, instance variables, property setters, else/except/finally/while/match bodies, import-bound names',
]
FLOOR = {'quick': 1500, 'thorough': 8000}
SPACE = {'quick': 'singles: 24 definitions x 11 placements x 9 docstring layouts; ordered pairs of 14 definitions x 4 placements; literal-type alphabet (40 values x 3 placements)',
         'thorough': 'quick + ordered pairs x all placements x 3 layouts; triples of 8 definitions; two-module packages (cross-module exception bases)'}

DOCS = {
    'none': None, 'one': '"""One line."""', 'multi': '"""First line.\n{I}    indented more\n{I}back\n{I}"""',
    'below': '"""\n{I}Below quotes.\n\n{I}  keep\n{I}"""', 'below-deeper': '"""\n{I}Heading:\n{I}    deeper block\n{I}    more\n{I}"""',
    'lead': '"""\n\n{I}Lead blank.\n{I}"""', 'raw': 'r"""Raw \\n text."""', 'tabs': '"""Tab\tin\n{I}\tline\n{I}"""', 'empty': '""""""', 'spaces': '"""   """',
    'trail': '"""Text.\n\n\n{I}"""', 'wsline': '"""\n{I}    \n{I}Text after a whitespace-only line.\n{I}"""',
}


def defs(ind: str, doc: Optional[str], name: str = 'X') -> Dict[str, str]:
    d = (ind + '    ' + doc.replace('{I}', ind + '    ') + '\n') if doc else ''
    body = d or ''
    P = ind + '    pass\n'
    X = name
    return {
        'def': f'{ind}def {X}(a):\n{body}{P}',
        'adef': f'{ind}async def {X}(a):\n{body}{P}',
        'class': f'{ind}class {X}:\n{body}{P}',
        'exc': f'{ind}class {X}(Exception):\n{body}{P}',
        'exc2': f'{ind}class Y0{X}(KeyError):\n{P}{ind}class {X}(Y0{X}):\n{body}{P}',
        'exc-mixin': f'{ind}class M0{X}:\n{P}{ind}class {X}(M0{X}, ValueError):\n{body}{P}',
        'static': f'{ind}@staticmethod\n{ind}def {X}(a):\n{body}{P}',
        'clsm': f'{ind}@classmethod\n{ind}def {X}(cls):\n{body}{P}',
        'prop': f'{ind}@property\n{ind}def {X}(self):\n{body}{P}',
        'oldstatic': f'{ind}def {X}(a):\n{body}{P}{ind}{X} = staticmethod({X})\n',
        'oldclsm': f'{ind}def {X}(cls):\n{body}{P}{ind}{X} = classmethod({X})\n',
        'var_int': f'{ind}{X} = 1\n' + (ind + doc.replace('{I}', ind) + '\n' if doc else ''),
        'var_list': f'{ind}{X} = [1, 2]\n',
        'var_ann': f'{ind}{X}: int = 1\n',
        'var_chain': f'{ind}{X} = Z0{X} = 2\n',
        'var_tuple': f'{ind}{X}, T0{X} = 1, 2\n',
        'redef': f'{ind}def {X}(a):\n{P}{ind}def {X}(a, b):\n{body}{P}',
        'redef_kind': f'{ind}class {X}:\n{P}{ind}def {X}(a, b):\n{body}{P}',
        'nested': f'{ind}class {X}:\n{body}{ind}    class In:\n{ind}        def m(self): pass\n',
        'deco_other': f'{ind}def deco0{X}(f): return f\n{ind}@deco0{X}\n{ind}def {X}(a):\n{body}{P}',
        'lambda': f'{ind}{X} = lambda a: a\n',
        'async_static': f'{ind}@staticmethod\n{ind}async def {X}(a):\n{body}{P}',
        # coroutines whose body holds a yield that is not theirs (nested def / lambda / class), and an async generator (its own yield)
        'adef-nested-gen': f'{ind}async def {X}(a):\n{body}{ind}    def gen0(): yield 1\n{ind}    return [v for v in gen0()]\n',
        'adef-lambda-gen': f'{ind}async def {X}(a):\n{body}{ind}    g0 = lambda: (yield)\n{ind}    return g0\n',
        'adef-class-gen': f'{ind}async def {X}(a):\n{body}{ind}    class L0:\n{ind}        def it(self): yield from ()\n{ind}    return L0\n',
        'adef-await': f'{ind}async def {X}(a):\n{body}{ind}    await a\n{ind}    async with a: pass\n{ind}    async for _ in a: pass\n',
        # a class name bound again AFTER it was used as a base: the subclass keeps the class the name denoted then (its being an exception included)
        'exc-rebound-exc': f'{ind}class {X}(Exception):\n{P}{ind}class S0{X}({X}):\n{P}{ind}class {X}({X}):\n{body}{P}',
        'exc-rebound-plain': f'{ind}class {X}(Exception):\n{P}{ind}class S0{X}({X}):\n{P}{ind}class {X}:\n{body}{P}',
        'plain-rebound-exc': f'{ind}class {X}:\n{P}{ind}class S0{X}({X}):\n{P}{ind}class {X}(KeyError):\n{body}{P}',
        'exc-rebound-in-try': f'{ind}class {X}(Exception):\n{P}{ind}class S0{X}({X}):\n{P}{ind}try:\n{ind}    class {X}:\n{ind}        pass\n{ind}finally:\n{ind}    pass\n',
        # a string statement right after a whole class / function statement documents nothing
        'class-then-string': f'{ind}class {X}:\n{body}{ind}    last0 = 1\n{ind}"a stray string after the class"\n',
        'def-then-string': f'{ind}def {X}(a):\n{body}{ind}    last0 = 1\n{ind}"a stray string after the function"\n',
        'agen': f'{ind}async def {X}(a):\n{body}{ind}    yield 1\n',
        'gen': f'{ind}def {X}(a):\n{body}{ind}    yield 1\n',
        'class_kw': f'{ind}class {X}(object, metaclass=type):\n{body}{P}',
        'prop-then-string': f'{ind}@property\n{ind}def {X}(self):\n{body}{ind}    return 1\n{ind}"a stray string after the property"\n',
        'targets-list': f'{ind}[{X}, H0{X}] = 1, 2\n',
        'targets-starred': f'{ind}{X}, *S0{X} = 1, 2, 3\n',
        'targets-nested': f'{ind}({X}, (N0{X}, M0{X})) = 1, (2, 3)\n',
        'exc-dotted-builtin': f'{ind}import builtins\n{ind}class {X}(builtins.ValueError):\n{body}{P}',
        'exc-dotted-builtin-as': f'{ind}import builtins as bi0{X}\n{ind}class {X}(bi0{X}.KeyError):\n{body}{P}',
        'implicit-clsm': f'{ind}class {X}:\n{ind}    def __init_subclass__(cls, **kw):\n{ind}        pass\n{ind}    def __class_getitem__(cls, item):\n{ind}        pass\n{ind}    def __new__(cls):\n{ind}        pass\n',
        **stacks(ind, body, X),
        **busy(ind, body, X),
        # a function defined OUTSIDE the class (module level, same name) wrapped in the class body: the class binds the name
        'outer-static': (f'def {X}(a):\n    "outer {X}"\n    pass\n', f'{ind}{X} = staticmethod({X})\n'),
        'outer-clsm': (f'def {X}(a):\n    "outer {X}"\n    pass\n', f'{ind}{X} = classmethod({X})\n'),
        'outer-static-other-name': (f'def O0{X}(a):\n    "outer {X}"\n    pass\n', f'{ind}{X} = staticmethod(O0{X})\n'),
    }


BUSY_BODY = ('{i}    pi0{X} = 3.14\n{i}    tpl0{X}: str = "t"\n{i}    def inner0{X}(v): return v\n{i}    class Local0{X}:\n{i}        z = 1\n'
             '{i}    import os as os0{X}\n{i}    for loop0{X} in (1,):\n{i}        pass\n{i}    with open as w0{X}:\n{i}        in_with0{X} = 1\n{i}    return None\n')


def busy(ind: str, body: str, X: str) -> Dict[str, str]:
    """the body of every kind of callable is opaque: locals, inner functions / classes / imports bind nothing in the enclosing namespace"""
    bb = BUSY_BODY.replace('{i}', ind).replace('{X}', X)
    out = {
        'busy:def': f'{ind}def {X}(a):\n{body}{bb}',
        'busy:adef': f'{ind}async def {X}(a):\n{body}{bb}',
        'busy:prop': f'{ind}@property\n{ind}def {X}(self):\n{body}{bb}',
        'busy:prop+setter': f'{ind}@property\n{ind}def {X}(self):\n{body}{bb}{ind}@{X}.setter\n{ind}def {X}(self, a):\n{bb}',
        'busy:static': f'{ind}@staticmethod\n{ind}def {X}(a):\n{body}{bb}',
        'busy:clsm': f'{ind}@classmethod\n{ind}def {X}(cls):\n{body}{bb}',
        'busy:cached-prop': f'{ind}import functools as ft0{X}\n{ind}@ft0{X}.cached_property\n{ind}def {X}(self):\n{body}{bb}',
    }
    return out


OTHERS = {
    'name': ('{ind}def dn0{X}(f): return f\n', '@dn0{X}'),
    'call': ('{ind}def dc0{X}(n): return (lambda f: f)\n', '@dc0{X}(1)'),
    'subscript': ("{ind}REG0{X} = {{'k': (lambda f: f)}}\n", "@REG0{X}['k']"),
    'callattr': ('{ind}class MK0{X}:\n{ind}    d = staticmethod(lambda f: f)\n', '@MK0{X}().d'),
    'boolop': ('{ind}def db0{X}(f): return f\n', '@(None or db0{X})'),
    'attr': ('{ind}class NS0{X}:\n{ind}    d = staticmethod(lambda f: f)\n', '@NS0{X}.d'),
}
BUILTIN_DECOS = {'staticmethod': 'a', 'classmethod': 'cls', 'property': 'self', 'none': 'self'}


def stacks(ind: str, body: str, X: str) -> Dict[str, str]:
    """every identity decorator form stacked above / below each kind-changing built-in decorator"""
    out = {}
    P = ind + '    pass\n'
    for on, (helper, deco) in OTHERS.items():
        for bn, arg in BUILTIN_DECOS.items():
            for order in ('above', 'below'):
                if bn == 'none' and order == 'below':
                    continue
                lines = [ind + deco.format(X=X) + '\n'] + ([f'{ind}@{bn}\n'] if bn != 'none' else [])
                if order == 'below':
                    lines.reverse()
                out[f'stack:{on}:{bn}:{order}'] = helper.format(ind=ind, X=X) + ''.join(lines) + f'{ind}def {X}({arg}):\n{body}{P}'
    return out


PLACE: Dict[str, Tuple[str, ...]] = {
    'module': ('', ''),
    'class': ('class K:\n', '    '),
    'nestedclass': ('class K:\n    class N:\n', '        '),
    'if': ('if True:\n', '    '),
    'try': ('try:\n', '    ', 'except Exception:\n    pass\n'),
    # the try body completes normally: what the handler / the else clause of a failing test defines is never bound
    'try-handler-defs': ('try:\n', '    ', 'except ImportError:\n    def X(a, b, c):\n        "handler version"\n    HX0 = "only in the handler"\n    class HK0:\n        pass\n'),
    'with': ('import contextlib\nwith contextlib.nullcontext():\n', '    '),
    'for': ('for _i in (1,):\n', '    '),
    'class-if': ('class K:\n    if True:\n', '        '),
    'class-try': ('class K:\n    try:\n', '        ', '    finally:\n        pass\n'),
    # bodies that run on import although they are not the first suite of their statement
    'try-else': ('try:\n    pass\nexcept ImportError:\n    pass\nelse:\n', '    '),
    'try-finally': ('try:\n    pass\nfinally:\n', '    '),
    'for-else': ('for _j in ():\n    pass\nelse:\n', '    '),
    'while-else': ('while False:\n    pass\nelse:\n', '    '),
    'main-else': ('if __name__ == "__main__":\n    pass\nelse:\n', '    '),
    'class-try-else': ('class K:\n    try:\n        pass\n    except ImportError:\n        pass\n    else:\n', '        '),
    'func': ('def outer():\n', '    '),
    'main': ('if __name__ == "__main__":\n', '    '),
    'main-reversed': ('if "__main__" == __name__:\n', '    '),
    # the main guard somewhere else than at the top level of the module
    'class-main': ('class K:\n    if __name__ == "__main__":\n', '        '),
    'try-main': ('try:\n    if __name__ == "__main__":\n', '        ', 'finally:\n    pass\n'),
    'if-main': ('if True:\n    if __name__ == "__main__":\n', '        '),
    'with-main': ('import contextlib\nwith contextlib.nullcontext():\n    if __name__ == "__main__":\n', '        '),
    'for-main': ('for _i in (1,):\n    if __name__ == "__main__":\n', '        '),
    # taken on import: the opposite of a __main__ block
    'not-main': ('if __name__ != "__main__":\n', '    '),
    'else-of-false': ('if False:\n    pass\nelif True:\n', '    '),
    'while-once': ('_n = 0\nwhile _n < 1:\n    _n += 1\n', '    '),
}
NEGATIVE = ('func', 'main', 'main-reversed', 'class-main', 'try-main', 'if-main', 'with-main', 'for-main')
UNJUDGED = ('else-of-false', 'while-once')
CLASS_ONLY = ('prop-then-string', 'static', 'clsm', 'prop', 'oldstatic', 'oldclsm', 'async_static', 'outer-static', 'outer-clsm', 'outer-static-other-name')

LITERALS = ['1', '-1', '1.5', '1j', "'s'", "b'b'", 'True', 'None', '[]', '[1, 2]', "['a', 'b']", "[1, 'a']", '[[1], [2]]', '()', '(1, 2)', "(1, 'a')", '(1,)',
            '{}', "{'a': 1}", "{'a': 1, 'b': 's'}", '{1: 2, 3: 4}', '{1, 2}', "{'a'}", '[1.0, 2.0]', '[True, False]', '[None]', '[b"x"]', '{"a": [1]}',
            '-1.5', '0', "''", '[1, 2.0]', '(1, 2, 3)', '[(1, 2)]', '{1: "a"}', '...', '1 + 2', "'a' 'b'", '[1, [2]]', 'not True']


def declared_async(f: Any) -> bool:
    # what pydoctor displays is the 'async' of the def statement: a coroutine function or an asynchronous generator function
    return inspect.iscoroutinefunction(f) or inspect.isasyncgenfunction(f)


def pykind(ns: Any, name: str) -> Optional[Tuple[str, Optional[str], bool]]:
    if name not in vars(ns):
        return None
    raw = vars(ns)[name]
    if isinstance(raw, staticmethod):
        return 'STATIC_METHOD', raw.__func__.__doc__, declared_async(raw.__func__)
    if isinstance(raw, classmethod):
        return 'CLASS_METHOD', raw.__func__.__doc__, False
    if isinstance(raw, property):
        return 'PROPERTY', raw.__doc__, False
    if isinstance(raw, types.FunctionType):
        if raw.__name__ == '<lambda>':
            return 'ATTR', None, False
        return ('METHOD' if isinstance(ns, type) else 'FUNCTION'), raw.__doc__, declared_async(raw)
    if isinstance(raw, type):
        return ('EXCEPTION' if issubclass(raw, BaseException) else 'CLASS'), raw.__doc__, False
    return 'ATTR', None, False


def locate(pm: Any, m: Any, pl: str) -> Tuple[Any, Any]:
    if pl in ('class', 'class-if', 'class-try', 'class-try-else', 'class-main'):
        return pm.K, m.contents['K']
    if pl == 'nestedclass':
        return pm.K.N, m.contents['K'].contents['N']
    if pl == 'subclass':
        return pm.C, m.contents['C']
    return pm, m


def compare_name(pl: str, pns: Any, dns: Any, name: str, label: str, full: str, docexp: Optional[str], res: Dict[str, Any], extra_sig: str = '') -> None:
    from pydoctor import model
    case = {'kind': 'src', 'src': full, 'place': pl, 'names': [name], 'label': label, 'sfx': extra_sig}
    pk = pykind(pns, name) if pl not in NEGATIVE and pl not in UNJUDGED else None
    if pl in UNJUDGED:
        return      # bodies the agreed subset does not cover: neither demanded nor forbidden
    dobj = dns.contents.get(name)
    dups = [k for k in dns.contents if k == name]
    if pk is None:
        if dobj is not None and dobj.kind is model.DocumentableKind.INSTANCE_VARIABLE and f'self.{name} =' in full:
            return      # an instance variable set in a method is documented with the class by design; the class namespace does not hold it
        if dobj is not None:
            res['violations'].append(core.violation(f'invented/{pl}' + ('' if pl in NEGATIVE else f'/{label}{extra_sig}'), f'pydoctor documents {name} in a namespace where CPython binds nothing:\n{full}', case))
        return
    if dobj is None:
        if pl == 'main-else':
            label, extra_sig = 'any-definition', ''      # one structural cause whatever is defined there (alone or in a pair): the else clause of the main guard is not walked
        res['violations'].append(core.violation(f'missing/{pl}/{label}{extra_sig}', f'CPython binds {name} ({pk[0]}) but pydoctor documents nothing:\n{full}', case))
        return
    if label.startswith('presence:'):
        return      # a wrapped outer function is alias-like: only that the class binds and documents the name is judged
    kind, pdoc, isasync = pk
    dk = dobj.kind.name if dobj.kind else None
    if kind == 'ATTR':
        ok = isinstance(dobj, model.Attribute)
    else:
        ok = dk == kind and (not isinstance(dobj, model.Function) or bool(dobj.is_async) == bool(isasync))
    if not ok:
        res['violations'].append(core.violation(f'kind/{label}/{kind}-as-{dk}{extra_sig}', f'{name}: CPython kind {kind} (async={isasync}), pydoctor {dk} (async={getattr(dobj, "is_async", None)}):\n{full}', case))
    if kind != 'ATTR':
        exp = inspect.cleandoc(pdoc) if pdoc is not None else None
        if dobj.docstring != exp:
            res['violations'].append(core.violation(f'docstring/{label}{extra_sig}', f'{name}: docstring {dobj.docstring!r}, CPython+cleandoc {exp!r}:\n{full}', case))
    elif docexp is not None:
        if dobj.docstring != inspect.cleandoc(docexp):
            res['violations'].append(core.violation(f'attribute-docstring/{label}{extra_sig}', f'{name}: attribute docstring {dobj.docstring!r}, expected {inspect.cleandoc(docexp)!r}:\n{full}', case))


def run_sources(items: Sequence[Tuple[str, str, List[Tuple[str, str, Optional[str]]], str]], res: Dict[str, Any]) -> None:
    """items: (placement, full source, [(name, label, attr-docstring literal)], signature suffix). One System for all items."""
    pys = []
    files = {'pk/__init__.py': '', 'pk/zbase.py': ZBASE}
    if 'pk.zbase' not in sys.modules:
        zb = types.ModuleType('pk.zbase')
        exec(compile(ZBASE, 'pk.zbase', 'exec'), zb.__dict__)
        sys.modules.setdefault('pk', types.ModuleType('pk'))
        sys.modules['pk.zbase'] = zb
    for i, (pl, full, names, sfx) in enumerate(items):
        pm = types.ModuleType(f'mm{i}')
        try:
            exec(compile(full, f'mm{i}', 'exec'), pm.__dict__)
        except Exception as e:  # noqa
            pys.append(None)
            core.bump(res, 'skipped_cpython_rejects')
            continue
        pys.append(pm)
        files[f'pk/mm{i}.py'] = full
    # built from real files: SystemBuilder.addModuleString() dedents its text, which rewrites whitespace-only lines
    with pd.scratch('c03s') as d:
        pd.write_tree(d, files)
        s = pd.build_files(d, ['pk'])
    for i, (pl, full, names, sfx) in enumerate(items):
        pm = pys[i]
        if pm is None:
            continue
        m = s.allobjects[f'pk.mm{i}']
        res['evals'] += 1
        res['nontrivial'].add(core.h(full))
        try:
            pns, dns = locate(pm, m, pl)
        except KeyError:
            res['violations'].append(core.violation(f'missing-container/{pl}', f'container class not documented:\n{full}', {'kind': 'src', 'src': full, 'place': pl, 'names': [n for n, _, _ in names]}))
            continue
        for name, label, docexp in names:
            compare_name(pl, pns, dns, name, label, full, docexp, res, sfx)
        # attribute docstrings: a variable has one only if a string statement follows an assignment to it directly, in the same body
        ref = attribute_docstrings(full)
        for o in s.allobjects.values():
            if o.fullName().startswith(m.fullName() + '.') and isinstance(o, model_Attribute()) and o.docstring is not None and o.kind is not None and o.kind.name != 'PROPERTY':
                key = o.fullName()[len(m.fullName()) + 1:]
                if key not in ref and ' ' not in key:
                    res['violations'].append(core.violation(f'attribute-docstring-invented/{pl}', f'{key}: documented as {o.docstring!r}, but no string statement follows an assignment to it:\n{full}',
                                                            {'kind': 'src', 'src': full, 'place': pl, 'names': [n for n, _, _ in names]}))
        # nothing invented: every documented name of the namespace is bound by CPython (negative placements: nothing planted)
        if pl not in NEGATIVE and pl not in UNJUDGED:
            for k in dns.contents:
                if getattr(dns.contents[k].kind, 'name', '') == 'INSTANCE_VARIABLE' and f'self.{k} =' in full:
                    continue        # instance variables set in methods are listed with their class by design
                if k not in vars(pns) and not k.startswith('_') and not k.endswith(('.setter', '.deleter')):      # 'p.setter' is how a setter is listed, by design
                    res['violations'].append(core.violation(f'invented-extra/{pl}', f'pydoctor documents {k}, CPython does not bind it:\n{full}', {'kind': 'src', 'src': full, 'place': pl, 'names': [k]}))


def model_Attribute() -> Any:
    from pydoctor import model
    return model.Attribute


def attribute_docstrings(src: str) -> Dict[str, str]:
    """reference: qualified names (relative to the module) of the variables a string statement documents - the string directly after an assignment, same body"""
    out: Dict[str, str] = {}

    def targets(node: ast.AST) -> List[str]:
        ts: List[str] = []
        if isinstance(node, ast.Assign):
            for t in node.targets:
                ts += [n.id for n in ast.walk(t) if isinstance(n, ast.Name)] + [n.attr for n in ast.walk(t) if isinstance(n, ast.Attribute) and isinstance(n.value, ast.Name) and n.value.id == 'self']
        elif isinstance(node, (ast.AnnAssign, ast.AugAssign)):
            t = node.target
            if isinstance(t, ast.Name):
                ts.append(t.id)
            elif isinstance(t, ast.Attribute) and isinstance(t.value, ast.Name) and t.value.id == 'self':
                ts.append(t.attr)
        return ts

    def walk_body(body: Sequence[ast.stmt], prefix: str, in_method_of: Optional[str]) -> None:
        for i, st in enumerate(body):
            nxt = body[i + 1] if i + 1 < len(body) else None
            if isinstance(nxt, ast.Expr) and isinstance(nxt.value, ast.Constant) and isinstance(nxt.value.value, str):
                for t in targets(st):
                    out[(in_method_of if in_method_of is not None else prefix) + t] = nxt.value.value
            if isinstance(st, ast.ClassDef):
                walk_body(st.body, prefix + st.name + '.', None)
            elif isinstance(st, (ast.FunctionDef, ast.AsyncFunctionDef)):
                if prefix:      # a method: self.x assignments document instance variables of the class
                    walk_body(st.body, prefix + st.name + '.', prefix)
            else:
                for fld in ('body', 'orelse', 'finalbody'):
                    sub = getattr(st, fld, None)
                    if isinstance(sub, list) and sub and isinstance(sub[0], ast.stmt):
                        walk_body(sub, prefix, in_method_of)
                for h in getattr(st, 'handlers', []) or []:
                    walk_body(h.body, prefix, in_method_of)
    walk_body(ast.parse(src).body, '', None)
    return out


def wrap(pl: str, src: str) -> str:
    spec = PLACE[pl]
    return spec[0] + src + (spec[2] if len(spec) > 2 else '')


def singles() -> List[Tuple[str, str, List[Tuple[str, str, Optional[str]]], str]]:
    out = []
    for pl, spec in PLACE.items():
        ind = spec[1]
        for dn, doc in DOCS.items():
            for kn, src in defs(ind, doc).items():
                if (kn in CLASS_ONLY or (kn.startswith('stack:') and ':none:' not in kn) or kn in ('busy:prop', 'busy:prop+setter', 'busy:static', 'busy:clsm', 'busy:cached-prop')) \
                        and not pl.startswith(('class', 'nestedclass')):
                    continue
                if kn.startswith(('stack:', 'outer-', 'busy:')) and dn not in ('none', 'one', 'below'):
                    continue
                prelude = ''
                if isinstance(src, tuple):
                    prelude, src = src
                if dn != 'none' and kn in ('var_list', 'var_ann', 'var_chain', 'var_tuple', 'lambda', 'targets-list', 'targets-starred', 'targets-nested', 'implicit-clsm'):
                    continue
                full = prelude + wrap(pl, src)
                try:
                    compile(full, 'm', 'exec')
                except SyntaxError:
                    continue
                docexp = eval(doc.replace('{I}', ind)) if (doc and kn == 'var_int') else None
                names = [('X', f'{kn}:{dn}' if kn in ('def', 'class', 'var_int', 'prop') else (('presence:' + kn) if kn.startswith('outer-') else kn), docexp)]
                if kn == 'var_chain':
                    names.append(('Z0X', kn, None))
                for extra in {'targets-list': ['H0X'], 'targets-starred': ['S0X'], 'targets-nested': ['N0X', 'M0X'], 'exc-rebound-exc': ['S0X'], 'exc-rebound-plain': ['S0X'],
                              'plain-rebound-exc': ['S0X'], 'exc-rebound-in-try': ['S0X']}.get(kn, []):
                    names.append((extra, kn, None))
                if kn == 'var_tuple':
                    names.append(('T0X', kn, None))
                out.append((pl, full, names, ''))
    return out


PAIR_DEFS = ['def', 'adef', 'class', 'exc', 'static', 'clsm', 'prop', 'var_int', 'var_ann', 'redef', 'redef_kind', 'nested', 'oldstatic', 'lambda']


def pairs(places: Sequence[str], layouts: Sequence[str]) -> List[Tuple[str, str, List[Tuple[str, str, Optional[str]]], str]]:
    out = []
    for pl in places:
        ind = PLACE[pl][1]
        for dn in layouts:
            doc = DOCS[dn]
            for k1, k2 in itertools.product(PAIR_DEFS, repeat=2):
                if (k1 in CLASS_ONLY or k2 in CLASS_ONLY) and not pl.startswith(('class', 'nestedclass')):
                    continue
                # the same name twice (collision) and two different names
                for n2 in ('X', 'Y'):
                    if n2 == 'X' and k2 in ('var_int', 'var_ann', 'lambda', 'oldstatic') and k1 not in ('var_int', 'var_ann', 'lambda'):
                        continue     # re-assigning a def/class name keeps documenting the def/class by design (astbuilder._handleModuleVar)
                    s1 = defs(ind, doc, 'X')[k1]
                    s2 = defs(ind, doc if k2 not in ('var_ann',) else None, n2)[k2]
                    full = wrap(pl, s1 + s2)
                    try:
                        compile(full, 'm', 'exec')
                    except SyntaxError:
                        continue
                    names = [('X', f'{k1}+{k2}', None)] + ([('Y', f'{k1}+{k2}', None)] if n2 == 'Y' else [])
                    out.append((pl, full, names, '/pair' if n2 == 'X' else ''))
    return out


def check_literal(lit: str, pl: str, res: Dict[str, Any], rebind: Optional[str] = None, how: str = '') -> None:
    ind = PLACE[pl][1]
    body = f'{ind}X = {lit}\n'
    if rebind is not None:
        # the same name is bound again, to a literal of another type: the type shown must be the type of the FINAL value
        if how.startswith('aug:'):
            body += f'{ind}X {how[4:]}= {rebind}\n'
        else:
            body += {'plain': f'{ind}X = {rebind}\n', 'if': f'{ind}if True:\n{ind}    X = {rebind}\n', 'try': f'{ind}try:\n{ind}    X = {rebind}\n{ind}finally:\n{ind}    pass\n'}[how]
    full = wrap(pl, body)
    with pd.scratch('c03l') as d:
        pd.write_tree(d, {'m.py': full})
        s = pd.build_files(d, ['m.py'])
    pm = types.ModuleType('mlit')
    exec(compile(full, 'mlit', 'exec'), pm.__dict__)
    pns, dns = locate(pm, s.allobjects['m'], pl)
    res['evals'] += 1
    res['nontrivial'].add(core.h(full))
    dobj = dns.contents.get('X')
    case = {'kind': 'literal', 'lit': lit, 'place': pl, 'rebind': rebind, 'how': how}
    if dobj is None:
        res['violations'].append(core.violation(f'missing/{pl}/literal', f'X = {lit} not documented', case))
        return
    ann = getattr(dobj, 'annotation', None)
    if ann is None:
        return
    value = vars(pns)['X']
    text = ast.unparse(ann)
    node = ast.parse(text, mode='eval').body
    head = node.value if isinstance(node, ast.Subscript) else node
    headname = ast.unparse(head)
    if headname != type(value).__name__:
        res['violations'].append(core.violation('inferred-type/head', f'X = {lit}: inferred annotation {text!r}, actual type {type(value).__name__}', case))
        return
    if isinstance(node, ast.Subscript):
        import builtins
        elems = node.slice.elts if isinstance(node.slice, ast.Tuple) else [node.slice]
        tn = [ast.unparse(e) for e in elems if not (isinstance(e, ast.Constant) and e.value is ...)]

        def isall(vals: Iterable[Any], tname: str) -> bool:
            t = getattr(builtins, tname.split('[')[0], None)
            return t is not None and all(type(v) is t for v in vals)
        ok = True
        if isinstance(value, dict):
            ok = len(tn) == 2 and isall(value.keys(), tn[0]) and isall(value.values(), tn[1])
        else:
            ok = len(tn) == 1 and isall(value, tn[0])
        if not ok:
            res['violations'].append(core.violation('inferred-type/elements', f'X = {lit}: inferred annotation {text!r} does not describe the elements of {value!r}', case))


# ---- names a subclass binds although a base already defines them: the class body binds the name in the subclass, whatever the base has

BASE_MEMBERS = {
    'method': '    def X(self):\n        "base X"\n',
    'static': '    @staticmethod\n    def X():\n        "base X"\n',
    'clsm': '    @classmethod\n    def X(cls):\n        "base X"\n',
    'prop': '    @property\n    def X(self):\n        "base X"\n        return 1\n',
    'var': '    X = 0\n',
    'ann-only': '    X: int\n',
    'ivar': '    def __init__(self):\n        self.X = 0\n',
    'nested-class': '    class X:\n        "base X"\n',
}
SUB_BINDINGS = {
    'none': '    X = None\n',
    'int': '    X = 1\n',
    'ann': '    X: int = 1\n',
    'def': '    def X(self):\n        "sub X"\n',
    'static': '    @staticmethod\n    def X():\n        "sub X"\n',
    'prop': '    @property\n    def X(self):\n        "sub X"\n        return 2\n',
    'class': '    class X:\n        "sub X"\n',
    'lambda': '    X = lambda self: 1\n',
    'if': '    if True:\n        X = 2\n',
    'tuple': '    X, Y = 1, 2\n',
    'nothing': '    pass\n',
    'ivar-only': '    def __init__(self):\n        self.X = 5\n',
}
BASE_WHERE = ('same', 'imported', 'grandparent')

ZBASE = ''.join(f'class Base_{bk.replace("-", "_")}:\n{src}' for bk, src in BASE_MEMBERS.items())


def inherited_items() -> List[Tuple[str, str, List[Tuple[str, str, Optional[str]]], str]]:
    out = []
    for bk, bsrc in BASE_MEMBERS.items():
        for sk, ssrc in SUB_BINDINGS.items():
            for where in BASE_WHERE:
                if where == 'same':
                    pre = f'class Base0:\n{bsrc}'
                    base = 'Base0'
                elif where == 'grandparent':
                    pre = f'class Base0:\n{bsrc}class Mid0(Base0):\n    pass\n'
                    base = 'Mid0'
                else:
                    pre = f'from pk.zbase import Base_{bk.replace("-", "_")} as Base0\n'
                    base = 'Base0'
                full = f'{pre}class C({base}):\n{ssrc}'
                # the label names the structural pair, not every spelling: an assignment is an assignment, a function a function
                sform = 'assign' if sk in ('none', 'int', 'ann', 'lambda', 'if', 'tuple') else sk
                bform = 'function' if bk in ('method', 'static', 'clsm') else bk
                out.append(('subclass', full, [('X', f'sub-{sform}-over-base-{bform}', None)], f'|{bk}'))
    return out


# ---- two-module packages (thorough): cross-module bases decide the kind

def check_package(variant: int, res: Dict[str, Any]) -> None:
    import importlib
    tag = f'c03pk{variant}'
    base_imports = [('from .zerr import BaseE', 'BaseE'), ('from . import zerr', 'zerr.BaseE'), (f'import {tag}.zerr', f'{tag}.zerr.BaseE'),
                    ('from .zerr import BaseE as BE', 'BE'), ('from .zerr import *', 'BaseE')][variant % 5]
    deep = variant // 5      # 0: direct subclass, 1: via intermediate in a third module
    files = {
        f'{tag}/__init__.py': '',
        f'{tag}/zerr.py': 'class BaseE(Exception):\n    "base doc"\nclass Plain:\n    "plain"\n',
        f'{tag}/ahandlers.py': f'{base_imports[0]}\nclass Timeout({base_imports[1]}):\n    "t"\nclass Retry(Timeout):\n    pass\n',
    }
    if deep:
        files[f'{tag}/mid.py'] = 'from .ahandlers import Retry\nclass Quota(Retry):\n    "q"\nclass NotExc:\n    pass\n'
    with pd.scratch('c03') as d:
        pd.write_tree(d, files)
        sys.path.insert(0, str(d))
        try:
            mods = {name: importlib.import_module(f'{tag}.{name}') for name in ['zerr', 'ahandlers'] + (['mid'] if deep else [])}
            s = pd.build_files(d, [tag])
            res['evals'] += 1
            res['nontrivial'].add(core.h('pkg', variant))
            for mname, pm in mods.items():
                m = s.allobjects[f'{tag}.{mname}']
                for k, v in vars(pm).items():
                    if isinstance(v, type) and v.__module__ == pm.__name__:
                        compare_name('module', pm, m, k, f'package-v{variant % 5}', f'[package variant {variant}] {files}', None, res)
        finally:
            sys.path.remove(str(d))
            for k in [k for k in sys.modules if k == tag or k.startswith(tag + '.')]:
                del sys.modules[k]


def chunks(seq: Sequence[Any], n: int) -> Iterable[Sequence[Any]]:
    for i in range(0, len(seq), n):
        yield seq[i:i + n]


def jobs(tier: str) -> Iterable[Tuple[str, Any]]:
    n = len(singles())
    for i in range(0, n, 60):
        yield ('singles', ('singles', i, i + 60))
    for pl in ('module', 'class', 'if', 'class-if'):
        yield ('pairs:4-placements', ('pairs', [pl], ['one']))
    for pl in ('module', 'class', 'if'):
        yield ('literals', ('literals', pl))
    for v in range(10):
        yield ('packages', ('package', v))
    for bk in BASE_MEMBERS:
        yield ('inherited-names', ('inherited', bk))
    if tier == 'thorough':
        for pl in PLACE:
            for dn in ('none', 'below', 'multi'):
                yield ('pairs:all-placements', ('pairs', [pl], [dn]))


def run_job(job: Any, tier: str) -> Dict[str, Any]:
    res = core.result()
    if job[0] == 'singles':
        items = singles()[job[1]:job[2]]
        run_sources(items, res)
        if items:
            res['samples'].append({'placement': items[0][0], 'source': items[0][1]})
    elif job[0] == 'pairs':
        items = pairs(job[1], job[2])
        for ch in chunks(items, 80):
            run_sources(ch, res)
        if items:
            res['samples'].append({'placement': items[len(items) // 2][0], 'source': items[len(items) // 2][1]})
    elif job[0] == 'literals':
        for lit in LITERALS:
            try:
                compile(f'X = {lit}', 'x', 'exec')
            except SyntaxError:
                continue
            check_literal(lit, job[1], res)
        REB = ['1', '1.5', "'s'", '[1]', "['a']", '(1, 2)', '{}', 'None', 'True']
        for l1, l2 in itertools.permutations(REB, 2):
            for how in ('plain', 'if', 'try'):
                check_literal(l1, job[1], res, l2, how)
        # augmented assignments: the value (and its type) is the result of the operation, not of either operand
        AUG = ['6', '4', '-1', 'True', '1.5', "'s'", '[1]', '(1, 2)', '2']
        for l1, l2 in itertools.product(AUG, repeat=2):
            for op in ('+', '-', '*', '/', '//', '%', '**', '|', '&', '<<'):
                try:
                    ns: Dict[str, Any] = {}
                    exec(f'X = {l1}\nX {op}= {l2}\n', ns)
                except Exception:  # noqa
                    continue
                check_literal(l1, job[1], res, l2, 'aug:' + op)
    elif job[0] == 'package':
        check_package(job[1], res)
    elif job[0] == 'inherited':
        items = [(a, b, c, '') for a, b, c, d in inherited_items() if d == '|' + job[1]]
        run_sources(items, res)
        res['samples'].append({'placement': 'subclass', 'source': items[0][1]})
    return res


def replay(case: Dict[str, Any]) -> List[Dict[str, Any]]:
    res = core.result()
    if case['kind'] == 'src':
        # re-derive labels is not needed for a replay: compare every planted-looking name
        names = [(n, case.get('label', 'replay'), None) for n in case['names']]
        run_sources([(case['place'], case['src'], names, case.get('sfx', ''))], res)
    elif case['kind'] == 'literal':
        check_literal(case['lit'], case['place'], res, case.get('rebind'), case.get('how') or '')
    return res['violations']
