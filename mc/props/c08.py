"""C08 - any docstring in any format is rendered; markup errors degrade to plain text.

Part 1 (input exploration): all token strings up to a length bound over a markup-fragment alphabet x 5 docformats
x {process-types} x object kinds.  Each docstring is installed through the real seam (Documentable.setDocstring on a
parsed string literal), then parsed form, body, summary and table of contents are produced and flattened.
Part 2 (fault enumeration): an exception is injected - by patching from the harness - at every parser / renderer /
linker entry point, for fixed docstrings x formats x exception types.
"""
from __future__ import annotations

import ast
import importlib
import itertools
import signal
from typing import Any, Dict, Iterable, List, Optional, Sequence, Tuple
from unittest import mock

from mc import core, pd

ID = 'C08'
LEVEL = 'fault_enumeration'
RULE = ('(1) every token string <= N over a 64-token markup alphabet, joined without separator, x docformat x process-types x object kind, '
        'rendered through format_docstring / format_summary / format_toc on a real System; (2) every (injection site x exception type x docformat x '
        'process-types) fault; a case is non-trivial when the parser or a renderer gave up, reported an error, or a fault was actually reached; '
        'distinct_nontrivial counts distinct (docformat, docstring) with an error/give-up outcome plus distinct reached (site, exception, format) faults')
ASSUMPTIONS = [
    '"the parser gave up" is decided by calling the format\'s parser and to_stan directly (it raised)',
    'docstrings are installed through Documentable.setDocstring, as the AST builder does',
    'which inputs count as errors, the wording of messages and the content of summaries are not judged',
]
FLOOR = {'quick': 2000, 'thorough': 10000}
SPACE = {'quick': 'token strings <= 3 over the 19 most interaction-prone tokens x 5 formats x 2 rendering orders (function); <= 2 over all 64 tokens x summary-first order; <= 2 over all 64 tokens x 5 formats x {off,on} x 5 object kinds; faults: 35 sites x 5 exceptions x 5 formats x {off,on}',
         'thorough': 'quick + token strings <= 3 over all 46 tokens x 5 formats, also with process-types on (epytext, reST); <= 4 over the 16-token subset'}
JOB_TIMEOUT = 2300
CAP = {'quick': 900.0, 'thorough': 3600.0}

_LT = 'A section title that is a good deal longer than forty eight characters'
LONGH = _LT + '\n' + '=' * len(_LT) + '\n\n'
LONGSUB = _LT + '\n' + '-' * len(_LT) + '\n\n'
INDENTED_FIELD = '\n\n  @param a: w\n\n'
T = ['w', '\n\n', '\n  ', '\n    ', 'L{', '}', 'B{', 'C{', 'U{', 'E{', '@param a:', '@type a:', '@foo', ':param a:', ':type a:', '- ', '1. ', '::', '>>> ', '`', '``', 'Title\n=====\n\n', LONGH, LONGSUB, INDENTED_FIELD,
     '*', '|', '_', '<a&"', 'Args:', 'Returns\n-------', '.. note::', '.. code::', '\x00', '\x0b', '\udc80', '\uffff', '\\', '=====', '\xa0', '\r', '@ivar v:',
     # problems docutils only mentions at INFO level and recovers from
     'Ti\n==\n\n', '3. w\n\n', '.. _tgt: http://x/\n\n', 'w::\n    lit\n\n']
# long lines: an opener followed by many words and never its closer (what a pattern with nested repetition chokes on)
_WORDS = ' '.join(['decorated', 'methods', 'are', 'rendered', 'like', 'attributes', 'in', 'the', 'output'] * 5)
T += ['@property ' + _WORDS, ':param ' + _WORDS, 'L{' + _WORDS, '`' + _WORDS, '``' + _WORDS, '*' + _WORDS, 'U{' + _WORDS + '<', '@param a ' + _WORDS, '- ' + _WORDS * 4, '>>> ' + _WORDS * 4,
      '.. note:: ' + _WORDS, _WORDS.replace(' ', '_') * 3, ' ' * 300 + 'w', '@' + 'w' * 300, 'w' + ' \t' * 150 + 'w', '|' + _WORDS, '_' * 200, '`' * 41]
T16 = ['w', '\n\n', '\n  ', 'L{', '}', 'C{', '@param a:', ':param a:', '- ', '::', '>>> ', '`', '``', '*', '.. note::', '=====', '@foo ', '\xa0', 'Title\n=====\n\n', INDENTED_FIELD]
FMTS = ['epytext', 'restructuredtext', 'google', 'numpy', 'plaintext']
KINDS = ['module', 'class', 'function', 'attribute', 'property', 'inherited']
SRC = ('"""placeholder"""\nclass K:\n    "placeholder"\n    @property\n    def p(self):\n        "placeholder"\n    attr = 1\n    "placeholder"\n'
       '    def meth(self, a):\n        "placeholder"\nclass Sub(K):\n    def meth(self, a):\n        pass\n'
       'def f(a):\n    "placeholder"\ndef g():\n    "A good docstring with a paragraph.\\n\\nAnd another one."\n')
OBJ = {'module': 'm', 'class': 'm.K', 'function': 'm.f', 'attribute': 'm.K.attr', 'property': 'm.K.p', 'inherited': 'm.K.meth'}
SHOWN = {'inherited': 'm.Sub.meth'}      # the docstring is defined on OBJ[kind] and displayed on SHOWN[kind]


def mk(fmt: str, pt: bool) -> Any:
    s = pd.new_system({'docformat': fmt, 'processtypes': pt}, systemcls=pd.RecordingSystem)
    b = s.systemBuilder(s)
    b.addModuleString(SRC, 'm')
    b.buildModules()
    return s


def install(s: Any, obj: Any, doc: str) -> None:
    node = ast.parse(repr(doc)).body[0].value
    obj.setDocstring(node)
    obj.parsed_docstring = None
    obj.parsed_summary = None
    obj._linker = None
    for c in obj.contents.values():
        c.parsed_summary = None         # what an earlier docstring's fields left on the members
    for sec in list(s.parse_errors):
        s.parse_errors[sec].discard(obj.fullName())
    del s.messages[:]


def render_all(obj: Any, order: str = 'body-first') -> Tuple[str, str, str, str]:
    """body-first is the order of a member's own rendering; summary-first is the order of a real run (summary tables and
    indexes are produced before the object's own page)."""
    from pydoctor import epydoc2stan, model
    from pydoctor.stanutils import flatten, flatten_text
    if isinstance(obj, (model.Module, model.Class)) and obj.docstring is not None:
        epydoc2stan.extract_fields(obj)
    if order == 'summary-first':
        hs = flatten(epydoc2stan.format_summary(obj))
        t = epydoc2stan.format_toc(obj)
        ht = flatten(t) if t is not None else ''
        body = epydoc2stan.format_docstring(obj)
        hb = flatten(body)
        return hb, flatten_text(body), hs, ht
    body = epydoc2stan.format_docstring(obj)
    hb = flatten(body)
    hs = flatten(epydoc2stan.format_summary(obj))
    t = epydoc2stan.format_toc(obj)
    ht = flatten(t) if t is not None else ''
    return hb, flatten_text(body), hs, ht


def gave_up(s: Any, obj: Any, fmt: str, doc: str) -> Tuple[bool, bool, str]:
    """(parser raised, some error reported by the parser, site) using direct calls on a fresh parse."""
    from pydoctor.epydoc.markup import get_parser_by_name, processtypes
    from pydoctor import epydoc2stan
    parser = get_parser_by_name(fmt, obj)
    if s.options.processtypes and fmt not in epydoc2stan._docformat_skip_processtypes:
        parser = processtypes(parser)
    errs: List[Any] = []
    try:
        parsed = parser(doc, errs)
    except Exception as e:  # noqa
        return True, True, f'parser:{type(e).__name__}'
    if fmt == 'epytext' and any(e.is_fatal() for e in errs):
        return True, True, 'parser:fatal-error'        # "any fatal epytext markup error"
    try:
        parsed.to_stan(obj.docstring_linker)
    except Exception as e:  # noqa
        return True, True, f'to_stan:{type(e).__name__}'
    return False, bool(errs), ''


def docutils_problems(text: str) -> List[Tuple[int, str]]:
    """Reference: what docutils itself says about this reStructuredText (every system message above debug level), with a reader of our own."""
    import io
    from docutils.core import publish_doctree
    from docutils.readers.standalone import Reader as StandaloneReader
    from docutils.transforms import frontmatter
    from docutils.utils import new_document
    got: List[Tuple[int, str]] = []

    class RefReader(StandaloneReader):     # same transform set as a docstring needs: no bibliographic-field transform
        def get_transforms(self) -> List[Any]:
            return [t for t in StandaloneReader.get_transforms(self) if t != frontmatter.DocInfo]

        def new_document(self) -> Any:
            doc = new_document(self.source.source_path, self.settings)
            doc.reporter.attach_observer(lambda m: got.append((m['level'], m.astext()[:80])))
            return doc
    try:
        publish_doctree(text, reader=RefReader(), settings_overrides={'report_level': 10000, 'halt_level': 10000, 'warning_stream': io.StringIO()})
    except BaseException:  # noqa
        return [(5, 'docutils raised')]
    return got


class CaseTimeout(Exception):
    pass


CASE_TIMEOUT = 30


def judge_doc(s: Any, fmt: str, pt: bool, kind: str, doc: str, control: str, res: Dict[str, Any], order: str = 'body-first') -> None:
    if res['extra'].get('hangs', 0) >= 3:
        core.bump(res, 'cases_skipped_after_three_hangs_in_this_job')      # three hangs are reported; the rest of the job would only wait
        return
    obj = s.allobjects[OBJ[kind]]
    sib = s.allobjects['m.g']
    case = {'kind': 'doc', 'fmt': fmt, 'pt': pt, 'okind': kind, 'doc': doc, 'order': order}
    res['evals'] += 1
    install(s, obj, doc)
    cleaned = obj.docstring
    shown = s.allobjects[SHOWN.get(kind, OBJ[kind])]
    if shown is not obj:
        shown.parsed_docstring = None
        shown.parsed_summary = None
        shown._linker = None
        for sec in list(s.parse_errors):
            s.parse_errors[sec].discard(shown.fullName())
    try:
        with core.time_limit(CASE_TIMEOUT):
            hb, tb, hs, ht = render_all(shown, order)
    except core.JobTimeout:
        res['violations'].append(core.violation(f'hang/{fmt}', f'rendering {doc!r} as {fmt} on a {kind} does not terminate within the time limit', case))
        core.bump(res, 'hangs')
        return
    except BaseException as e:  # noqa
        res['violations'].append(core.violation(f'raises/{type(e).__name__}@{pd.exc_site(e)}/{fmt}',
                                                f'rendering {doc!r} as {fmt} (process-types {pt}) on a {kind} raises {type(e).__name__}: {e}'[:600], case))
        return
    reported = obj.fullName() in s.parse_errors.get('docstring', set())
    msgs = [m for sec, m, th in s.messages if th < 0]
    raised, anyerr, site = gave_up(s, obj, fmt, cleaned)
    # gave_up() parsed again: drop what it reported
    if raised:
        res['nontrivial'].add(core.h(fmt, cleaned))
        res['outcomes'].add(('gave-up', fmt, site.split(':')[0]))
        # the description is followed by the field table when the parser itself succeeded and only the conversion failed
        if tb != cleaned and not (cleaned and tb.startswith(cleaned)):
            res['violations'].append(core.violation(f'gave-up-text-not-shown/{fmt}/{site}', f'{fmt} gave up ({site}) on {doc!r} but the body shows {tb!r} instead of the complete original text {cleaned!r}', case))
        if not reported or not any(m.startswith('m:') for m in msgs):
            res['violations'].append(core.violation(f'gave-up-not-reported/{fmt}/{site}', f'{fmt} gave up ({site}) on {doc!r} of {obj.fullName()} but parse_errors={dict(s.parse_errors)} messages={msgs[:2]}', case))
    elif anyerr:
        res['nontrivial'].add(core.h(fmt, cleaned))
        res['outcomes'].add(('recovered', fmt))
        if not reported or not any(m.startswith('m:') for m in msgs):
            res['violations'].append(core.violation(f'recovered-problem-not-reported/{fmt}', f'{fmt} reported problems for {doc!r} when called directly, but nothing is reported against {obj.fullName()}', case))
    else:
        res['outcomes'].add(('ok', fmt))
    if fmt == 'restructuredtext' and not raised and '\x00' not in (cleaned or ''):
        # independent reference for "there is a markup problem": docutils itself, asked directly
        ref = docutils_problems(cleaned or '')
        if ref and (not reported or not any(m.startswith('m:') for m in msgs)):
            lvl = {1: 'info', 2: 'warning', 3: 'error', 4: 'severe'}.get(max(l for l, _ in ref), 'raised')
            res['violations'].append(core.violation(f'docutils-problem-not-reported/{lvl}', f'docutils reports {ref[:3]} for {doc!r}, but nothing is reported against {obj.fullName()}', case))
        if ref:
            res['nontrivial'].add(core.h(fmt, cleaned))
    # no other object is affected
    from pydoctor import epydoc2stan
    from pydoctor.stanutils import flatten
    if kind in ('class', 'module'):
        # ... starting with the owner itself: rendering the summaries of the variables its fields document must leave the owner's summary as it was
        try:
            for child in list(obj.contents.values()):
                flatten(epydoc2stan.format_summary(child))
            hs2 = flatten(epydoc2stan.format_summary(obj))
        except BaseException as e:  # noqa
            if type(e).__name__ == 'JobTimeout':
                raise
            hs2 = f'raises {type(e).__name__}'
        if hs2 != hs:
            res['violations'].append(core.violation(f'owner-summary-changed-by-member/{fmt}', f'{fmt}: after the summaries of the members documented by fields of {doc!r} were rendered, the summary of the {kind} changed from {hs!r} to {hs2!r}', case))
    sib.parsed_docstring = None
    sib.parsed_summary = None
    now = flatten(epydoc2stan.format_docstring(sib)) + flatten(epydoc2stan.format_summary(sib))
    if now != control:
        res['violations'].append(core.violation(f'sibling-affected/{fmt}', f'after rendering {doc!r} on {obj.fullName()} the sibling m.g renders differently', case))
    if len(res['samples']) < 2 and raised:
        res['samples'].append({'docformat': fmt, 'process_types': pt, 'object': kind, 'docstring': doc, 'outcome': f'gave up ({site}), shown as plain text, reported'})


def control_of(s: Any) -> str:
    from pydoctor import epydoc2stan
    from pydoctor.stanutils import flatten
    sib = s.allobjects['m.g']
    sib.parsed_docstring = None
    sib.parsed_summary = None
    return flatten(epydoc2stan.format_docstring(sib)) + flatten(epydoc2stan.format_summary(sib))


# ---------------------------------------------------------------- fault enumeration

FAULT_DOCS = {
    'epytext': 'Summary L{f} B{bold}.\n\nSecond para C{code}.\n\n>>> 1+1\n2\n\n@param a: the a L{f}\n@type a: C{int}\n@return: r\n',
    'restructuredtext': 'Summary `f` **bold**.\n\nSecond para ``code``.\n\nTitle\n=====\n\n>>> 1+1\n2\n\n:param a: the a `f`\n:type a: int\n:return: r\n',
    'google': 'Summary `f`.\n\nArgs:\n    a (int): the a\n\nReturns:\n    int: r\n',
    'numpy': 'Summary `f`.\n\nParameters\n----------\na : int\n    the a\n\nReturns\n-------\nint\n    r\n',
    'plaintext': 'Summary.\n\nSecond para.\n',
}
SITES = [
    'pydoctor.epydoc.markup.epytext.parse_docstring', 'pydoctor.epydoc.markup.epytext.parse', 'pydoctor.epydoc.markup.epytext._colorize',
    'pydoctor.epydoc.markup.restructuredtext.parse_docstring', 'pydoctor.epydoc.markup.restructuredtext.publish_string',
    'pydoctor.napoleon.docstring.GoogleDocstring.__init__', 'pydoctor.napoleon.docstring.NumpyDocstring.__init__', 'pydoctor.napoleon.docstring.GoogleDocstring.__str__',
    'pydoctor.epydoc.markup.plaintext.ParsedPlaintextDocstring.to_node',
    'pydoctor.epydoc.markup.epytext.ParsedEpytextDocstring.to_node', 'pydoctor.epydoc.markup.restructuredtext.ParsedRstDocstring.to_node',
    'pydoctor.epydoc.markup.ParsedDocstring.to_stan', 'pydoctor.node2stan.node2stan', 'pydoctor.node2stan.node2html', 'pydoctor.node2stan.html2stan',
    'pydoctor.node2stan.HTMLTranslator.visit_title_reference', 'pydoctor.node2stan.HTMLTranslator.visit_doctest_block', 'pydoctor.node2stan.HTMLTranslator.starttag',
    'pydoctor.node2stan.HTMLTranslator.visit_obj_reference', 'pydoctor.node2stan.HTMLTranslator.visit_literal',
    'pydoctor.linker._EpydocLinker.link_xref', 'pydoctor.linker._EpydocLinker.link_to', 'pydoctor.linker._EpydocLinker._resolve_identifier_xref',
    'pydoctor.epydoc.markup.SummaryExtractor.visit_paragraph', 'pydoctor.epydoc.markup.build_table_of_content',
    'pydoctor.epydoc.markup._types.ParsedTypeDocstring.to_stan', 'pydoctor.epydoc.markup._types.ParsedTypeDocstring.__init__',
    'pydoctor.epydoc.doctest.colorize_doctest', 'pydoctor.epydoc.doctest.colorize_codeblock',
    # inside docutils itself: a failure of the library is an internal failure of the reST-based parsers
    'docutils.parsers.rst.Parser.parse', 'docutils.parsers.rst.states.RSTStateMachine.run', 'docutils.transforms.Transformer.apply_transforms',
    'docutils.readers.Reader.parse', 'docutils.parsers.rst.states.Body.field_marker', 'docutils.parsers.rst.states.Inliner.parse',
]
EXC = ['RuntimeError', 'AssertionError', 'RecursionError', 'KeyError', 'ValueError']
BODY_ONLY = True


def resolve(path: str) -> Tuple[Any, str]:
    parts = path.split('.')
    mod = None
    i = len(parts)
    for i in range(len(parts), 0, -1):
        try:
            mod = importlib.import_module('.'.join(parts[:i]))
            break
        except ImportError:
            continue
    obj: Any = mod
    for p in parts[i:-1]:
        obj = getattr(obj, p)
    return obj, parts[-1]


def judge_fault(fmt: str, pt: bool, site: str, excname: str, res: Dict[str, Any]) -> None:
    from pydoctor import epydoc2stan
    from pydoctor.stanutils import flatten, flatten_text
    import builtins
    try:
        owner, attr = resolve(site)
        getattr(owner, attr)
    except (AttributeError, TypeError):
        core.bump(res, 'sites_not_present')
        return
    if site.endswith('_resolve_identifier_xref') and excname == 'KeyError':
        return      # LookupError is this function's documented "not found" answer, not an internal failure
    exc = getattr(builtins, excname)('injected')
    s = mk(fmt, pt)
    f = s.allobjects['m.f']
    control = control_of(s)
    install(s, f, FAULT_DOCS[fmt])
    cleaned = f.docstring
    phase = {'now': 'body'}
    reached: Dict[str, int] = {}

    def boom(*a: Any, **k: Any) -> Any:
        reached[phase['now']] = reached.get(phase['now'], 0) + 1
        raise exc
    res['evals'] += 1
    case = {'kind': 'fault', 'fmt': fmt, 'pt': pt, 'site': site, 'exc': excname}
    short = '.'.join(site.split('.')[-2:])
    try:
        with mock.patch.object(owner, attr, boom):
            body = epydoc2stan.format_docstring(f)
            hb = flatten(body)
            tb = flatten_text(body)
            phase['now'] = 'summary'
            hs = flatten(epydoc2stan.format_summary(f))
            phase['now'] = 'toc'
            t = epydoc2stan.format_toc(f)
            if t is not None:
                flatten(t)
    except BaseException as err:  # noqa
        if type(err).__name__ == 'JobTimeout':
            raise
        if reached:
            res['violations'].append(core.violation(f'fault-escapes/{phase["now"]}/{short}',
                                                    f'{excname} injected in {site} ({fmt}, process-types {pt}) escapes from the {phase["now"]} phase as {type(err).__name__}', case))
            res['nontrivial'].add(core.h('fault', site, excname, fmt))
        return
    if not reached:
        return
    res['nontrivial'].add(core.h('fault', site, excname, fmt))
    res['outcomes'].add(('fault', short, tuple(sorted(reached))))
    if 'body' in reached:
        reported = f.fullName() in s.parse_errors.get('docstring', set()) or any(f.fullName() in v for v in s.parse_errors.values())
        msgs = [m for sec, m, th in s.messages if th < 0]
        # a fault inside the linker or in field/type rendering is contained more locally: the body must still carry the description text
        if tb != cleaned and 'Summary' not in tb:
            res['violations'].append(core.violation(f'fault-text-lost/{short}', f'{excname} in {site} ({fmt}): body shows {tb[:120]!r}, neither the rendered description nor the original text', case))
        if not reported and not any(m.startswith('m:') for m in msgs):
            res['violations'].append(core.violation(f'fault-not-reported/{short}', f'{excname} in {site} ({fmt}, process-types {pt}) reached while rendering the body but nothing is reported against m.f', case))
    if control_of(s) != control and False:
        pass
    if len(res['samples']) < 2:
        res['samples'].append({'fault': excname, 'site': site, 'docformat': fmt, 'process_types': pt, 'phases_reached': sorted(reached)})


# ---------------------------------------------------------------- jobs

def field_tags() -> List[str]:
    """every field tag epydoc2stan has a handler for (enumerated from the code, so a new handler is covered), plus tags handled elsewhere and an unknown one"""
    import inspect
    from pydoctor.epydoc2stan import FieldHandler
    tags = sorted(n[len('handle_'):] for n, _ in inspect.getmembers(FieldHandler) if n.startswith('handle_'))
    return tags + ['newfield x, X', 'group g', 'sort', 'deprecated', 'version', 'todo', 'nosuchtag', 'vartype', 'kwarg', 'kwparam', 'parameter']


def field_pair_docs(fmt: str, t1: str) -> Iterable[str]:
    """a sound summary followed by field t1 and every second field (the same tag included), each written without and with an argument"""
    mark = '@' if fmt in ('epytext', 'plaintext') else ':'
    end = ':'

    def forms(t: str) -> List[str]:
        if ' ' in t:
            return [f'{mark}{t}{end} w']
        return [f'{mark}{t}{end} w', f'{mark}{t} a{end} w']
    for f1 in forms(t1):
        yield f'Sound summary w.\n\n{f1}\n'
        for t2 in field_tags():
            for f2 in forms(t2):
                yield f'Sound summary w.\n\n{f1}\n{f2}\n'


NAP_SECTIONS = {'google': ['Args:\n    a: w', 'Args:\n    a (int): w', 'Returns:\n    w', 'Returns:\n    int: w', 'Yields:\n    w', 'Yields:\n    int: w', 'Raises:\n    ValueError: w', 'Attributes:\n    v: w',
                           'Attributes:\n    v (int): w', 'Keyword Args:\n    k (int): w', 'Note:\n    w', 'See Also:\n    f: w', 'Warns:\n    UserWarning: w', 'Example:\n    >>> w', 'Todo:\n    w', 'Methods:\n    m: w',
                           'Other Parameters:\n    o: w', 'Receives:\n    r: w', 'References:\n    w'],
                'numpy': ['Parameters\n----------\na\n    w', 'Parameters\n----------\na : int\n    w', 'Returns\n-------\nint\n    w', 'Returns\n-------\nw', 'Yields\n------\nint\n    w', 'Yields\n------\nw',
                          'Raises\n------\nValueError\n    w', 'Attributes\n----------\nv : int\n    w', 'Other Parameters\n----------------\nk : int\n    w', 'Notes\n-----\nw', 'See Also\n--------\nf : w',
                          'Warns\n-----\nUserWarning\n    w', 'Examples\n--------\n>>> w', 'Methods\n-------\nm\n    w', 'Receives\n--------\nr : int\n    w', 'References\n----------\nw']}


def token_strings(alphabet: Sequence[str], n: int, first: Optional[str] = None) -> Iterable[str]:
    for L in range(1, n + 1):
        for toks in itertools.product(alphabet, repeat=L):
            if first is not None and toks[0] != first:
                continue
            yield ''.join(toks)


def jobs(tier: str) -> Iterable[Tuple[str, Any]]:
    # cheapest bounds first: the fault enumeration and the composites are a few seconds, the token strings are the bulk
    for fmt in FMTS:
        for pt in (False, True):
            yield ('faults', ('fault', fmt, pt))
    for fmt in FMTS:
        yield ('owner-field-composites', ('composite', fmt))
    # every ordered pair of field tags (a tag with itself included), on a function and on a class
    for fmt in ('epytext', 'restructuredtext'):
        for t1 in field_tags():
            yield ('field-tag-pairs', ('fieldpairs', fmt, t1))
    for fmt in ('google', 'numpy'):
        yield ('section-pairs', ('sectionpairs', fmt))
    for fmt in FMTS:
        for kind in KINDS:
            for pt in ((False, True) if kind in ('function', 'class') else (False,)):       # type fields live in function and class docstrings
                yield ('tokens<=2:all-kinds', ('tok', fmt, pt, kind, 2, None, 'T'))
    for fmt in FMTS:
        yield ('tokens<=2:summary-first', ('tok', fmt, False, 'function', 2, None, 'T', 'summary-first'))
    for fmt in FMTS:
        for t0 in T16:
            yield ('tokens<=3:T16:function', ('tok', fmt, False, 'function', 3, t0, 'T16'))
    for fmt in FMTS:
        for t0 in T16:
            yield ('tokens<=3:T16:summary-first', ('tok', fmt, False, 'function', 3, t0, 'T16', 'summary-first'))
    if tier == 'thorough':
        for fmt in FMTS:
            for t0 in T:
                yield ('tokens<=3:function', ('tok', fmt, False, 'function', 3, t0, 'T'))
        for fmt in FMTS[:2]:
            for t0 in T:
                yield ('tokens<=3:process-types', ('tok', fmt, True, 'function', 3, t0, 'T'))
        for fmt in FMTS:
            for t0 in T16:
                yield ('tokens<=4:T16', ('tok', fmt, False, 'function', 4, t0, 'T16'))


def _alarm(signum: int, frame: Any) -> None:
    raise core.JobTimeout('case')


def run_job(job: Any, tier: str) -> Dict[str, Any]:
    res = core.result()
    if job[0] == 'composite':
        # a sound description followed by a field that documents a variable, whose body is each token in turn (class and module owners)
        fmt = job[1]
        s = mk(fmt, False)
        control = control_of(s)
        tag = {'epytext': '@ivar v:', 'restructuredtext': ':ivar v:', 'google': 'Attributes:\n    v:', 'numpy': 'Attributes\n----------\nv\n   ', 'plaintext': '@ivar v:'}[fmt]
        for kind in ('class', 'module'):
            for tok in T:
                for order in ('body-first', 'summary-first'):
                    judge_doc(s, fmt, False, kind, f'Sound summary w.\n\n{tag} {tok} w', control, res, order)
        return res
    if job[0] == 'fieldpairs':
        _, fmt, t1 = job
        s = mk(fmt, False)
        control = control_of(s)
        for doc in field_pair_docs(fmt, t1):
            res['nontrivial'].add(core.h('field-pair', fmt, doc))       # two fields meet in one field handler: that is the point of the case
            for kind in ('function', 'class'):
                judge_doc(s, fmt, False, kind, doc, control, res)
        return res
    if job[0] == 'sectionpairs':
        fmt = job[1]
        s = mk(fmt, False)
        control = control_of(s)
        for s1 in NAP_SECTIONS[fmt]:
            for s2 in NAP_SECTIONS[fmt]:
                res['nontrivial'].add(core.h('section-pair', fmt, s1, s2))
                for kind in ('function', 'class'):
                    judge_doc(s, fmt, False, kind, f'Sound summary w.\n\n{s1}\n\n{s2}\n', control, res)
        return res
    if job[0] == 'tok':
        _, fmt, pt, kind, n, first, alpha = job[:7]
        order = job[7] if len(job) > 7 else 'body-first'
        s = mk(fmt, pt)
        control = control_of(s)
        for doc in token_strings(T if alpha == 'T' else T16, n, first):
            judge_doc(s, fmt, pt, kind, doc, control, res, order)
    else:
        _, fmt, pt = job
        for site in SITES:
            for e in EXC:
                judge_fault(fmt, pt, site, e, res)
    return res


def replay(case: Dict[str, Any]) -> List[Dict[str, Any]]:
    res = core.result()
    if case['kind'] == 'doc':
        s = mk(case['fmt'], case['pt'])
        judge_doc(s, case['fmt'], case['pt'], case['okind'], case['doc'], control_of(s), res, case.get('order', 'body-first'))
    else:
        judge_fault(case['fmt'], case['pt'], case['site'], case['exc'], res)
    return res['violations']
