"""C12 - hidden objects leave no trace; private objects are always marked private.

For every single-feature project of the C11 family (thorough: feature pairs) and every visible object o of it
(thorough: also pairs of objects): run the real driver with `--privacy HIDDEN:<o>` (exact name), with a pattern that
matches exactly o, and with `--privacy PRIVATE:<o>`.
Hidden: no page, no id/name, no href resolving to its page/anchor, no entry in all-documents, both search indexes,
objects.inv - for o and everything inside it.  Private: o is rendered and every listing entry for it (member-table row,
member-detail block, sidebar item, module-index item, search document) carries the private marker.
"""
from __future__ import annotations

import os
import re
from typing import Any, Dict, Iterable, List, Sequence, Tuple
from urllib.parse import unquote

from mc import core, pd, site

ID = 'C12'
LEVEL = 'exploration'
RULE = ('for each project x each visible object (x rule form), one full driver run whose whole output tree is searched for traces of the hidden object / '
        'unmarked listing entries of the private object; non-trivial = the object is referenced from another page in the default run (hidden) or has at '
        'least one listing entry (private); distinct = distinct (project, object, rule)')
ASSUMPTIONS = [
    'plain-text mentions of a hidden name (e.g. the unlinked name of a hidden base in a class header) are allowed',
    'only the five listing places the statement names are judged for the private marker',
]
FLOOR = {'quick': 300, 'thorough': 1000}
SPACE = {'quick': 'single-feature projects x every visible object x {HIDDEN exact, HIDDEN pattern, HIDDEN pattern after broader PUBLIC/PRIVATE patterns, HIDDEN exact before PUBLIC patterns, PRIVATE exact} (sidebar depth 2)',
         'thorough': 'quick + PRIVATE by pattern, sidebar depth 3, and all pairs of objects hidden together on 12 projects'}
JOB_TIMEOUT = 2300


def private_by_name(o: Any) -> bool:
    """reference: the naming rules alone"""
    from pydoctor import model
    n = o.name
    return (n.startswith('_') and not (n.startswith('__') and n.endswith('__'))) or (isinstance(o, model.Module) and n == '__main__')


def default_private_objects(feats: Sequence[str], res: Dict[str, Any]) -> List[str]:
    """objects private by default in the plain run; the implementation's classification is compared with the naming rules"""
    out = []
    with site.run(feats) as r:
        s = r.system
        if s is None:
            return []
        for k, o in s.allobjects.items():
            if not o.isVisible or ' ' in k or site.unreachable_through_contents(o):
                continue
            ref = private_by_name(o)
            if ref != o.isPrivate and not any(a in ('--privacy',) for a in site.project(feats)[1]):
                res['violations'].append(core.violation(f'default-privacy-classification/{type(o).__name__}/{"private" if ref else "public"}-by-name',
                                                        f'{list(feats)}: {k} is {"private" if ref else "public"} by the naming rules, classified {o.privacyClass.name}',
                                                        {'kind': 'default-class', 'feats': list(feats)}))
            if ref and o.isPrivate:
                out.append(k)
    return out


def objects_of(feats: Sequence[str]) -> List[str]:
    with site.run(feats) as r:
        s = r.system
        if s is None:
            return []
        # (objects inside a module that was replaced in its package's contents are never written at all: C11 known finding, not a target here)
        return [k for k, o in s.allobjects.items() if o.isVisible and ' ' not in k and k not in ('pk',) and not site.unreachable_through_contents(o)]


def pattern_for(name: str) -> str:
    # a pattern that matches exactly this qualified name: last character as a set
    return name[:-1] + '[' + name[-1] + ']'


def judge_hidden(feats: Sequence[str], targets: Sequence[str], form: str, res: Dict[str, Any]) -> None:
    args: List[str] = []
    for t in targets:
        if form == 'pattern-after-public-patterns':
            # a list of rules: broader PUBLIC / PRIVATE patterns given first, the hiding pattern last (the last matching pattern decides)
            args += ['--privacy', 'PUBLIC:pk**', '--privacy', 'PRIVATE:**.' + t.split('.')[-1], '--privacy', 'HIDDEN:' + pattern_for(t)]
        elif form == 'exact-before-public-pattern':
            # an exact rule beats any pattern, wherever it stands in the list
            args += ['--privacy', 'HIDDEN:' + t, '--privacy', 'PUBLIC:' + pattern_for(t), '--privacy', 'PUBLIC:pk**']
        elif form.startswith('exact+subject-inside:'):
            # the run is asked to document only an object that lives INSIDE the hidden one: nothing of it may come out, in any output file
            args += ['--privacy', 'HIDDEN:' + t, '--html-subject', form.split(':', 1)[1]]
        else:
            args += ['--privacy', 'HIDDEN:' + (t if form == 'exact' else pattern_for(t))]
    if form.startswith('exact+subject-inside:'):
        form = 'exact+subject-inside'
        subject = args[-1]
    else:
        subject = None
    case = {'kind': 'hidden', 'feats': list(feats), 'targets': list(targets), 'form': form if subject is None else f'{form}:{subject}'}
    res['evals'] += 1
    with site.run(feats, args + ['--sidebar-expand-depth', '2']) as r:
        if r.exc or r.system is None:
            res['violations'].append(core.violation(f'run-failed/{r.exc_type}@{r.exc_site}', f'driver failed hiding {targets} in {list(feats)}: {r.exc_type}\n{(r.exc or "")[-500:]}', case))
            return
        pages = site.parse_pages(str(r.out))
        seen = set()
        for t in targets:
            o = r.system.allobjects.get(t)
            if o is None:
                continue
            if o.isVisible and o.name == '__main__':
                continue        # Module.privacyClass pins a module named __main__ to PRIVATE: its privacy is not HIDDEN, the statement says nothing
            if o.isVisible:
                res['violations'].append(core.violation(f'rule-ignored/{form}', f'HIDDEN rule ({form}) for {t} has no effect', case))
                continue
            for sig, what in site.traces_of_hidden(str(r.out), r.system, t, pages):
                if sig in seen:
                    continue
                seen.add(sig)
                res['violations'].append(core.violation('/'.join(sig), f'{list(feats)} with {t} hidden ({form}): {what}', case))
        # the rest of the site must still be consistent (no dead links introduced by hiding); a partial (--html-subject) output is not a site
        for sig, what in (site.crawl(str(r.out), r.system, pages) if subject is None else []):
            if sig[2] in ('superseded-duplicate',) or sig[1] == 'all-documents.url' or sig[2] in ('hierarchy-entry-below-superseded-class', 'inside-replaced-module') or sig[1] == 'inside-replaced-module':
                continue      # C11 known findings
            if ('after-hiding',) + sig not in seen:
                seen.add(('after-hiding',) + sig)
                res['violations'].append(core.violation('after-hiding/' + site.sigstr(sig), f'{list(feats)} with {targets} hidden: {what}', case))
        res['nontrivial'].add(core.h('hidden', tuple(feats), tuple(targets), form))
        res['outcomes'].add(core.h(sorted(seen)))
    if len(res['samples']) < 2:
        res['samples'].append({'features': list(feats), 'hidden': list(targets), 'rule_form': form})


def judge_private(feats: Sequence[str], target: str, form: str, depth: str, res: Dict[str, Any]) -> None:
    rule = 'PRIVATE:' + (target if form == 'exact' else pattern_for(target))
    case = {'kind': 'private', 'feats': list(feats), 'target': target, 'form': form, 'depth': depth}
    res['evals'] += 1
    # form 'default': no rule at all - the object is private by the naming rules of the statement (leading underscore, module __main__)
    with site.run(feats, (['--privacy', rule] if form != 'default' else []) + ['--sidebar-expand-depth', depth]) as r:
        if r.exc or r.system is None:
            res['violations'].append(core.violation(f'run-failed/{r.exc_type}@{r.exc_site}', f'driver failed: {r.exc_type}', case))
            return
        o = r.system.allobjects[target]
        kind = type(o).__name__
        if not o.isVisible:
            return       # an ancestor is hidden by the feature itself
        if not o.isPrivate:
            res['violations'].append(core.violation(f'rule-ignored/private-{form}', f'PRIVATE rule for {target} has no effect', case))
            return
        url = unquote(o.url)
        out = str(r.out)
        nentries = 0
        seen = set()
        page_exists = os.path.exists(os.path.join(out, url.split('#')[0]))
        if not page_exists:
            res['violations'].append(core.violation(f'private-not-rendered/{kind}', f'private {target} has no page {url}', case))
        for f in os.listdir(out):
            if not f.endswith('.html'):
                continue
            for ctx, tgt, priv in site.first_links_per_row(site.listings(os.path.join(out, f), f)):
                if ctx == 'member-detail':
                    if tgt != target:
                        continue
                elif tgt != url:
                    continue
                nentries += 1
                if not priv:
                    where = 'summary' if f in site.SUMMARY_PAGES else ('own-page' if f == unquote(o.page_object.url) and kind in ('Class', 'Module', 'Package') else 'object-page')
                    sig = ('private-unmarked', ctx, kind, where)
                    if sig not in seen:
                        seen.add(sig)
                        res['violations'].append(core.violation('/'.join(sig), f'{list(feats)} with {target} private: {ctx} entry on {f} lacks the private marker', case))
        t = open(os.path.join(out, 'all-documents.html'), encoding='utf-8').read()
        m = re.search(r'<li id="%s">(.*?)</li>' % re.escape(target), t, flags=re.S)
        if not m:
            res['violations'].append(core.violation(f'private-missing-from-search-documents/{kind}', f'{target} not in all-documents.html', case))
        elif '<div class="privacy">PRIVATE</div>' not in m.group(1):
            res['violations'].append(core.violation(f'private-unmarked/search-document/{kind}', f'{target}: search document not marked PRIVATE', case))
        if nentries:
            res['nontrivial'].add(core.h('private', tuple(feats), target, form, depth))
        core.bump(res, 'listing_entries_checked', nentries)


PAIR_PROJECTS = ['subclass', 'inh-xref', 'hidden-base', 'nested', 'reexport', 'zope', 'property', 'private', 'ivar', 'ctor', 'two-roots', 'same-name']


def jobs(tier: str) -> Iterable[Tuple[str, Any]]:
    for f in site.NAMES:
        if f == 'many-mods':
            continue
        yield ('singles:each-object', ('objs', [f], tier))
    if tier == 'thorough':
        for f in PAIR_PROJECTS:
            yield ('singles:object-pairs-hidden', ('objpairs', [f]))


def run_job(job: Any, tier: str) -> Dict[str, Any]:
    res = core.result()
    feats = job[1]
    names = objects_of(feats)
    if job[0] == 'objs':
        for t in names:
            judge_hidden(feats, [t], 'exact', res)
            judge_hidden(feats, [t], 'pattern', res)
            judge_hidden(feats, [t], 'pattern-after-public-patterns', res)
            judge_hidden(feats, [t], 'exact-before-public-pattern', res)
            inside = [n for n in names if n.startswith(t + '.')]
            for sub in inside[:1] + [n for n in inside if n.count('.') > t.count('.') + 1][:1]:
                judge_hidden(feats, [t], 'exact+subject-inside:' + sub, res)
            judge_private(feats, t, 'exact', '2', res)
            if job[2] == 'thorough':
                judge_private(feats, t, 'pattern', '3', res)
        for t in default_private_objects(feats, res):
            judge_private(feats, t, 'default', '2', res)
    else:
        import itertools
        for a, b in itertools.combinations(names, 2):
            if a.startswith(b + '.') or b.startswith(a + '.'):
                continue
            judge_hidden(feats, [a, b], 'exact', res)
    return res


def replay(case: Dict[str, Any]) -> List[Dict[str, Any]]:
    res = core.result()
    if case['kind'] == 'hidden':
        judge_hidden(case['feats'], case['targets'], case['form'], res)
    elif case['kind'] == 'default-class':
        default_private_objects(case['feats'], res)
    else:
        judge_private(case['feats'], case['target'], case['form'], case['depth'], res)
    return res['violations']
