"""C05 - inheritance is computed as Python computes it.

The space is the set of all class-definition sequences: class i chooses an ORDERED subset of
classes 0..i-1 as bases (1*2*5*16*65 = 10 400 sequences of five classes; every shorter
sequence is a prefix).  Every sequence is pushed through the full path
source text -> System -> Class.mro() (and, with member families, Class.find, docstring
sources, inherited-member tables, "overrides" notes) and compared with what CPython does
with the same class statements (type(), __mro__, attribute lookup, inspect.getdoc).
Variants: bases written Base[T]; classes spread over two/three modules in every acyclic
placement and every processing order; six-class sequences at mro.mro level (thorough).
"""
from __future__ import annotations

import inspect
import itertools
import re
import sys
import types
from typing import Any, Dict, Iterable, Iterator, List, Optional, Sequence, Tuple

from mc import core, pd

ID = 'C05'
LEVEL = 'model_checking'
RULE = ('all class-definition sequences (class i picks an ordered subset of the earlier classes as bases) up to N classes, each '
        'executed through source->System->Class.mro() and by CPython type(); a hierarchy is non-trivial when some class has >= 2 bases '
        '(the C3 merge has to interleave) or CPython rejects it; distinct hierarchies are distinct by construction. '
        'states = definition-sequence prefixes, transitions = "define class i with bases B" steps')
ASSUMPTIONS = [
    'CPython (type(), __mro__, inspect.getdoc) is the oracle',
    'bases are documented classes of the same project; hierarchies with duplicate direct bases are not generated (CPython rejects them before linearisation)',
]
FLOOR = {'quick': 5000, 'thorough': 100000}
SPACE = {'quick': 'all 10 400 five-class sequences (full path); all 170 sequences <= 4 classes with all member families (find, docs, member tables, overrides); generic-subscripted bases on <= 4 classes; all placements of <= 4 classes over 2 modules x both processing orders; all five-class sequences at mro.mro level',
         'thorough': 'quick + all 3 390 400 six-class sequences at mro.mro level; five-class sequences with the m_P member family; 3-module placements of 4-class sequences; supplementary sampled 7-9 class hierarchies'}
CAP = {'quick': 900.0, 'thorough': 3600.0}
JOB_TIMEOUT = 1500


def ordered_subsets(n: int) -> List[Tuple[int, ...]]:
    out: List[Tuple[int, ...]] = []
    for k in range(n + 1):
        out.extend(itertools.permutations(range(n), k))
    return out


def hierarchies(n: int) -> Iterator[Tuple[Tuple[int, ...], ...]]:
    return itertools.product(*[ordered_subsets(i) for i in range(n)])


def subsets(n: int) -> Iterator[Tuple[int, ...]]:
    for k in range(1, n + 1):
        yield from itertools.combinations(range(n), k)


def source(h: Sequence[Tuple[int, ...]], members: str = '', generic: bool = False,
           only: Optional[Sequence[int]] = None) -> str:
    """members: '' | 'm' (family m_P) | 'md' (families m_P and d_{P,j})."""
    L: List[str] = []
    if generic:
        L.append('from typing import Generic, TypeVar\nT = TypeVar("T")')
    for i, bases in enumerate(h):
        if only is not None and i not in only:
            continue
        bl = [(f'C{b}[T]' if generic else f'C{b}') for b in bases]
        if generic and not bases:
            bl = ['Generic[T]']
        # 'X=i:pos:Name,...': class i also has the undocumented (builtin) base Name at position pos of its base list
        if 'X=' in members:
            for item in members.split('X=')[1].split(';')[0].split(','):
                if item:
                    ci_, pos_, nm_ = item.split(':')
                    if int(ci_) == i:
                        bl.insert(int(pos_), nm_)
        L.append(f'class C{i}({", ".join(bl)}):' if bl else f'class C{i}:')
        body: List[str] = []
        # 'B=<digits>': those classes define nothing themselves; 'P': every class looks its inherited members up while it is being parsed
        bare = {int(c) for c in members.split('B=')[1].split(';')[0]} if 'B=' in members else set()
        if 'P' in members and i not in bare:
            anc: set = set()
            todo = list(bases)
            while todo:
                x = todo.pop()
                if x not in anc:
                    anc.add(x)
                    todo += list(h[x])
            probes = [''.join(map(str, P)) for P in subsets(len(h)) if i not in P and set(P) & anc]
            if probes:
                body.append(f'    def zz_probe_{i}(self):\n' + '\n'.join(f'        self.m_{t} = wrap(self.m_{t})' for t in probes))
        if members.split('X=')[0] and i not in bare:
            for P in subsets(len(h)):
                if i in P:
                    tag = ''.join(map(str, P))
                    body.append(f'    def m_{tag}(self):\n        "doc m_{tag} in C{i}"')
                    if 'd' in members:
                        for j in P:
                            body.append(f'    def d_{tag}_{j}(self):' + (f'\n        "doc d_{tag}_{j} from C{i}"' if j == i else '\n        pass'))
                    if 'e' in members and len(P) >= 2:
                        # family e: documented in class j, EMPTY docstring in class k, undocumented elsewhere (an empty docstring is a docstring)
                        for j in P:
                            for k in P:
                                if k != j:
                                    doc = f'\n        "doc e_{tag}_{j}_{k} from C{i}"' if i == j else ('\n        ""' if i == k else '\n        pass')
                                    body.append(f'    def e_{tag}_{j}_{k}(self):{doc}')
        if 'N' in members.split('X=')[0] and i not in bare:
            # family N: a nested class N_<P> defined in every class of P (a member like any other, found along the linearisation)
            for P in subsets(len(h)):
                if i in P and len(P) <= 2:
                    tag = ''.join(map(str, P))
                    body.append(f'    class N_{tag}:\n        "nested N_{tag} of C{i}"\n        def who(self):\n            "who of C{i}.N_{tag}"')
        L += body or ['    pass']
    if 'N' in members.split('X=')[0] and only is None:
        # classes whose base is written as an attribute of another class: resolved while the module is being parsed
        for i in range(len(h)):
            for P in subsets(len(h)):
                if len(P) <= 2:
                    tag = ''.join(map(str, P))
                    L.append(f'try:\n    class Via_{i}_{tag}(C{i}.N_{tag}):\n        def who(self): pass\nexcept (AttributeError, NameError):\n    pass')
    return '\n'.join(L) + '\n'


_modcount = itertools.count()


def pyclasses(h: Sequence[Tuple[int, ...]], members: str = '') -> List[Optional[type]]:
    """Execute the class statements with CPython, class by class; a rejected class -> None
    (classes depending on it are skipped: None as well)."""
    name = 'c05oracle_mod'
    mod = types.ModuleType(name)
    sys.modules[name] = mod
    ns = mod.__dict__
    out: List[Optional[type]] = []
    for i in range(len(h)):
        if any(out[x] is None for x in h[i]):
            out.append(None)
            continue
        try:
            exec(source(h, members, only=[i]), ns)
            out.append(ns[f'C{i}'])
        except TypeError:
            out.append(None)
            ns.pop(f'C{i}', None)
    return out


_LOOKUP: List[Any] = []


def _lookup() -> Any:
    if not _LOOKUP:
        from importlib.resources import files
        from pydoctor.templatewriter import TemplateLookup
        _LOOKUP.append(TemplateLookup(files('pydoctor.themes') / 'base'))
    return _LOOKUP[0]


def nontrivial(h: Sequence[Tuple[int, ...]]) -> bool:
    return any(len(b) >= 2 for b in h)


def check_system(s: Any, modname_of: Any, chunk: Sequence[Any], members: str, res: Dict[str, Any], variant: str) -> None:
    from pydoctor import model
    from pydoctor.templatewriter import util
    from pydoctor.templatewriter.pages import get_override_info
    from pydoctor.templatewriter import pages
    from pydoctor.stanutils import flatten
    from pydoctor import epydoc2stan
    mro_msgs = [m for sec, m, t in s.messages if sec == 'mro']
    for idx, h in enumerate(chunk):
        py = pyclasses(h, members)
        res['evals'] += 1
        case = {'kind': 'hier', 'h': [list(b) for b in h], 'members': members, 'variant': variant}
        for ci in range(len(h)):
            full = modname_of(idx, ci) + f'.C{ci}'
            cls = s.allobjects.get(full)
            if not isinstance(cls, model.Class):
                res['violations'].append(core.violation(f'{variant}/class-missing', f'{full} of hierarchy {h} is not documented as a class', case))
                continue
            direct_reject = py[ci] is None and all(py[x] is not None for x in h[ci])
            # a problem is reported "for that class" as <module or file>:<line of the class statement>: ...
            where = f'{cls.module.fullName()}:{cls.linenumber}:'
            reported = any(m.startswith(where) or (':%d:' % cls.linenumber in m and full in m) for m in mro_msgs)
            if direct_reject:
                if not reported:
                    res['violations'].append(core.violation(f'{variant}/inconsistent-not-reported',
                                                            f'CPython rejects C{ci} of {h} (inconsistent MRO) but no mro message names {full}', case))
                continue
            if py[ci] is None:
                continue
            exp = [k.__name__ for k in py[ci].__mro__[:-1] if re.fullmatch(r'C\d+', k.__name__)]
            got = [c.name for c in cls.mro()]
            if got != exp:
                res['violations'].append(core.violation(f'{variant}/mro', f'C{ci} of {h}: Class.mro() = {got}, CPython __mro__ = {exp}', case))
                continue
            if reported:
                res['violations'].append(core.violation(f'{variant}/spurious-mro-report', f'C{ci} of {h} is consistent for CPython but an mro problem is reported', case))
            if not members.split('X=')[0]:
                continue
            names = set()
            for k in py[ci].__mro__[:-1]:
                names |= {n for n in vars(k) if n.startswith(('m_', 'd_', 'e_'))}
            inherited: Dict[str, str] = {}
            twice = False
            for via, attrs in util.class_members(cls):
                for a in attrs:
                    if a.name in inherited:
                        twice = True
                    inherited[a.name] = via[0].name
            if twice:
                res['violations'].append(core.violation(f'{variant}/member-listed-twice', f'C{ci} of {h}: a member appears in two member tables', case))
            for n in sorted(names):
                definer = next(k for k in py[ci].__mro__ if n in vars(k)).__name__
                f = cls.find(n)
                if f is None or f.parent.name != definer:
                    res['violations'].append(core.violation(f'{variant}/find', f'C{ci}.{n} of {h}: find() -> {f and f.parent.name}, attribute lookup finds it in {definer}', case))
                    continue
                expdoc = inspect.getdoc(getattr(py[ci], n))
                gotdoc = epydoc2stan.get_docstring(f)[0] if hasattr(epydoc2stan, 'get_docstring') else model.get_docstring(f)[0]
                if (gotdoc or None) != (expdoc or None):       # an empty docstring is shown as "undocumented" by design, but it ends the search like in CPython
                    # the walk over the definitions along the MRO (first definition that has a docstring, empty or not)
                    walk = next((vars(k)[n].__doc__ for k in py[ci].__mro__ if n in vars(k) and vars(k)[n].__doc__ is not None), None)
                    quirk = '/definition-walk-differs-from-getattr-on-bases' if (gotdoc or None) == (walk or None) else ''
                    res['violations'].append(core.violation(f'{variant}/inherited-doc{quirk}', f'C{ci}.{n} of {h}: docstring {gotdoc!r}, inspect.getdoc gives {expdoc!r}', case))
                if inherited.get(n) != definer:
                    res['violations'].append(core.violation(f'{variant}/member-table', f'C{ci}.{n} of {h}: listed as inherited from {inherited.get(n)}, defined in {definer}', case))
            # the rendered class page: the "Inherited from X" tables list exactly the members attribute lookup finds in X
            if variant.startswith('plain'):
                html = flatten(pages.ClassPage(ob=cls, template_lookup=_lookup()))
                block = html[html.find('id="splitTables"'):html.find('id="childList"')]
                shown = set()
                for part in block.split('class="inheritedFrom"')[1:]:
                    owner = re.search(r'Inherited from <code><a[^>]*title="([^"]+)"', part)
                    for row in re.findall(r'<tr class="base[^"]*">.*?</tr>', part, flags=re.S):
                        t = re.search(r'title="([^"]+)"', row)
                        if owner and t and t.group(1).split('.')[-1].startswith(('m_', 'd_', 'e_')):
                            shown.add((owner.group(1).split('.')[-1], t.group(1).split('.')[-1]))
                want = set()
                for n in names:
                    definer = next(k for k in py[ci].__mro__ if n in vars(k)).__name__
                    if definer != f'C{ci}':
                        want.add((definer, n))
                if shown != want:
                    own = 'no-own-members' if not any(n in vars(py[ci]) for n in names) else 'own-members'
                    res['violations'].append(core.violation(f'{variant}/rendered-inherited-tables/{own}',
                                                            f'page of C{ci} of {h}: inherited tables show {sorted(shown - want)} extra, miss {sorted(want - shown)}', case))
            for n in [x for x in vars(py[ci]) if x.startswith('m_')]:
                nxt = [k.__name__ for k in py[ci].__mro__[1:-1] if n in vars(k)]
                info = flatten(list(get_override_info(cls, n)))
                m = re.search(r'overrides <code><a[^>]*>([^<]+)</a>', info)
                got_o = m.group(1).split('.')[-2] if m else None
                if (nxt[0] if nxt else None) != got_o:
                    res['violations'].append(core.violation(f'{variant}/overrides-note', f'C{ci}.{n} of {h}: note says overrides {got_o}, next definer along __mro__ is {nxt[:1]}', case))
        if 'N' in members.split('X=')[0] and all(c is not None for c in py):
            for ci in range(len(h)):
                for P in subsets(len(h)):
                    if len(P) > 2:
                        continue
                    tag = ''.join(map(str, P))
                    nested = getattr(py[ci], f'N_{tag}', None)
                    via = s.allobjects.get(modname_of(idx, ci) + f'.Via_{ci}_{tag}')
                    if nested is None:
                        continue          # attribute lookup fails in CPython: the class statement is skipped there
                    definer = nested.__qualname__.split('.')[0]
                    if via is None:
                        res['violations'].append(core.violation(f'{variant}/base-through-class-attribute/missing', f'Via_{ci}_{tag} of {h} is not documented', case))
                        continue
                    bo = via.baseobjects[0] if via.baseobjects else None
                    got_definer = bo.parent.name if bo is not None and bo.parent is not None else None
                    if got_definer != definer:
                        res['violations'].append(core.violation(f'{variant}/base-through-class-attribute/definer',
                                                                f'class Via_{ci}_{tag}(C{ci}.N_{tag}) of {h}: base resolved in {got_definer}, attribute lookup finds it in {definer}', case))
        sys.modules.pop('c05oracle_mod', None)


def run_chunk(chunk: Sequence[Any], members: str, generic: bool, res: Dict[str, Any]) -> None:
    s = pd.new_system(systemcls=pd.RecordingSystem)
    b = s.systemBuilder(s)
    b.addModuleString('', 'pk', is_package=True)
    for i, h in enumerate(chunk):
        b.addModuleString(source(h, members, generic), f'h{i}', 'pk')
    b.buildModules()
    variant = ('generic' if generic else 'plain') + ('+members' if members else '')
    check_system(s, lambda idx, ci: f'pk.h{idx}', chunk, members, res, variant)


# ---- placements over modules

def placements(n: int, nmods: int) -> Iterator[Tuple[int, ...]]:
    """non-decreasing assignment of classes to modules (so that imports are acyclic), each module used"""
    for assign in itertools.product(range(nmods), repeat=n):
        if list(assign) == sorted(assign) and len(set(assign)) == nmods:
            yield assign


MODNAMES = ['ma', 'mb', 'mc']


def placed_sources(h: Sequence[Tuple[int, ...]], assign: Sequence[int], style: str) -> Dict[str, str]:
    srcs: Dict[str, List[str]] = {}
    for m in sorted(set(assign)):
        mine = [i for i in range(len(h)) if assign[i] == m]
        needed = sorted({b for i in mine for b in h[i] if assign[b] != m})
        head: List[str] = []
        for b in needed:
            bm = MODNAMES[assign[b]]
            if style.startswith('from'):
                head.append(f'from .{bm} import C{b}')
            elif style.startswith('attr'):
                head.append(f'from . import {bm}')
            else:
                head.append(f'from pk.{bm} import *')
        body = []
        for i in mine:
            bl = []
            for b in h[i]:
                if assign[b] != m and style.startswith('attrsub'):
                    bl.append(f'{MODNAMES[assign[b]]}.C{b}[int]')      # a subscripted (generic) base written as a dotted name
                elif assign[b] != m and style.startswith('attr'):
                    bl.append(f'{MODNAMES[assign[b]]}.C{b}')
                else:
                    bl.append(f'C{b}')
            body.append((f'class C{i}({", ".join(bl)}):' if bl else f'class C{i}:') + '\n    pass')
        srcs[MODNAMES[m]] = '\n'.join(dict.fromkeys(head)) + '\n' + '\n'.join(body) + '\n'
    if style.endswith('+cycle'):
        # a valid import cycle: the module of the base classes imports (as a module) the module of the derived classes first
        first, last = MODNAMES[min(assign)], MODNAMES[max(assign)]
        srcs[first] = f'from pk import {last} as later_\n' + srcs[first]
    if style.endswith('+chain'):
        # a chain of import cycles: every module first imports (plainly) the next one, so that analysing the module of the base classes
        # analyses the modules of the derived classes while their bases do not exist yet - bases are resolved in a later pass, several levels deep
        used = [MODNAMES[m] for m in sorted(set(assign))]
        for a, b_ in zip(used, used[1:]):
            srcs[a] = f'import pk.{b_}\n' + srcs[a]
    return srcs


def run_placed(h: Sequence[Tuple[int, ...]], assign: Sequence[int], style: str, order: Sequence[str], res: Dict[str, Any]) -> None:
    srcs = placed_sources(h, assign, style)
    s = pd.new_system(systemcls=pd.RecordingSystem)
    b = s.systemBuilder(s)
    b.addModuleString('', 'pk', is_package=True)
    for m in order:
        b.addModuleString(srcs[m], m, 'pk')
    b.buildModules()
    st, tr = pd.processing_graph(s.trace)
    check_system(s, lambda idx, ci: f'pk.{MODNAMES[assign[ci]]}', [h], '', res, f'placed-{style}')
    for v in res['violations']:
        if v['case'].get('variant', '').startswith('placed') and 'assign' not in v['case']:
            v['case'].update({'assign': list(assign), 'style': style, 'order': list(order)})


# ---- a hidden definition still masks what lies behind it

def run_hidden(n: int, res: Dict[str, Any]) -> None:
    """For every hierarchy <= n classes with the member family m_P and every (class j, member) made HIDDEN: the inherited-member
    tables of the other classes must never attribute the member to a class other than the one attribute lookup finds at run time
    (it may be absent when that definer is the hidden one)."""
    from pydoctor.templatewriter import util
    for k in range(2, n + 1):
        for h in hierarchies(k):
            if not any(h):
                continue
            py = pyclasses(h, 'm')
            if any(c is None for c in py):
                sys.modules.pop('c05oracle_mod', None)
                continue
            for j in range(k):
                own = [nm for nm in vars(py[j]) if nm.startswith('m_')]
                for nm in own:
                    s = pd.new_system({'privacy': [_hidden_rule(f'pk.h0.C{j}.{nm}')]}, systemcls=pd.RecordingSystem)
                    b = s.systemBuilder(s)
                    b.addModuleString('', 'pk', is_package=True)
                    b.addModuleString(source(h, 'm'), 'h0', 'pk')
                    b.buildModules()
                    res['evals'] += 1
                    res['nontrivial'].add(core.h('hidden', h, j, nm))
                    for ci in range(k):
                        cls = s.allobjects[f'pk.h0.C{ci}']
                        definer = next((kl.__name__ for kl in py[ci].__mro__ if nm in vars(kl)), None)
                        if definer is None:
                            continue
                        listed = [via[0].name for via, attrs in util.class_members(cls) for a in attrs if a.name == nm]
                        for where in listed:
                            if where != definer:
                                res['violations'].append(core.violation('hidden-definer/member-table', f'C{ci}.{nm} of {h} with C{j}.{nm} hidden: listed as coming from {where}, attribute lookup finds it in {definer}',
                                                                        {'kind': 'hidden', 'h': [list(x) for x in h], 'j': j, 'name': nm}))
            sys.modules.pop('c05oracle_mod', None)


def run_hidden_docs(n: int, res: Dict[str, Any]) -> None:
    """For every hierarchy <= n classes with the member families m_P / d_{P,j} and every class j made HIDDEN as a whole (and every documented
    definition made HIDDEN on its own): a member of another class that has no docstring still inherits the docstring attribute lookup along the
    linearisation yields at run time - hiding an object takes it off the pages, not out of the program."""
    from pydoctor import epydoc2stan
    for k in range(2, n + 1):
        for h in hierarchies(k):
            if not any(h):
                continue
            py = pyclasses(h, 'md')
            if any(c is None for c in py):
                sys.modules.pop('c05oracle_mod', None)
                continue
            targets = [f'pk.h0.C{j}' for j in range(k)]
            for j in range(k):
                targets += [f'pk.h0.C{j}.{nm}' for nm in vars(py[j]) if nm.startswith('d_') and vars(py[j])[nm].__doc__]
            for tname in targets:
                s = pd.new_system({'privacy': [_hidden_rule(tname)]}, systemcls=pd.RecordingSystem)
                b = s.systemBuilder(s)
                b.addModuleString('', 'pk', is_package=True)
                b.addModuleString(source(h, 'md'), 'h0', 'pk')
                b.buildModules()
                res['evals'] += 1
                res['nontrivial'].add(core.h('hidden-docs', h, tname))
                for ci in range(k):
                    cls = s.allobjects[f'pk.h0.C{ci}']
                    if not cls.isVisible:
                        continue
                    for nm, member in cls.contents.items():
                        if not nm.startswith(('m_', 'd_')) or not member.isVisible:
                            continue
                        expdoc = inspect.getdoc(getattr(py[ci], nm))
                        from pydoctor import model as _m
                        gotdoc = epydoc2stan.get_docstring(member)[0] if hasattr(epydoc2stan, 'get_docstring') else _m.get_docstring(member)[0]
                        if (gotdoc or None) != (expdoc or None):
                            what = 'class' if tname.count('.') == 2 else 'member'
                            res['violations'].append(core.violation(f'hidden-definer/inherited-doc/{what}-hidden', f'C{ci}.{nm} of {h} with {tname} hidden: docstring {gotdoc!r}, attribute lookup yields {expdoc!r}',
                                                                    {'kind': 'hidden-docs', 'h': [list(x) for x in h], 'target': tname}))
                            break
            sys.modules.pop('c05oracle_mod', None)


def _hidden_rule(name: str) -> Any:
    from pydoctor.utils import parse_privacy_tuple
    return parse_privacy_tuple(f'HIDDEN:{name}', '--privacy')


# ---- mro.mro level

def mro_level(prefix: Sequence[Tuple[int, ...]], n: int, res: Dict[str, Any]) -> None:
    from pydoctor import mro as pmro
    k = len(prefix)
    rest = [ordered_subsets(i) for i in range(k, n)]
    # CPython classes for the prefix
    pyc: List[Optional[type]] = []
    for i, bases in enumerate(prefix):
        if any(pyc[b] is None for b in bases):
            pyc.append(None)
            continue
        try:
            pyc.append(type(f'C{i}', tuple(pyc[b] for b in bases), {}))
        except TypeError:
            pyc.append(None)
    for tail in itertools.product(*rest):
        h = tuple(prefix) + tail
        res['evals'] += 1
        pc = list(pyc)
        for i in range(k, n):
            bases = h[i]
            if any(pc[b] is None for b in bases):
                pc.append(None)
                continue
            try:
                pc.append(type(f'C{i}', tuple(pc[b] for b in bases), {}))
            except TypeError:
                pc.append(None)
        getb = lambda i: [b + 1 for b in h[i - 1]]  # noqa: E731  (labels 1..n: truthy)
        for i in range(k, n):       # classes of the prefix were judged by the job that owns the shorter sequence
            if any(pc[b] is None for b in h[i]):
                continue
            try:
                got: Optional[List[int]] = pmro.mro(i + 1, getb)
            except ValueError:
                got = None
            if pc[i] is None:
                if got is not None:
                    res['violations'].append(core.violation('mro-level/accepts-inconsistent', f'CPython rejects class {i} of {h}; mro.mro returns {got}',
                                                            {'kind': 'mro-level', 'h': [list(b) for b in h]}))
            else:
                exp = [int(kls.__name__[1:]) + 1 for kls in pc[i].__mro__[:-1]]
                if got != exp:
                    res['violations'].append(core.violation('mro-level/mro', f'class {i} of {h}: mro.mro = {got}, CPython = {exp}',
                                                            {'kind': 'mro-level', 'h': [list(b) for b in h]}))
        if nontrivial(h):
            res['nontrivial_count'] += 1


# ---- jobs

def jobs(tier: str) -> Iterable[Tuple[str, Any]]:
    # (1) full path, all five-class sequences, 200 per System
    allh5 = 10400
    for start in range(0, allh5, 200):
        yield ('full-path:classes<=5', ('full', 5, start, 200, '', False))
    # (2) member families on <= 4 classes
    for n in (1, 2, 3):
        yield (f'members:classes<={n}', ('full', n, 0, 10 ** 9, 'mde', False))
    for start in range(0, 160, 10):
        yield ('members:classes<=4', ('full', 4, start, 10, 'md', False))
    for start in range(0, 160, 10):
        yield ('members-empty-doc:classes<=4', ('full', 4, start, 10, 'e', False))
    # classes that define nothing themselves (every non-empty choice of them), and parse-time lookups of inherited members
    for n in (2, 3, 4):
        for mask in subsets(n):
            yield (f'members-bare-classes:classes<={n}', ('full', n, 0, 10 ** 9, 'mB=' + ''.join(map(str, mask)), False))
    for start in range(0, 160, 20):
        yield ('members-parse-time-lookups:classes<=4', ('full', 4, start, 20, 'mP', False))
    yield ('members-parse-time-lookups:classes<=3', ('full', 3, 0, 10 ** 9, 'mdP', False))
    for start in range(0, 160, 20):
        yield ('bases-through-class-attributes:classes<=4', ('full', 4, start, 20, 'N', False))
    yield ('bases-through-class-attributes:classes<=3', ('full', 3, 0, 10 ** 9, 'N', False))
    # ... and through a class with ONE base that sits on top of each four-class hierarchy (nothing to merge at its own level)
    for start in range(0, 160, 20):
        yield ('bases-through-class-attributes:single-base-on-top', ('single-on-top', start, 20))
    # (3) generic-subscripted bases
    for start in range(0, 160, 40):
        yield ('generic:classes<=4', ('full', 4, start, 40, '', True))
    # (4) placements
    for style in ('from', 'attr', 'attrsub', 'star', 'from+cycle', 'attr+cycle'):
        yield ('placed:classes<=3x2mods', ('placed', 3, 2, style))
        yield ('placed:classes<=4x2mods', ('placed', 4, 2, style))
    for style in ('from+chain', 'attr+chain'):
        yield ('placed:classes<=3x3mods:chain', ('placed', 3, 3, style))
        yield ('placed:classes<=4x3mods:chain', ('placed', 4, 3, style))
        yield ('placed:classes<=4x2mods:chain', ('placed', 4, 2, style))
    for start in range(0, 160, 20):
        yield ('placed:classes<=5x2mods:cycle', ('placed5', start, 20))
    for n in (2, 3):
        yield (f'undocumented-bases:classes<={n}', ('external', n))
    yield ('hidden-definer:classes<=3', ('hidden', 3))
    yield ('hidden-definer-docs:classes<=3', ('hidden-docs', 3))
    # (5) mro.mro level, five classes (prefix = first 3 classes)
    for p in hierarchies(3):
        yield ('mro-level:classes<=5', ('mro', [list(b) for b in p], 5))
    if tier == 'thorough':
        for p in hierarchies(4):
            yield ('mro-level:classes<=6', ('mro', [list(b) for b in p], 6))
        for start in range(0, allh5, 50):
            yield ('members-m:classes<=5', ('full', 5, start, 50, 'm', False))
        for start in range(0, allh5, 400):
            yield ('generic:classes<=5', ('full', 5, start, 400, '', True))
        for style in ('from', 'attr', 'star'):
            yield ('placed:classes<=4x3mods', ('placed', 4, 3, style))


def run_job(job: Any, tier: str) -> Dict[str, Any]:
    res = core.result()
    if job[0] == 'full':
        _, n, start, count, members, generic = job
        chunk = list(itertools.islice(hierarchies(n), start, start + count))
        run_chunk(chunk, members, generic, res)
        for h in chunk:
            if nontrivial(h) or members:
                res['nontrivial'].add(core.h(h, members, generic))
            # definition-sequence state graph
            for i in range(len(h)):
                res['states'].add(core.h(h[:i])); res['states'].add(core.h(h[:i + 1]))
                res['transitions'].add(core.h(h[:i], h[i]))
        res['traces'] += len(chunk)
        if chunk:
            res['samples'].append({'hierarchy': [list(b) for b in chunk[len(chunk) // 2]], 'members': members, 'generic': generic,
                                   'source': source(chunk[len(chunk) // 2], '', generic)})
        core.bump(res, 'hierarchies_full_path', len(chunk))
    elif job[0] == 'placed':
        _, n, nmods, style = job
        cnt = 0
        for h in hierarchies(n):
            if not any(h):
                continue
            for assign in placements(n, nmods):
                if not any(assign[b] != assign[i] for i in range(n) for b in h[i]):
                    continue      # no cross-module base
                mods = [MODNAMES[m] for m in sorted(set(assign))]
                for order in itertools.permutations(mods):
                    run_placed(h, assign, style, order, res)
                    cnt += 1
                    res['nontrivial'].add(core.h(h, assign, style, order))
                    res['traces'] += 1
        if cnt:
            res['samples'].append({'placement_style': style, 'classes': n, 'modules': nmods, 'executions': cnt})
        core.bump(res, 'placed_executions', cnt)
    elif job[0] == 'placed5':
        # five-class hierarchies whose first four classes form every 4-class hierarchy with a diamond, split 2+3 over two cyclic modules
        _, start, count = job
        cnt = 0
        for h4 in itertools.islice(hierarchies(4), start, start + count):
            for b5 in ordered_subsets(4):
                if len(b5) < 2:
                    continue
                h = tuple(h4) + (b5,)
                for assign in ((0, 0, 0, 1, 1), (0, 0, 1, 1, 1)):
                    if not any(assign[b] != assign[i] for i in range(5) for b in h[i]):
                        continue
                    for order in (('ma', 'mb'), ('mb', 'ma')):
                        run_placed(h, assign, 'from+cycle', order, res)
                        cnt += 1
                        res['traces'] += 1
                        res['nontrivial'].add(core.h(h, assign, order, 'c5'))
        core.bump(res, 'placed_executions', cnt)
    elif job[0] == 'single-on-top':
        chunk = [tuple(h4) + ((3,),) for h4 in itertools.islice(hierarchies(4), job[1], job[1] + job[2])]
        run_chunk(chunk, 'N', False, res)
        for h in chunk:
            res['nontrivial'].add(core.h(h, 'N-top'))
        res['traces'] += len(chunk)
    elif job[0] == 'external':
        n = job[1]
        specs = []
        for h in hierarchies(n):
            per_class = []
            for i in range(n):
                opts = [None] + [(pos, nm) for pos in range(len(h[i]) + 1) for nm in ('Exception',)]      # one and the same undocumented base everywhere: what it inherits from is beyond static knowledge, its own position is not
                per_class.append(opts)
            for combo in itertools.product(*per_class):
                if not any(combo):
                    continue
                spec = 'X=' + ','.join(f'{i}:{c[0]}:{c[1]}' for i, c in enumerate(combo) if c)
                specs.append((h, spec))
        # one System per spec shape would be slow: group hierarchies by spec text
        for h, spec in specs:
            run_chunk([h], spec, False, res)
            res['nontrivial'].add(core.h('external', h, spec))
        core.bump(res, 'hierarchies_with_undocumented_bases', len(specs))
    elif job[0] == 'hidden':
        run_hidden(job[1], res)
    elif job[0] == 'hidden-docs':
        run_hidden_docs(job[1], res)
    elif job[0] == 'mro':
        _, prefix, n = job
        mro_level([tuple(b) for b in prefix], n, res)
        core.bump(res, 'hierarchies_mro_level', res['evals'])
    return res


def replay(case: Dict[str, Any]) -> List[Dict[str, Any]]:
    res = core.result()
    h = tuple(tuple(b) for b in case['h'])
    if case['kind'] == 'mro-level':
        mro_level(h[:-1] if len(h) > 1 else (), len(h), res)
        want = [list(b) for b in h]
        return [v for v in res['violations'] if v['case']['h'] == want]
    v = case.get('variant', 'plain')
    if case['kind'] == 'hidden':
        run_hidden(len(h), res)
        return [x for x in res['violations'] if x['case'] == case]
    if case['kind'] == 'hidden-docs':
        run_hidden_docs(len(h), res)
        return [x for x in res['violations'] if x['case'] == case]
    if v.startswith('placed'):
        run_placed(h, case['assign'], case['style'], case['order'], res)
    else:
        run_chunk([h], case.get('members', ''), v.startswith('generic'), res)
    return res['violations']
