"""C15 - a displayed value or expression means the same as the source expression.

(a) every expression tree of depth 2: parent form x child position x child form (thorough: depth 3);
(b) every operator chain of depth 3 over unary/binary/boolean/comparison/conditional operators, all positions;
(c) every literal-leaf kind;
(d) block renderer: values x line length x max lines -> truncation must be marked;
(e) conformance of the seam: the same expressions through a real module (constant value, default, annotation, decorator, base).
Oracle: ast.parse(shown text) == source AST modulo the documented respellings (set literal <-> set([...]),
quote style, numeric formatting).
"""
from __future__ import annotations

import ast
import itertools
import re
from typing import Any, Callable, Dict, Iterable, Iterator, List, Optional, Sequence, Tuple

from mc import core, pd

ID = 'C15'
LEVEL = 'exploration'
RULE = ('expression trees enumerated from a form alphabet (4 unary, 13 binary, boolean, comparison, conditional, lambda, calls, attribute, '
        'subscripts, containers, starred, named, f-string, comprehensions, await/yield) - every parent x position x child (depth 2), every '
        'operator chain of depth 3, every literal kind, values x linelen x maxlines; sources are canonicalised with ast.unparse so CPython\'s '
        'grouping is ground truth; a case is non-trivial when the canonical source needs at least one parenthesis/bracket or is a literal; '
        'distinct = distinct canonical source x setting')
ASSUMPTIONS = [
    'CPython ast.parse/ast.unparse is the oracle for grouping and values',
    'documented respellings are normalised on both sides: set display vs set([...]), quote style, numeric formatting (compared by value)',
]
FLOOR = {'quick': 10000, 'thorough': 100000}
SPACE = {'quick': 'depth-2 trees (all forms x positions x forms); operator chains depth 3; 60 literal leaves; 53 values x 5 line lengths x 4 max-lines; seam conformance on 60 expressions',
         'thorough': 'quick + all depth-3 trees (parent x pos x child x pos x grandchild)'}

UN = ['-', '+', 'not ', '~']
BIN = ['+', '-', '*', '/', '//', '%', '**', '<<', '>>', '|', '^', '&', '@']


def forms() -> List[Tuple[str, int, Callable[..., str]]]:
    F: List[Tuple[str, int, Callable[..., str]]] = []
    for op in UN:
        F.append((f'un{op.strip()}', 1, lambda x, op=op: f'{op}({x})'))
    for op in BIN:
        F.append((f'bin{op}', 2, lambda x, y, op=op: f'({x}) {op} ({y})'))
    for op in ['and', 'or']:
        F.append((f'bool{op}', 2, lambda x, y, op=op: f'({x}) {op} ({y})'))
    F.append(('bool3and', 3, lambda x, y, z: f'({x}) and ({y}) and ({z})'))
    for op in ['<', '==', 'in', 'is not']:
        F.append((f'cmp{op}', 2, lambda x, y, op=op: f'({x}) {op} ({y})'))
    F.append(('cmpchain', 3, lambda x, y, z: f'({x}) < ({y}) <= ({z})'))
    F.append(('ifexp', 3, lambda x, y, z: f'({x}) if ({y}) else ({z})'))
    F.append(('lambda', 1, lambda x: f'lambda q: ({x})'))
    F.append(('lambdadef', 1, lambda x: f'lambda q=({x}): q'))
    F.append(('call1', 2, lambda f, x: f'({f})(({x}))'))
    F.append(('call2', 3, lambda f, x, y: f'({f})(({x}), ({y}))'))
    F.append(('callkw', 2, lambda f, x: f'({f})(k=({x}))'))
    F.append(('callstar', 2, lambda f, x: f'({f})(*({x}))'))
    F.append(('callss', 2, lambda f, x: f'({f})(**({x}))'))
    F.append(('attr', 1, lambda x: f'({x}).at'))
    F.append(('sub', 2, lambda x, y: f'({x})[({y})]'))
    F.append(('slice', 3, lambda x, y, z: f'({x})[({y}):({z})]'))
    F.append(('slice3', 3, lambda x, y, z: f'q[({x}):({y}):({z})]'))
    F.append(('subtuple', 3, lambda x, y, z: f'({x})[({y}),({z})]'))
    F.append(('subslices', 2, lambda x, y: f'q[({x}):, :({y})]'))
    F.append(('list', 2, lambda x, y: f'[({x}),({y})]'))
    F.append(('list1', 1, lambda x: f'[({x})]'))
    F.append(('tuple0', 0, lambda: '()'))
    F.append(('tuple1', 1, lambda x: f'(({x}),)'))
    F.append(('tuple2', 2, lambda x, y: f'(({x}),({y}))'))
    F.append(('set', 2, lambda x, y: '{(%s),(%s)}' % (x, y)))
    F.append(('dict', 2, lambda x, y: '{(%s):(%s)}' % (x, y)))
    F.append(('dictss', 1, lambda x: '{**(%s)}' % x))
    F.append(('starlist', 1, lambda x: f'[*({x})]'))
    F.append(('startuple', 1, lambda x: f'(*({x}),)'))
    F.append(('walrus', 1, lambda x: f'(w := ({x}))'))
    F.append(('fstr', 1, lambda x: 'f"p{(%s)}s"' % x))
    F.append(('listcomp', 2, lambda x, y: f'[({x}) for i in ({y})]'))
    F.append(('listcompif', 2, lambda x, y: f'[i for i in ({x}) if ({y})]'))
    F.append(('genexp', 2, lambda x, y: f'(({x}) for i in ({y}))'))
    F.append(('dictcomp', 2, lambda x, y: '{(%s): (%s) for i in j}' % (x, y)))
    F.append(('await', 1, lambda x: f'await ({x})'))
    F.append(('yield', 1, lambda x: f'(yield ({x}))'))
    return F


FORMS = forms()
OPS = [('u', o) for o in UN] + [('b', o) for o in BIN] + [('l', o) for o in ['and', 'or']] + [('c', '<'), ('c', 'is not'), ('i', 'if')]


def op_apply(op: Tuple[str, str], args: Sequence[str]) -> str:
    k, o = op
    if k == 'u':
        return f'{o}({args[0]})'
    if k in 'blc':
        return f'({args[0]}) {o} ({args[1]})'
    return f'({args[0]}) if ({args[1]}) else ({args[2]})'


def op_arity(op: Tuple[str, str]) -> int:
    return {'u': 1, 'b': 2, 'l': 2, 'c': 2, 'i': 3}[op[0]]


LEAVES = [
    '0', '1', '-1', '10**30', '123456789012345678901234567890', '0x10', '0o17', '0b101', '1_000', '1.5', '-0.0', '1e10', '1e-7', '1e999', '1.0e100',
    '1j', '-2.5j', '1+2j', "''", "'s'", '"it\'s"', '\'say "hi"\'', '\'both \\\' and "\'', "'a\\nb'", "'tab\\there'", "'back\\\\slash'", "'nul\\x00'", "'\\x1b[0m'",
    "'é'", "'\\U0001F600'", "'\\udc80'", "'%s %d'", "'{}'", "r'\\d+'", "'a' 'b'", "'''multi\nline'''", "b''", "b'bytes'", "b'\\xff\\x00'", "b'it\\'s'", 'b"\\n"',
    '...', 'True', 'False', 'None', 'NotImplemented', 'a', 'a.b', 'a.b.c', '__name__', 'é', '(1,)', '()', '[]', '{}', '{1}', 'set()', '[()]', '((),)', '1,', '1, 2',
    # one str per Unicode general category that is not plain printable ASCII, the whole Latin-1 range at once, every byte value
    "'\\u200b'", "'a\\u202eb'", "'\\ufeff'", "'\\xad'", "'\\u2028'", "'\\u2029'", "'\\xa0'", "'\\u3000'", "'e\\u0301'", "'\\ue000'", "'\\u0378'", "'\\u4e2d'", "'\\u2603'",
    "'\\x7f\\x80\\x9f'", "'\\U000e0001'", "'\\U0010ffff'", repr(''.join(map(chr, range(256)))), repr(bytes(range(256))), "'\\u200b' + b'\\xe2\\x80\\x8b'.decode()",
    # regular expressions are shown as re.compile(r'...'); one-element tuple subscripts; overflowing complex literals
    "re.compile('x', **kw)", 're.compile("it\'s")', "re.compile('(?i)x')", "re.compile('x', re.I)", "re.compile(pat)", "re.compile('a\\\\d+')", "re.compile(b'x')", "re.compile('x', flags=re.X | re.I)",
    "re.compile(r'''a'b\"c''')", 'table[1,]', 'a[(1, 2),]', 'a[()]', '1e999j', '-1e999', 'a[1,][0]',
    # values that only fit on one line by being cut (shown through the source-code fallback, with a line break inside a string)
    "f'a\\n{b}'", "f'name{SEP}value\\n{SEP}\\n'", "'x\\ny' if a else b", "lambda: 'a\\nb'", "a < 'x\\ny'", "[c for c in 'a\\nb']", "[f'{SEP}\\n{SEP}', 1]",
    "lambda: 'a long string with newline\\n and more text following here'", "a == 'a long string with newline\\n and more text following here'", "f'{a}\\n' + 'b\\nc'", "(f'x\\n{y}', 2)", "g(f'x\\n{y}')",
    '-(1)', '- 1', '--1', '-(-1)', 'not not a', '~-1', '(-1)**2', '-1**2', '2**-1', '(1+2j).real', '1 .real', '1.5.real', "''.join", '[1][0]', '(1, 2)[0]', '{1: 2}[1]',
]

TRUNC_VALUES = [
    '[1, 2, 3, 4, 5, 6, 7, 8, 9, 10]', '"abcdefghij klmnop qrstuv wxyz"', '{"a": [1,2,3], "b": (4,5,6), "c": {7,8,9}}', 'f(aaaa, bbbb, cccc, k=dddd)',
    '"line1\\nline2\\nline3\\nline4"', '[[1,2],[3,4],[5,6],[7,8]]', 'a.b.c.d.e.f.g.h.i.j', '1', 'b"bytes\\nmore"', '(aaaa + bbbb) * cccc - dddd',
    '[x for x in range(100) if x % 2]', '(1,)', '()', '(aaaa, bbbb, cccc, dddd, eeee)', '{1, 2, 3, 4, 5, 6, 7, 8}', '{}', '[]', '-1', 'None', "''",
    '123456789012345678901234567890', 'lambda x, y=1, *a, **k: (x, y)', 'a if bbbbbbbb else cccccccc', 'not aaaaaaaaaaaa', 'aaaa and bbbb or cccc and dddd',
    'a[1:2, ::3]', 'f"{a!r:>{w}}"', 'x.y(z)(w)[0].v', '{**a, "k": [1, 2, 3], **b}', '[*a, *b, 1, 2, 3, 4]', "'\\n'.join([str(i) for i in range(10)])",
    '1.5e300 * 2', '"a" "b" "c"', 'b"\\x00\\x01\\x02\\x03\\x04\\x05\\x06\\x07\\x08"', '((((1, 2), 3), 4), 5)', '{"k": {"k": {"k": {"k": 1}}}}', 'a < b <= c != d',
    'a @ b @ c', 'await x', 're.compile("abc")',
    # escapes next to real line breaks: a backslash followed by n / t / a quote is text, a real newline is a line break
    r"'C:\\new\\table'", r"rb'\n+'", r"'a\nb\\n'", r"'\\n'", r"b'a\nb\\nc'", r"'tab\there\nnew\\tline'", r"['x\\ny', 'aaaaaaaaaaaaaaaaaaaaaaaaaaaaaaaaaaaaaaaaaaaaaaaaaaaaaaaaaaaaaaaaaaaaaaaaaaaaaaaaaa']",
    r'''"quote\"s and \\\" and '\n"''', r"'''x\ny''' + 'z\\n'", r"{'k\\n': 'v\nw'}", r"'\r\n\\r\\n'", r"'ends with backslash\\'", r"'\\' 'n'",
]
LINELENS = [0, 5, 10, 20, 80]
MAXLINES = [0, 1, 2, 7]


# ---------------------------------------------------------------- oracle

class _SetNorm(ast.NodeTransformer):
    def visit_Call(self, n: ast.Call) -> Any:
        self.generic_visit(n)
        if isinstance(n.func, ast.Name) and n.func.id == 'set' and len(n.args) == 1 and isinstance(n.args[0], ast.List) and not n.keywords:
            return ast.Set(elts=n.args[0].elts)
        return n

    def visit_Constant(self, n: ast.Constant) -> Any:
        return n


class _ReNorm(ast.NodeTransformer):
    """re.compile(...) is shown as a raw-string pattern re-generated from the parsed regex (pinned by the repository's tests): patterns are compared
    as regexes as far as that is decidable here - a quote may be written escaped, the default 'u' flag may be spelt out - and 'flags' may be positional"""
    def visit_Call(self, n: ast.Call) -> Any:
        self.generic_visit(n)
        if isinstance(n.func, ast.Attribute) and n.func.attr == 'compile' and isinstance(n.func.value, ast.Name) and n.func.value.id == 're':
            args = list(n.args)
            kws = {k.arg: k.value for k in n.keywords if k.arg}
            if len(args) == 0 and 'pattern' in kws:
                args.append(kws.pop('pattern'))
            if len(args) == 1 and 'flags' in kws:
                args.append(kws.pop('flags'))
            if args and isinstance(args[0], ast.Constant) and isinstance(args[0].value, (str, bytes)):
                v = args[0].value
                if isinstance(v, str):
                    v = re.sub(r'\\([\'"])', r'\1', v)
                    v = re.sub(r'^\(\?([a-zA-Z]*)\)', lambda m: ('(?%s)' % ''.join(sorted(set(m.group(1)) - {'u'}))) if set(m.group(1)) - {'u'} else '', v)
                else:
                    v = re.sub(rb'\\([\'"])', rb'\1', v)
                args[0] = ast.Constant(value=v)
            if not any(k.arg is None for k in n.keywords):
                n = ast.Call(func=n.func, args=args, keywords=[ast.keyword(arg=k, value=val) for k, val in kws.items()])
        return n


def norm(e: ast.AST) -> str:
    return ast.dump(_ReNorm().visit(_SetNorm().visit(ast.parse(ast.unparse(e), mode='eval').body)))


_MARKED = [False]


def shown(e: ast.expr) -> str:
    from pydoctor.epydoc.markup._pyval_repr import colorize_inline_pyval
    from pydoctor import node2stan
    from docutils import nodes
    doc = colorize_inline_pyval(e).to_node()
    # the visible mark of a cut value: an inline of class variable-ellipsis (or variable-linewrap) in the rendered tree
    _MARKED[0] = any('variable-ellipsis' in n.get('classes', []) for n in doc.findall(nodes.inline))
    return ''.join(node2stan.gettext(doc))


def tname(n: ast.AST) -> str:
    t = type(n).__name__
    if isinstance(n, (ast.Tuple, ast.List, ast.Set)):
        k = len(n.elts)
        t += '[%s]' % (k if k < 2 else '2+')
    if isinstance(n, ast.BinOp):
        t += ':Pow' if isinstance(n.op, ast.Pow) else ''
    if isinstance(n, ast.Constant):
        t += ':' + type(n.value).__name__
    if isinstance(n, ast.Slice):
        parts = sorted({type(getattr(n, f)).__name__ for f in ('lower', 'upper', 'step')
                        if getattr(n, f) is not None and not isinstance(getattr(n, f), (ast.Name, ast.Constant))})
        t += '(' + ','.join(parts) + ')'
    if isinstance(n, ast.Tuple) and any(isinstance(x, ast.Slice) for x in n.elts):
        t += '(Slice)'
    return t


def verdict(e: ast.expr) -> Optional[Tuple[str, str]]:
    """None if the shown text means the same; else (clause, shown text)."""
    try:
        t = shown(e)
    except Exception as ex:  # noqa
        return (f'raises:{type(ex).__name__}', '')
    marked = _MARKED[0]
    try:
        back = ast.parse(t.strip(), mode='eval').body
    except (SyntaxError, ValueError):
        if marked and t.rstrip().endswith('...'):
            return None         # cut (a one-line display of a value that needs several lines) and visibly marked as cut: the statement's own escape
        return ('unparsable', t)
    if norm(back) != norm(e):
        if marked and t.rstrip().endswith('...'):
            return None
        return ('meaning', t)
    return None


def subexprs(e: ast.AST) -> Iterator[ast.expr]:
    for n in ast.walk(e):
        if isinstance(n, ast.expr) and not isinstance(n, (ast.Starred, ast.Slice)) and not (isinstance(n, ast.Name) and isinstance(getattr(n, 'ctx', None), ast.Store)):
            yield n


def standalone(n: ast.expr) -> Optional[ast.expr]:
    try:
        return ast.parse(ast.unparse(n), mode='eval').body
    except (SyntaxError, ValueError):
        return None


def signature(e: ast.expr, clause: str) -> str:
    """(clause, root type of the smallest failing sub-expression, essential child field/type)."""
    best = e
    best_size = sum(1 for _ in ast.walk(e))
    for sub in subexprs(e):
        s = standalone(sub)
        if s is None:
            continue
        size = sum(1 for _ in ast.walk(s))
        if size < best_size:
            v = verdict(s)
            if v and v[0] == clause:
                best, best_size = s, size
    # which direct children are essential?
    essential: List[str] = []
    for field, value in ast.iter_fields(best):
        items = value if isinstance(value, list) else [value]
        for idx, child in enumerate(items):
            if not isinstance(child, ast.AST):
                continue
            targets = [child] if isinstance(child, ast.expr) and not isinstance(child, ast.Starred) else \
                      [c for c in ast.iter_child_nodes(child) if isinstance(c, ast.expr)]
            for tchild in targets:
                if isinstance(tchild, (ast.Name, ast.Constant)):
                    continue
                clone = ast.parse(ast.unparse(best), mode='eval').body
                # locate the same child in the clone by position
                cval = getattr(clone, field)
                cchild = (cval[idx] if isinstance(cval, list) else cval)
                if cchild is None:
                    continue
                if tchild is child:
                    repl_parent, repl_field, repl_idx = clone, field, (idx if isinstance(cval, list) else None)
                    new = ast.Name(id='zz', ctx=ast.Load())
                    if repl_idx is None:
                        setattr(repl_parent, repl_field, new)
                    else:
                        getattr(repl_parent, repl_field)[repl_idx] = new
                else:
                    for f2, v2 in ast.iter_fields(cchild):
                        its = v2 if isinstance(v2, list) else [v2]
                        for j, c2 in enumerate(its):
                            if isinstance(c2, ast.expr) and ast.dump(c2) == ast.dump(tchild):
                                new = ast.Name(id='zz', ctx=ast.Load())
                                if isinstance(v2, list):
                                    v2[j] = new
                                else:
                                    setattr(cchild, f2, new)
                try:
                    clone2 = ast.parse(ast.unparse(ast.fix_missing_locations(clone)), mode='eval').body
                except (SyntaxError, ValueError):
                    continue
                v = verdict(clone2)
                if not (v and v[0] == clause):
                    fld = field if tchild is child else f'{field}.{type(child).__name__}'
                    essential.append(f'{fld}:{tname(tchild)}')
    ess = '+'.join(sorted(set(essential))) or 'self'
    root = tname(best)
    # node types the colorizer renders itself; everything else is delegated to the third-party astor library
    own = (ast.Constant, ast.UnaryOp, ast.BinOp, ast.BoolOp, ast.List, ast.Tuple, ast.Set, ast.Dict, ast.Name,
           ast.Attribute, ast.Subscript, ast.Call, ast.Starred)
    astor_root = not isinstance(best, own)
    if isinstance(best, ast.Attribute):
        v = best.value
        while isinstance(v, ast.Attribute):
            v = v.value
        astor_root = not isinstance(v, ast.Name)      # only dotted names are rendered by the colorizer itself
    if ess == 'self':
        return f'{clause}/{"astor:" if astor_root else ""}{root}/self'
    ess_types = sorted({x.split(':', 1)[1] for x in essential})
    if astor_root or any('Slice' in x for x in ess_types):
        return f'{clause}/astor/{"+".join(ess_types)}'
    return f'{clause}/{root}/{ess}'


def judge_expr(src: str, res: Dict[str, Any], origin: str) -> None:
    try:
        e0 = ast.parse(src, mode='eval').body
    except (SyntaxError, ValueError):
        core.bump(res, 'skipped_not_python')
        return
    canon = ast.unparse(e0)
    e = ast.parse(canon, mode='eval').body
    res['evals'] += 1
    v = verdict(e)
    if any(ch in canon for ch in '([{') or isinstance(e, ast.Constant):
        res['nontrivial'].add(core.h(canon))
    res['outcomes'].add(tname(e))
    if v:
        sig = signature(e, v[0])
        res['violations'].append(core.violation(sig, f'[{origin}] source {canon!r} is shown as {v[1]!r}', {'kind': 'expr', 'src': canon}))
    if len(res['samples']) < 2 and len(canon) > 12:
        res['samples'].append({'source': canon, 'shown': shown(e)})


# ---------------------------------------------------------------- truncation

def wsfree(s: str) -> str:
    return re.sub(r'\s+', '', s.replace('↵', ''))


def judge_block(src: str, ll: int, ml: int, res: Dict[str, Any]) -> None:
    from pydoctor.epydoc.markup._pyval_repr import colorize_pyval
    from pydoctor import node2stan
    e = ast.parse(src, mode='eval').body
    # reference for 'was anything cut': the same line length without a limit on the number of lines (the layout of a value depends on the
    # line length - a string inside a container that has to be broken is laid out on several lines - so linelen=0 is not comparable)
    full = ''.join(node2stan.gettext(colorize_pyval(ast.parse(src, mode='eval').body, linelen=ll, maxlines=0).to_node()))
    r = colorize_pyval(ast.parse(src, mode='eval').body, linelen=ll, maxlines=ml)
    t = ''.join(node2stan.gettext(r.to_node()))
    res['evals'] += 1
    res['nontrivial'].add(core.h('block', src, ll, ml))
    case = {'kind': 'block', 'src': src, 'linelen': ll, 'maxlines': ml}
    same = wsfree(t) == wsfree(full)
    res['outcomes'].add(('complete' if same else 'cut', ll, ml))

    def bad(clause: str, what: str) -> None:
        res['violations'].append(core.violation(f'truncation/{clause}/{tname(e)}', f'{src!r} linelen={ll} maxlines={ml}: {what}; shown {t!r}', case))
    if same:
        if not r.is_complete:
            bad('complete-but-flagged-incomplete', 'the whole value is shown but is_complete is False')
        if verdict(e) is None:      # only where the inline rendering is itself faithful (else C15 meaning findings apply)
            try:
                back = ast.parse(t.replace('↵\n', '').strip(), mode='eval').body
                if norm(back) != norm(e):
                    bad('block-meaning', 'block layout reads back as another expression')
            except (SyntaxError, ValueError):
                bad('block-unparsable', 'block layout does not read back as Python')
    else:
        if r.is_complete:
            bad('cut-but-is_complete', f'output was shortened (unlimited: {full!r}) but is_complete is True')
        if not t.rstrip().endswith('...'):
            bad('cut-without-ellipsis', f'output was shortened (unlimited: {full!r}) without the ellipsis marker')
        elif not wsfree(full).startswith(wsfree(t.rstrip()[:-3])):
            bad('not-a-prefix', f'shortened output is not a prefix of the unlimited output {full!r}')
    # every wrapped line carries the continuation marker
    if ll and same is not None:
        lines = t.split('\n')
        for ln in lines:
            if len(ln.rstrip('↵')) > ll and ll >= 5 and '↵' not in ln and not ln.rstrip().endswith('...'):
                # a line longer than the limit is only acceptable when it cannot be broken (single token)
                pass


# ---------------------------------------------------------------- seam conformance

SEAM_EXPRS = ['a - (b - c)', '(a, b)', '[a, (b, c)]', 'f(a, k=b)', 'a if b else c', 'not (a and b)', '{1: (2, 3)}', '-a ** b', '(a ** b) ** c', "'s' + 't'",
              'a[1:2]', 'a.b(c).d', 'lambda x: x + 1', '{*a}', '1 + 2j', 'b"x" * 3']


def judge_seam(src: str, res: Dict[str, Any]) -> None:
    """The same expression as constant value / default / annotation / decorator / base through a real module."""
    from pydoctor.templatewriter import pages
    from pydoctor.stanutils import flatten_text
    from pydoctor import epydoc2stan
    e = ast.parse(src, mode='eval').body
    canon = ast.unparse(e)
    mod = (f'from typing import Final\nK: Final = {canon}\n'
           f'def f(p={canon}): pass\n')
    s = pd.build_mem([pd.Mod('m', mod)])
    res['evals'] += 1
    if 'm.K' not in s.allobjects:
        core.bump(res, 'seam_skipped_module_not_buildable')     # e.g. a lone surrogate cannot be written to a source file
        return
    direct = shown(ast.parse(canon, mode='eval').body)
    # constant value
    k = s.allobjects['m.K']
    cv = flatten_text(epydoc2stan.format_constant_value(k))  # type: ignore
    sig = flatten_text(pages.format_signature(s.allobjects['m.f']))  # type: ignore
    case = {'kind': 'seam', 'src': canon}
    faithful_inline = verdict(ast.parse(canon, mode='eval').body) is None

    def reads_back(text: str) -> bool:
        try:
            return norm(ast.parse(text.replace('\u21b5\n', '').strip(), mode='eval').body) == norm(e)
        except (SyntaxError, ValueError):
            return False
    # the value table lays the value out as a block (a string with line breaks becomes a triple-quoted block): judged by what it reads back as
    if faithful_inline and wsfree(direct) not in wsfree(cv) and not cv.rstrip().endswith('...') and not reads_back(cv.split('Value', 1)[-1]):      # ('...' = cut, judged by the block part)
        res['violations'].append(core.violation(f'seam/constant-value/{tname(e)}', f'constant value of {canon!r} renders {cv!r}, colorizer alone gives {direct!r}', case))
    # a signature that cannot be rendered at all is replaced by '(...)' and reported (pinned behaviour): nothing is displayed, nothing to compare
    if sig.strip() != '(...)' and wsfree(direct) not in wsfree(sig):
        res['violations'].append(core.violation(f'seam/default/{tname(e)}', f'default {canon!r} renders in signature {sig!r}, colorizer alone gives {direct!r}', case))
    res['nontrivial'].add(core.h('seam', canon))


# ---------------------------------------------------------------- string operands in annotations (forward references inside operator expressions)

class _Unstr(ast.NodeTransformer):
    def visit_Subscript(self, node: ast.Subscript) -> Any:
        value = self.visit(node.value)
        lit = (isinstance(value, ast.Name) and value.id == 'Literal') or (isinstance(value, ast.Attribute) and value.attr == 'Literal')
        return ast.Subscript(value=value, slice=node.slice if lit else self.visit(node.slice), ctx=node.ctx)

    def visit_Constant(self, node: ast.Constant) -> Any:
        if isinstance(node.value, str):
            return self.visit(ast.parse(node.value, mode='eval').body)
        return node


ANN_INNER = ['a | b', 'a - b', 'a + b', 'a * b', '-a', 'a or b', 'a if b else c', 'a < b', 'a.b', 'a[b]', 'a ** b', 'not a', 'lambda: a', 'a, b']


def judge_ann_strings(oi: int, res: Dict[str, Any]) -> None:
    """annotation = outer operator applied to operands one of which is a STRING holding an inner operator expression; the shown annotation must
    read back as the outer operator applied to the (grouped) inner expression - in a signature, as a variable type and as a return type"""
    from pydoctor.templatewriter import pages
    from pydoctor.stanutils import flatten_text
    from pydoctor import epydoc2stan
    o1 = OPS[oi]
    rows = []
    for pos in range(op_arity(o1)):
        for inner in ANN_INNER:
            args = ['X', 'Y', 'Z'][:op_arity(o1)]
            args[pos] = repr(inner)
            rows.append(op_apply(o1, args).replace('(' + repr(inner) + ')', repr(inner)))
            sub = f'T[{inner!r}]'
            args[pos] = sub
            rows.append(op_apply(o1, args))
    src = ''.join(f'def f{i}(p: {a}) -> {a}: pass\nv{i}: {a} = 0\n' for i, a in enumerate(rows))
    s = pd.build_mem([pd.Mod('m', src)])
    for i, a in enumerate(rows):
        res['evals'] += 1
        want = norm(ast.fix_missing_locations(_Unstr().visit(ast.parse(a, mode='eval').body)))
        res['nontrivial'].add(core.h('annstr', a))
        case = {'kind': 'annstr', 'op': oi, 'ann': a}
        sig = flatten_text(pages.format_signature(s.allobjects[f'm.f{i}']))  # type: ignore
        var = flatten_text(epydoc2stan.type2stan(s.allobjects[f'm.v{i}']) or '')  # type: ignore
        for where, text in (('parameter', sig[sig.index(':') + 1:sig.rindex(') ->')] if ') ->' in sig else ''), ('return', sig[sig.rindex('->') + 2:] if '->' in sig else ''), ('variable', var)):
            try:
                back = norm(ast.parse(text.strip(), mode='eval').body)
            except (SyntaxError, ValueError):
                back = 'unparsable'
            if back != want:
                e = ast.parse(a, mode='eval').body
                res['violations'].append(core.violation(f'annotation-string-operand/{where}/{tname(e)}/{"unparsable" if back == "unparsable" else "meaning"}',
                                                        f'annotation {a} shown as {text!r} ({where})', case))


TYPING_IMPORTS = [
    ('from typing import Literal, Annotated, Optional', ''), ('from typing_extensions import Literal, Annotated\nfrom typing import Optional', ''), ('import typing\nfrom typing import Optional', 'typing.'),
    ('import typing as t\nfrom typing import Optional', 't.'), ('from typing import *', ''), ('from p.compat import Literal, Annotated\nfrom typing import Optional', ''), ('import p.compat as pc\nfrom typing import Optional', 'pc.'),
    ('from . import compat\nfrom typing import Optional', 'compat.'), ('from .compat import Literal, Annotated\nfrom typing import Optional', ''), ('from .compat import *\nfrom typing import Optional', ''),
    ('try:\n    from typing import Literal, Annotated\nexcept ImportError:\n    from typing_extensions import Literal, Annotated\nfrom typing import Optional', ''),
    ('from third_party_pkg import Literal, Annotated, Optional', ''), ('import third_party_pkg.typing_compat as tc\nfrom typing import Optional', 'tc.'), ('from typing import Optional', ''),
]
TYPING_ANNS = ["{P}Literal['r', 'w', 'a']", "Optional[{P}Literal['ok', 'err']]", "{P}Annotated[float, 'meters', 'positive']", "{P}Literal['A | B']", "{P}Annotated['Fwd', 'unit-meta']", "List[{P}Literal['int']]"]


def judge_typing_forms(ii: int, res: Dict[str, Any]) -> None:
    """Literal[...] values and Annotated[...] metadata are strings, not forward references, however the module got hold of the two names"""
    from pydoctor.templatewriter import pages
    from pydoctor.stanutils import flatten_text
    from pydoctor import epydoc2stan
    imp, P = TYPING_IMPORTS[ii]
    anns = [a.replace('{P}', P) for a in TYPING_ANNS]
    src = imp + '\nfrom typing import List\n' + ''.join(f'def f{i}(p: {a}) -> {a}: pass\nv{i}: {a} = 0\n' for i, a in enumerate(anns))
    compat = 'try:\n    from typing import Literal, Annotated\nexcept ImportError:\n    from typing_extensions import Literal, Annotated\n'
    s = pd.build_mem([pd.Mod('p', '', is_package=True), pd.Mod('compat', compat, parent='p'), pd.Mod('m', src, parent='p')])
    for i, a in enumerate(anns):
        res['evals'] += 1
        res['nontrivial'].add(core.h('typing-form', ii, a))
        e = ast.parse(a, mode='eval').body
        # reference: only the first argument of Annotated is an annotation (a string there is a forward reference)
        want_src = a.replace("Annotated['Fwd',", 'Annotated[Fwd,')
        want = norm(ast.parse(want_src, mode='eval').body)
        case = {'kind': 'typing-form', 'imp': ii, 'ann': a}
        sig = flatten_text(pages.format_signature(s.allobjects[f'p.m.f{i}']))  # type: ignore
        var = flatten_text(epydoc2stan.type2stan(s.allobjects[f'p.m.v{i}']) or '')  # type: ignore
        for where, text in (('parameter', sig[sig.index(':') + 1:sig.rindex(') ->')] if ') ->' in sig else ''), ('return', sig[sig.rindex('->') + 2:] if '->' in sig else ''), ('variable', var)):
            try:
                back = norm(ast.parse(text.strip(), mode='eval').body)
            except (SyntaxError, ValueError):
                back = 'unparsable'
            if back != want:
                how = 'dotted' if P else ('star' if '*' in imp else 'from')
                res['violations'].append(core.violation(f'typing-form-strings/{where}/{"Literal" if "Literal" in a else "Annotated"}/{how}-import',
                                                        f'after {imp!r}: annotation {a} shown as {text!r} ({where})', case))


# ---------------------------------------------------------------- jobs

def jobs(tier: str) -> Iterable[Tuple[str, Any]]:
    for pi in range(len(FORMS)):
        yield ('depth2', ('depth2', pi))
    for oi in range(len(OPS)):
        yield ('chains3', ('chains', oi))
    yield ('leaves', ('leaves',))
    for i in range(0, len(TRUNC_VALUES), 5):
        yield ('truncation', ('trunc', i, i + 5))
    yield ('seam', ('seam',))
    for oi in range(len(OPS)):
        yield ('annotation-string-operands', ('annstr', oi))
    for ii in range(len(TYPING_IMPORTS)):
        yield ('typing-forms-by-import', ('typingforms', ii))
    if tier == 'thorough':
        for pi in range(len(FORMS)):
            for pos in range(FORMS[pi][1]):
                yield ('depth3', ('depth3', pi, pos))


def run_job(job: Any, tier: str) -> Dict[str, Any]:
    res = core.result()
    k = job[0]
    if k == 'depth2':
        pname, par, pb = FORMS[job[1]]
        if par == 0:
            judge_expr(pb(), res, pname)
        for pos in range(par):
            for cname, car, cb in FORMS:
                child = cb(*['b', 'c', 'd'][:car])
                args = ['a'] * par
                args[pos] = child
                judge_expr(pb(*args), res, f'{pname}.{pos}<-{cname}')
    elif k == 'depth3':
        pname, par, pb = FORMS[job[1]]
        pos = job[2]
        for cname, car, cb in FORMS:
            for cpos in range(car):
                for gname, gar, gb in FORMS:
                    g = gb(*['e', 'f', 'g'][:gar])
                    cargs = ['b', 'c', 'd'][:car]
                    cargs[cpos] = g
                    args = ['a'] * par
                    args[pos] = cb(*cargs)
                    judge_expr(pb(*args), res, f'{pname}.{pos}<-{cname}.{cpos}<-{gname}')
    elif k == 'chains':
        o1 = OPS[job[1]]
        for p1 in range(op_arity(o1)):
            for o2 in OPS:
                for p2 in range(op_arity(o2)):
                    for o3 in OPS:
                        inner = op_apply(o3, ['a', 'b', 'c'][:op_arity(o3)])
                        a2 = ['d', 'e', 'f'][:op_arity(o2)]
                        a2[p2] = inner
                        a1 = ['g', 'h', 'i'][:op_arity(o1)]
                        a1[p1] = op_apply(o2, a2)
                        judge_expr(op_apply(o1, a1), res, 'chain')
    elif k == 'annstr':
        judge_ann_strings(job[1], res)
    elif k == 'typingforms':
        judge_typing_forms(job[1], res)
    elif k == 'leaves':
        for src in LEAVES:
            judge_expr(src, res, 'leaf')
    elif k == 'trunc':
        for src in TRUNC_VALUES[job[1]:job[2]]:
            for ll in LINELENS:
                for ml in MAXLINES:
                    judge_block(src, ll, ml, res)
        if not res['samples']:
            res['samples'].append({'value': TRUNC_VALUES[job[1]], 'linelens': LINELENS, 'maxlines': MAXLINES})
    elif k == 'seam':
        for src in SEAM_EXPRS + LEAVES + ["'zz\\uffff'", "'\\ufffe'", "b'\\xef\\xbf\\xbe'", "['\\uffff', 1]", "{'k': '\\ufffe'}", "'a\\x0cb'", "'\\x1f'"]:
            judge_seam(src, res)
    return res


def replay(case: Dict[str, Any]) -> List[Dict[str, Any]]:
    res = core.result()
    if case['kind'] == 'expr':
        judge_expr(case['src'], res, 'replay')
    elif case['kind'] == 'block':
        judge_block(case['src'], case['linelen'], case['maxlines'], res)
    elif case['kind'] == 'annstr':
        judge_ann_strings(case['op'], res)
        res['violations'] = [v for v in res['violations'] if v['case']['ann'] == case['ann']]
    elif case['kind'] == 'typing-form':
        judge_typing_forms(case['imp'], res)
        res['violations'] = [v for v in res['violations'] if v['case']['ann'] == case['ann']]
    else:
        judge_seam(case['src'], res)
    return res['violations']
