"""C09 - rendering a docstring keeps its text: nothing is lost, altered or reordered.

Documents are generated from a structure grammar (Doc := Block{1..N} Field{0..2}) in which every word is a unique
token wNNNN, and serialised to each docformat.  Oracle = the generator's intended text: the word tokens of the
description appear in the visible text exactly once each and in source order; literal / doctest / code blocks are
reproduced character for character (modulo the block's common indentation); no markup residue; each field's tokens
appear under the entry the field belongs to, or a message about the field is reported; plaintext is reproduced exactly.
"""
from __future__ import annotations

import ast
import html
import itertools
import re
import textwrap
from typing import Any, Callable, Dict, Iterable, List, Optional, Sequence, Tuple

from mc import core, pd

ID = 'C09'
LEVEL = 'exploration'
RULE = ('all documents of <= N blocks from a 20-variant block grammar x (no field | each single field | pairs of fields in thorough), serialised to '
        'epytext / reST / google / numpy (+ plaintext), rendered by the real format_docstring; non-trivial = the document contains at least one '
        'structured block (list, literal, doctest, code, section, directive) or a field; distinct = distinct (format, block kinds, fields)')
ASSUMPTIONS = [
    'documents are well-formed by construction; a parse error reported on a generated document suspends the text verdict and is itself reported as a harness-level signature (generator vs. parser disagreement)',
    'literal blocks are compared after textwrap.dedent (epytext keeps the source indentation, reST removes it: both reproduce every character)',
]
FLOOR = {'quick': 2000, 'thorough': 20000}
SPACE = {'quick': 'documents <= 2 blocks x (no field | 17 single fields) x 4 markup formats; plaintext documents; class/module variable fields; code blocks: all sequences <= 2 lines over an 18-line code alphabet / 27-line doctest alphabet (one line per highlighter class and whitespace variant) x 6 hosts; exact field text: 15 punctuation-led descriptions x every field form of each format (incl. reST consolidated bullet / definition-list fields); 3 punctuation paragraphs x 4 formats',
         'thorough': 'documents <= 3 blocks x (no field | single fields); <= 2 blocks x all ordered pairs of fields; doctest blocks <= 3 lines'}
JOB_TIMEOUT = 2300


class W:
    def __init__(self) -> None:
        self.n = 0

    def __call__(self) -> str:
        self.n += 1
        return f'w{self.n:04d}'


# ---- blocks: (kind, payload...)
def para(w: W, inline: str = 'plain') -> Tuple[Any, ...]:
    return ('para', [(inline, w()), ('plain', w()), ('plain', w())])


def bullets(w: W, nested: bool = False, two: bool = True, para2: bool = False) -> Tuple[Any, ...]:
    items = [[('plain', w()), ('plain', w())]]
    if two:
        items.append([('plain', w())])
    return ('ulist', items, ([('plain', w())] if nested else None), ([('plain', w()), ('plain', w())] if para2 else None))


BLOCKS: Dict[str, Callable[[W], Tuple[Any, ...]]] = {
    'para': lambda w: para(w), 'para-bold': lambda w: para(w, 'bold'), 'para-ital': lambda w: para(w, 'ital'),
    'para-code': lambda w: para(w, 'code'), 'para-url': lambda w: para(w, 'url'),
    'ulist': lambda w: bullets(w), 'ulist1': lambda w: bullets(w, two=False), 'ulist-nested': lambda w: bullets(w, nested=True),
    'ulist-para2': lambda w: bullets(w, para2=True),
    'olist': lambda w: ('olist', [[('plain', w())], [('plain', w())]]),
    # a list item whose (one-line / wrapped) paragraph introduces a literal block, followed by more of the same item.  In epytext a literal
    # block ends at the indentation of the paragraph that introduces it, which for a ONE-line item paragraph is the bullet's: the one-line
    # variant is reST only
    'ulist-lit': lambda w: ('listlit', '-', [[('plain', w()), ('plain', w())]], [f'{w()} = f(1,   2)', f'  {w()}  # keep   spacing'], [('plain', w()), ('ital', w()), ('code', w())], [('plain', w())]),
    'ulist-lit-wrapped': lambda w: ('listlit', '-', [[('plain', w()), ('plain', w())], [('bold', w()), ('plain', w())]], [f'{w()} = f(1,   2)', f'  {w()}  # keep   spacing'],
                                    [('plain', w()), ('ital', w()), ('code', w())], [('plain', w())]),
    'olist-lit-wrapped': lambda w: ('listlit', '1.', [[('plain', w()), ('plain', w())], [('plain', w())]], [f'{w()} <&> {w()}'], [('code', w())], None),
    'literal': lambda w: ('literal', w(), [f'{w()}  <&> {w()}', f'  {w()}', '', f'{w()}']),
    'doctest': lambda w: ('doctest', [f'>>> {w()} = 1', f'... {w()}', f'{w()}']),
    'section': lambda w: ('section', w(), [('plain', w())]),
    # reST-family only
    'codeblock': lambda w: ('codeblock', [f'{w()} = {w()}', f'    {w()}()']),
    'note-adm': lambda w: ('adm', 'note', [('plain', w())], [('plain', w()), ('plain', w())]),
    'versionchanged': lambda w: ('version', 'versionchanged', [('plain', w()), ('plain', w())], [('plain', w()), ('plain', w())]),
    'deprecated-dir': lambda w: ('version', 'deprecated', [('plain', w())], [('plain', w())]),
    'versionadded-nobody': lambda w: ('version', 'versionadded', [('plain', w())], None),
    'deflist': lambda w: ('deflist', w(), [('plain', w()), ('plain', w())]),
    'blockquote': lambda w: ('quote', [('plain', w()), ('plain', w())]),
}
RST_ONLY = {'ulist-lit', 'codeblock', 'note-adm', 'versionchanged', 'deprecated-dir', 'versionadded-nobody', 'deflist', 'blockquote'}


def inl(fmt: str, kind: str, word: str) -> str:
    if kind == 'plain':
        return word
    if fmt == 'epytext':
        return {'bold': f'B{{{word}}}', 'ital': f'I{{{word}}}', 'code': f'C{{{word}}}', 'url': f'U{{{word}<http://x/>}}'}[kind]
    return {'bold': f'**{word}**', 'ital': f'*{word}*', 'code': f'``{word}``', 'url': f'`{word} <http://x/>`_'}[kind]


def ser_inlines(fmt: str, inls: Sequence[Tuple[str, str]]) -> str:
    return ' '.join(inl(fmt, k, wd) for k, wd in inls)


def ser_block(fmt: str, b: Tuple[Any, ...]) -> List[str]:
    k = b[0]
    L: List[str] = []
    if k == 'para':
        words = [inl(fmt, kk, wd) for kk, wd in b[1]]
        L = [' '.join(words[:2]), words[2]]
    elif k == 'ulist':
        ind = '  ' if fmt == 'epytext' else ''
        for i, item in enumerate(b[1]):
            L.append(f'{ind}- ' + ser_inlines(fmt, item))
            if i == 0 and b[3]:
                L.append('')
                L.append(f'{ind}  ' + ser_inlines(fmt, b[3]))
                L.append('')
            if i == 0 and b[2]:
                L.append('')
                L.append(f'{ind}  ' + ('  ' if fmt == 'epytext' else '') + '- ' + ser_inlines(fmt, b[2]))
                L.append('')
    elif k == 'olist':
        ind = '  ' if fmt == 'epytext' else ''
        for i, item in enumerate(b[1], 1):
            L.append(f'{ind}{i}. ' + ser_inlines(fmt, item))
    elif k == 'listlit':
        ind = '  ' if fmt == 'epytext' else ''
        cont = ind + ' ' * (len(b[1]) + 1)
        plines = [ser_inlines(fmt, pl) for pl in b[2]]
        plines[-1] += '::'
        L = [f'{ind}{b[1]} {plines[0]}'] + [cont + x for x in plines[1:]] + [''] + [cont + '  ' + l for l in b[3]] + ['', cont + ser_inlines(fmt, b[4])]
        if b[5]:
            marker = b[1] if b[1] == '-' else '2.'
            L += [f'{ind}{marker} ' + ser_inlines(fmt, b[5])]
    elif k == 'literal':
        L = [f'{b[1]}::', ''] + [('    ' + l if l else '') for l in b[2]]
    elif k == 'doctest':
        L = list(b[1])
    elif k == 'section':
        L = [b[1], '=' * len(b[1]), '', ser_inlines(fmt, b[2])]
    elif k == 'codeblock':
        L = ['.. code:: python', ''] + ['    ' + l for l in b[1]]
    elif k == 'adm':
        L = [f'.. {b[1]}:: ' + ser_inlines(fmt, b[2]), '', '    ' + ser_inlines(fmt, b[3])]
    elif k == 'version':
        L = [f'.. {b[1]}:: 2.0 ' + ser_inlines(fmt, b[2])]
        if b[3]:
            L += ['', '    ' + ser_inlines(fmt, b[3])]
    elif k == 'deflist':
        L = [b[1], '    ' + ser_inlines(fmt, b[2])]
    elif k == 'quote':
        L = ['    ' + ser_inlines(fmt, b[1])]
    return L


FIELDS_E = {
    'param': '@param a: {w}', 'return': '@return: {w}', 'raise': '@raise ValueError: {w}', 'note': '@note: {w}', 'see': '@see: {w}', 'author': '@author: {w}',
    'since': '@since: {w}', 'keyword': '@keyword k: {w}', 'type': '@type a: {w}', 'rtype': '@rtype: {w}', 'unknown': '@foo: {w}', 'warns': '@warns: {w}',
    'yield': '@yield: {w}', 'ytype-only': '@ytype: {w}', 'rtype-only': '@rtype: {w}', 'type-only': '@type a: {w}', 'raise-noargdesc': '@raise ValueError:\n    {w}',
    'param-literal-wrapped': '@param a: {w} {w2}\n    {w3}::\n\n      {w4}(x,   y)\n\n    {w5} closing.', 'param-multiline': '@param a: {w}\n    {w2}', 'param-kw': '@param k: {w}', 'raise2': '@raises KeyError: {w}', 'returns-syn': '@returns: {w}',
}
# where a field's token must appear: (section heading, cell)   cell in {'desc', 'arg', 'any'}
FIELD_HOME = {
    'param': ('Parameters', 'a'), 'type': ('Parameters', 'a'), 'keyword': ('Parameters', 'k'), 'param-kw': ('Parameters', 'k'), 'param-multiline': ('Parameters', 'a'),
    'return': ('Returns', None), 'returns-syn': ('Returns', None), 'rtype': ('Returns', None), 'raise': ('Raises', 'ValueError'), 'raise2': ('Raises', 'KeyError'),
    'note': ('Note', None), 'see': ('See Also', None), 'author': ('Author', None), 'since': ('Present Since', None), 'warns': ('Warns', None), 'yield': ('Yields', None),
    'unknown': ('Unknown Field: foo', None),
    'ytype-only': ('Yields', None), 'rtype-only': ('Returns', None), 'type-only': ('Parameters', 'a'), 'raise-noargdesc': ('Raises', 'ValueError'), 'param-literal-wrapped': ('Parameters', 'a'),
}
NAP_FIELDS = {
    'google': {'param': 'Args:\n    a: {w}', 'return': 'Returns:\n    {w}', 'raise': 'Raises:\n    ValueError: {w}', 'note': 'Note:\n    {w}', 'see': 'See Also:\n    {w}',
               'keyword': 'Keyword Args:\n    k: {w}', 'type': 'Args:\n    a (int): {w}', 'rtype': 'Returns:\n    int: {w}', 'warns': 'Warns:\n    UserWarning: {w}', 'yield': 'Yields:\n    {w}',
               'param-multiline': 'Args:\n    a: {w}\n        {w2}', 'ytype-only': 'Yields:\n    {w}:', 'rtype-only': 'Returns:\n    {w}:',
               'param-literal': 'Args:\n    a: {w}::\n\n            {w2}(alpha, retries=3)\n\n        {w3} closing remark.'},
    'numpy': {'param': 'Parameters\n----------\na\n    {w}', 'return': 'Returns\n-------\nint\n    {w}', 'raise': 'Raises\n------\nValueError\n    {w}', 'note': 'Notes\n-----\n{w}',
              'see': 'See Also\n--------\nfoo : {w}', 'keyword': 'Other Parameters\n----------------\nk\n    {w}', 'type': 'Parameters\n----------\na : int\n    {w}',
              'rtype': 'Returns\n-------\nint\n    {w}', 'warns': 'Warns\n-----\nUserWarning\n    {w}', 'yield': 'Yields\n------\nint\n    {w}',
              'param-multiline': 'Parameters\n----------\na\n    {w}\n    {w2}', 'ytype-only': 'Yields\n------\n{w}', 'rtype-only': 'Returns\n-------\n{w}',
              'param-literal': 'Parameters\n----------\na\n    {w}::\n\n        {w2}(alpha, retries=3)\n\n    {w3} closing remark.'},
}
FIELD_HOME['param-literal'] = ('Parameters', 'a')
BODY_FIELDS_NAP = ('note', 'see')      # rendered in the description by the napoleon formats


def fmt_field(template: str, w: W) -> Tuple[str, List[str]]:
    toks: List[str] = []

    def rep(m: Any) -> str:
        t = w()
        toks.append(t)
        return t
    return re.sub(r'\{w\d?\}', rep, template), toks


def serialize(fmt: str, blocks: Sequence[Tuple[Any, ...]], fields: Sequence[str], w: W) -> Tuple[Optional[str], List[Tuple[str, List[str]]]]:
    L: List[str] = []
    prev = None
    for b in blocks:
        if L:
            L.append('')
        if prev in ('literal', 'codeblock') and b[0] == 'quote' or prev == 'literal' and ( (fmt == 'epytext' and b[0] in ('ulist', 'olist', 'listlit'))):
            # a literal block swallows every following line that is indented deeper than the paragraph introducing it
            L += [w_sep(w), '']
        L += ser_block('restructuredtext' if fmt in NAP_FIELDS else fmt, b)
        prev = b[0]
    ftoks: List[Tuple[str, List[str]]] = []
    for field in fields:
        if fmt in NAP_FIELDS:
            if field not in NAP_FIELDS[fmt]:
                return None, []
            text, toks = fmt_field(NAP_FIELDS[fmt][field], w)
            L += ['', *text.split('\n')]
        else:
            if field not in FIELDS_E:
                return None, []
            text, toks = fmt_field(FIELDS_E[field], w)
            if fmt == 'restructuredtext':
                text = re.sub(r'^@(\w+)( [^:]+)?:', lambda m: ':' + m.group(1) + (m.group(2) or '') + ':', text)
            L += ['', *text.split('\n')] if not ftoks else text.split('\n')
        ftoks.append((field, toks))
    return '\n'.join(L), ftoks


_sep: List[str] = []


def w_sep(w: W) -> str:
    t = w()
    _sep.append(t)
    return t


def expected_tokens(blocks: Sequence[Tuple[Any, ...]], fmt: str, doc: str) -> List[str]:
    """description tokens in source order = order of appearance in the serialised text, restricted to the description part"""
    return re.findall(r'w\d{4}', doc)


def mk(fmt: str) -> Any:
    s = pd.new_system({'docformat': fmt}, systemcls=pd.RecordingSystem)
    b = s.systemBuilder(s)
    b.addModuleString('def f(a, **kw):\n    pass\nclass K:\n    "x"\n    v = 1\n', 'm')
    b.buildModules()
    return s


def install(s: Any, obj: Any, doc: str) -> None:
    """Install the docstring as the real flow does: a triple-quoted literal in an indented body, text starting below the quotes."""
    assert '\\' not in doc
    lit = doc.replace('"""', '\\"\\"\\"')       # same string value, still one triple-quoted literal
    src = 'def f():\n    """\n' + ''.join(('    ' + l if l else '') + '\n' for l in lit.split('\n')) + '    """\n'
    node = ast.parse(src).body[0].body[0].value
    obj.setDocstring(node)
    obj.parsed_docstring = None
    obj.parsed_summary = None
    obj._linker = None
    s.parse_errors.clear()
    del s.messages[:]


def strip_tags(h: str) -> str:
    return html.unescape(re.sub(r'<[^>]+>', '', h))


def table_sections(table_html: str) -> List[Tuple[str, List[Tuple[str, str]]]]:
    out: List[Tuple[str, List[Tuple[str, str]]]] = []
    for row in re.findall(r'<tr[^>]*>(.*?)</tr>', table_html, flags=re.S):
        cells = re.findall(r'<td([^>]*)>(.*?)</td>', row, flags=re.S)
        if len(cells) == 1 and 'fieldName' in cells[0][0]:
            out.append((strip_tags(cells[0][1]).strip(), []))
        elif out:
            if len(cells) == 2:
                out[-1][1].append((strip_tags(cells[0][1]), strip_tags(cells[1][1])))
            elif cells:
                out[-1][1].append(('', strip_tags(cells[0][1])))
    return out


def judge(s: Any, fmt: str, combo: Sequence[str], fields: Sequence[str], res: Dict[str, Any]) -> None:
    from pydoctor import epydoc2stan
    from pydoctor.stanutils import flatten
    f = s.allobjects['m.f']
    w = W()
    del _sep[:]
    blocks = [BLOCKS[c](w) for c in combo]
    doc, ftoks = serialize(fmt, blocks, fields, w)
    if doc is None:
        return
    res['evals'] += 1
    case = {'kind': 'doc', 'fmt': fmt, 'blocks': list(combo), 'fields': list(fields)}
    install(s, f, doc)
    h = flatten(epydoc2stan.format_docstring(f))
    msgs = [m for sec, m, th in s.messages if th < 0]
    body_html, _, table = h.partition('<table class="fieldTable">')
    text = strip_tags(body_html)
    got = re.findall(r'w\d{4}', text)
    field_tokens = [t for _, toks in ftoks for t in toks]
    # tokens of napoleon note/see sections are rendered in the description
    in_body_fields = [t for fld, toks in ftoks for t in toks if fmt in NAP_FIELDS and fld in BODY_FIELDS_NAP]
    exp = [t for t in re.findall(r'w\d{4}', doc) if t not in field_tokens or t in in_body_fields]
    label = '+'.join(combo)
    structured = any(c not in ('para',) for c in combo) or bool(fields)
    if structured:
        res['nontrivial'].add(core.h(fmt, tuple(combo), tuple(fields)))
    res['outcomes'].add((fmt, bool(msgs)))
    bad_docstring = [m for m in msgs if 'bad docstring' in m]
    if bad_docstring:
        res['violations'].append(core.violation(f'parse-error-on-generated-document/{fmt}/{label}' + ('/' + '+'.join(fields) if fields else ''),
                                                f'{fmt} reports {bad_docstring[0][:120]!r} on a document generated as well-formed:\n{doc}', case))
        return
    if got != exp:
        lost = [t for t in exp if t not in got]
        dup = sorted({t for t in got if got.count(t) > 1})
        clause = 'lost' if lost else 'duplicated' if dup else 'reordered-or-extra'
        first = (lost or dup or [t for t, u in zip(got, exp) if t != u] or got)[0]
        owner = 'field:' + '+'.join(fields) if first in field_tokens else 'separator'
        for bi, (c, b) in enumerate(zip(combo, blocks)):
            btoks = re.findall(r'w\d{4}', '\n'.join(ser_block('restructuredtext' if fmt != 'epytext' else fmt, b)))
            if first in btoks:
                role = ''
                if b[0] == 'section':
                    role = '.title' if first == b[1] else '.body'
                elif b[0] in ('version', 'adm'):
                    role = '.argument' if first in [x for _, x in b[2]] else '.body'
                owner = f'{c}{role}' + ('@first-block' if bi == 0 else '')
        res['violations'].append(core.violation(f'description-text-{clause}/{fmt}/{owner}',
                                                f'{fmt}: description tokens shown {got}, written {exp} (first affected {first}, blocks {list(combo)}, fields {list(fields)}):\n{doc}', case))
        return
    # residue of markup in prose
    prose = re.sub(r'<pre[^>]*>.*?</pre>', '', body_html, flags=re.S)
    ptext = strip_tags(prose)
    for resid in ('B{', 'I{', 'C{', 'U{', '**', '``', '::', '>>>', '.. '):
        if resid in ptext and not (resid == '::' and fmt == 'plaintext'):
            res['violations'].append(core.violation(f'markup-residue/{fmt}/{resid.strip()}', f'{fmt}: markup {resid!r} left in prose {ptext!r}:\n{doc}', case))
            break
    pres = [strip_tags(p) for p in re.findall(r'<pre[^>]*>(.*?)</pre>', body_html, flags=re.S)]
    for b in blocks:
        if b[0] in ('literal', 'listlit'):
            lit = '\n'.join(b[2] if b[0] == 'literal' else b[3])
            if not any(textwrap.dedent(p).strip('\n') == textwrap.dedent(lit).strip('\n') for p in pres):
                res['violations'].append(core.violation(f'literal-block-not-exact/{fmt}', f'{fmt}: literal block {lit!r} rendered as {pres}:\n{doc}', case))
        if b[0] == 'doctest':
            dt = '\n'.join(b[1])
            if not any(p.strip('\n') == dt for p in pres):
                res['violations'].append(core.violation(f'doctest-block-not-exact/{fmt}', f'{fmt}: doctest block {dt!r} rendered as {pres}:\n{doc}', case))
        if b[0] == 'codeblock':
            cb = '\n'.join(b[1])
            if not any(textwrap.dedent(p).strip('\n') == textwrap.dedent(cb).strip('\n') for p in pres):
                res['violations'].append(core.violation(f'code-block-not-exact/{fmt}', f'{fmt}: code block {cb!r} rendered as {pres}:\n{doc}', case))
    # fields
    sections = table_sections(table)
    for fld, toks in ftoks:
        if fmt in NAP_FIELDS and fld in BODY_FIELDS_NAP:
            continue
        heading, arg = FIELD_HOME[fld]
        rows = [r for hd, rows_ in sections if hd in (heading, heading + 's') for r in rows_]      # 'Note' / 'Notes', 'Author' / 'Authors'
        if arg:
            rows = [r for r in rows if re.sub(r'[:\s].*', '', r[0].strip()) == arg or r[0].strip().startswith(arg)]
        rowtext = ' '.join(a + ' ' + d for a, d in rows)
        missing = [t for t in toks if t not in rowtext]
        if missing:
            elsewhere = [t for t in missing if t in strip_tags(table)]
            warned = any(fld.split('-')[0] in m or 'field' in m.lower() or any(t in m for t in toks) for m in msgs)
            if fld == 'unknown' and not any("Unknown field" in m for m in msgs):
                res['violations'].append(core.violation(f'unknown-field-not-reported/{fmt}', f'{fmt}: unknown field not reported:\n{doc}', case))
            if any('already documented' in m for m in msgs):
                continue        # a field given twice for a single slot: one text is shown, the other is reported
            if not warned or fld != 'unknown':
                if not (warned and not elsewhere and fld in ('type',)):
                    res['violations'].append(core.violation(f'field-text-{"misplaced" if elsewhere else "lost"}/{fmt}/{fld}',
                                                            f'{fmt}: tokens {missing} of field {fld} are not under entry {heading!r}{"/" + arg if arg else ""} (table: {sections}); messages {msgs[:2]}:\n{doc}', case))
    if len(res['samples']) < 2 and structured and fields:
        res['samples'].append({'docformat': fmt, 'blocks': list(combo), 'fields': list(fields), 'docstring': doc, 'visible_description_tokens': got})


def judge_plain(s: Any, combo: Sequence[str], res: Dict[str, Any]) -> None:
    from pydoctor import epydoc2stan
    from pydoctor.stanutils import flatten_text
    f = s.allobjects['m.f']
    w = W()
    blocks = [BLOCKS[c](w) for c in combo]
    doc, _ = serialize('restructuredtext', blocks, ['param'], w)
    res['evals'] += 1
    install(s, f, doc)
    t = flatten_text(epydoc2stan.format_docstring(f))
    res['nontrivial'].add(core.h('plaintext', tuple(combo)))
    if t != f.docstring:
        res['violations'].append(core.violation('plaintext-not-exact', f'plaintext docstring {f.docstring!r} shown as {t!r}', {'kind': 'plain', 'blocks': list(combo)}))


def judge_varfields(fmt: str, res: Dict[str, Any]) -> None:
    """@ivar / @cvar / @var fields of classes and modules document attributes: the text must show up on the attribute."""
    from pydoctor import epydoc2stan
    from pydoctor.stanutils import flatten_text
    for owner, tags in (('class', ['ivar', 'cvar', 'var']), ('module', ['var'])):
        for tag in tags:
            for existing in (True, False):
                w = W()
                t1, t2 = w(), w()
                name = 'v' if existing else 'z'
                fld = f'@{tag} {name}: {t1} {t2}' if fmt == 'epytext' else f':{tag} {name}: {t1} {t2}'
                if fmt in NAP_FIELDS:
                    fld = (f'Attributes:\n    {name}: {t1} {t2}' if fmt == 'google' else f'Attributes\n----------\n{name}\n    {t1} {t2}')
                doc = f'Desc {w()}.\n\n{fld}\n'
                src = (f'class K:\n    {doc!r}\n    v = 1\n' if owner == 'class' else f'{doc!r}\nv = 1\n')
                s = pd.new_system({'docformat': fmt}, systemcls=pd.RecordingSystem)
                b = s.systemBuilder(s)
                b.addModuleString(src, 'm')
                b.buildModules()
                res['evals'] += 1
                res['nontrivial'].add(core.h('varfield', fmt, owner, tag, existing))
                holder = s.allobjects['m.K'] if owner == 'class' else s.allobjects['m']
                attr = holder.contents.get(name)
                case = {'kind': 'varfield', 'fmt': fmt, 'owner': owner, 'tag': tag, 'existing': existing}
                shown = flatten_text(epydoc2stan.format_docstring(attr)) if attr is not None else ''
                msgs = [m for sec, m, th in s.messages if th < 0]
                if not (t1 in shown and t2 in shown and shown.index(t1) < shown.index(t2)) and not any(name in m or tag in m for m in msgs):
                    res['violations'].append(core.violation(f'variable-field-lost/{fmt}/{owner}/{tag}', f'{fmt}: {fld!r} on a {owner}: attribute {name} shows {shown!r}, nothing reported', case))



# ---------------------------------------------------------------------------------------------------------------------
# code hosts: every sequence of <= N lines from a line alphabet that has one member per class of the syntax highlighter
# (keyword, builtin, string, comment, definition, prompt, continuation, traceback, output) and per whitespace variant,
# hosted in an epytext doctest block, a reST doctest block, a reST code directive and the python directive.  The <pre>
# shown must be the block, character for character.
CODE = [
    'def   twice(n):', 'class   Kw (Base):', 'async def  f(): pass', 'defx = classy + undef', 'x = "a  string"  # comment   here', "s = 'it' 'is'",
    'print(len(x)) ; y.len ; lens', 'for i in range(3): pass', '@decorator', 'return None', 'x = """triple  quoted"""', 'if a <b and c> d: pass',
    'x = 1 # doctest: +SKIP', '    indented = True', 'a = "unterminated', "b = " + "'" * 3 + "open", 'class  K2:  pass  # class  K3', 'n = 1_000 + 0x1F  -  2',
]
OUTPUT = ['w9001 w9002', 'Traceback (most recent call last):', '  File "<stdin>", line 1, in  <module>', 'ValueError: bad  value', '<BLANKLINE>', "['a',  'b']", 'def   not_code(): 3']
HOST_FMT = {'epytext-doctest': 'epytext', 'rst-doctest': 'restructuredtext', 'rst-code': 'restructuredtext', 'rst-python': 'restructuredtext',
            'google-doctest': 'google', 'numpy-doctest': 'numpy'}
CODE_HOSTS = tuple(HOST_FMT)


def code_cases(n: int) -> Iterable[Tuple[str, ...]]:
    """code blocks: all sequences of <= n code lines"""
    for c in CODE:
        yield ('code', c)
    if n >= 2:
        for c in CODE:
            for d in CODE:
                yield ('code', c, d)


def doctest_cases(n: int, host: str = '') -> Iterable[Tuple[str, ...]]:
    """doctest blocks: '>>> c1' then each of ('... c2' | '>>> c2' | output); epytext starts a doctest block at '>>> ' only, reST also at a bare '>>>'"""
    first = [f'>>> {c.strip()}' for c in CODE] + ([] if host.startswith('epytext') else ['>>>']) + ['>>>  two = 2']
    second = [f'...     {c.strip()}' for c in CODE[:8]] + ['...'] + [f'>>> {c.strip()}' for c in CODE[:8]] + OUTPUT
    for a in first:
        yield ('doctest', a)
        if n >= 2:
            for b in second:
                yield ('doctest', a, b)
    if n >= 3:
        for a in first[:6]:
            for b in second:
                for c in second:
                    yield ('doctest', a, b, c)


def classify_lines(lines: Sequence[str]) -> str:
    out = []
    for l in lines:
        body = re.sub(r'^(>>>|\.\.\.) ?', '', l)
        k = 'prompt1' if l.startswith('>>>') else 'prompt2' if l.startswith('...') else 'plain'
        tok = ('def' if re.search(r'\b(def|class)\s', body) else 'string' if re.search(r'["\']', body) else 'comment' if '#' in body else
               'traceback' if body.startswith('Traceback') else 'other')
        out.append(f'{k}.{tok}')
    return '+'.join(out)


def judge_code(s: Any, host: str, lines: Sequence[str], res: Dict[str, Any]) -> None:
    from pydoctor import epydoc2stan
    from pydoctor.stanutils import flatten
    f = s.allobjects['m.f']
    w = W()
    t1, t2 = w(), w()
    block = list(lines)
    directive = host in ('rst-code', 'rst-python')
    if directive:
        text = '\n'.join([t1, '', '.. code:: python' if host == 'rst-code' else '.. python::', ''] + ['    ' + l for l in block] + ['', t2])
    else:
        text = '\n'.join([t1, ''] + block + ['', t2])
    res['evals'] += 1
    res['nontrivial'].add(core.h('code', host, tuple(lines)))
    case = {'kind': 'code', 'host': host, 'lines': list(lines)}
    install(s, f, text)
    h = flatten(epydoc2stan.format_docstring(f))
    msgs = [m for sec, m, th in s.messages if th < 0]
    pres = [strip_tags(p) for p in re.findall(r'<pre[^>]*>(.*?)</pre>', h, flags=re.S)]
    want = textwrap.dedent('\n'.join(block)).strip('\n') if directive else '\n'.join(block)
    got = [textwrap.dedent(p).strip('\n') if directive else p.strip('\n') for p in pres]
    res['outcomes'].add((host, len(pres), bool(msgs)))
    cls = classify_lines(lines)
    if any('bad docstring' in m for m in msgs):
        res['violations'].append(core.violation(f'parse-error-on-code-block/{host}/{cls}', f'{host}: {msgs[0][:150]!r} on\n{text}', case))
        return
    if want not in got:
        res['violations'].append(core.violation(f'code-not-exact/{host}/{cls}', f'{host}: block {want!r} shown as {got!r}\n{text}', case))
        return
    outside = strip_tags(re.sub(r'<pre[^>]*>.*?</pre>', ' ', h, flags=re.S)).split()
    if outside != [t1, t2]:
        res['violations'].append(core.violation(f'code-surroundings/{host}/{cls}', f'{host}: text around the block shown as {outside!r}\n{text}', case))


# ---------------------------------------------------------------------------------------------------------------------
# exact field text: descriptions whose first / last characters are the separators the field parsers themselves use
DESCS = ['{w}', '-1 {w} {w2}', ':{w}: or {w2}', '({w})', '{w}, {w2}; {w3}.', '"{w}" <&> {w2}', '{w} - {w2} : {w3}', '--{w} {w2}', '{w}: {w2}', ': {w}', '-- {w}',
         '{w} {w2}:', '- {w}', '{w} -', "{w}'s {w2}"]
EXACT_FIELDS = {
    'epytext': {'param': '@param a: {D}', 'return': '@return: {D}', 'raise': '@raise ValueError: {D}', 'keyword': '@keyword k: {D}', 'note': '@note: {D}',
                'param-cont': '@param a: {w}\n    {D}', 'see': '@see: {D}', 'author': '@author: {D}', 'warns': '@warns: {D}', 'yield': '@yield: {D}'},
    'restructuredtext': {'param': ':param a: {D}', 'return': ':return: {D}', 'raise': ':raise ValueError: {D}', 'keyword': ':keyword k: {D}', 'note': ':note: {D}',
                         'param-cont': ':param a: {w}\n    {D}',
                         'cons-colon': ':Parameters:\n    - `a`: {D}\n    - `kw`: {w}', 'cons-dash': ':Parameters:\n    - `a` - {D}\n    - `kw` - {w}',
                         'cons-spacecolon': ':Parameters:\n    - `a` : {D}', 'cons-second': ':Parameters:\n    - `kw`: {w}\n    - `a`: {D}',
                         'cons-exceptions': ':Exceptions:\n    - `ValueError`: {D}', 'cons-keywords': ':Keywords:\n    - `k`: {D}',
                         'cons-deflist': ':Parameters:\n    `a` : int\n        {D}',
                         # a consolidated field whose body goes on after the list: a closing paragraph, a second list
                         'cons-trailing-para': ':Parameters:\n    - `a`: {w}\n\n    {D}', 'cons-two-lists': ':Parameters:\n    - `a`: {w}\n\n    {w2}\n\n    - `kw`: {D}',
                         'cons-exceptions-trailing-para': ':Exceptions:\n    - `ValueError`: {w}\n\n    {D}', 'cons-leading-para': ':Parameters:\n    {D}\n\n    - `a`: {w}'},
    'google': {'param': 'Args:\n    a: {D}', 'return': 'Returns:\n    {D}', 'raise': 'Raises:\n    ValueError: {D}', 'keyword': 'Keyword Args:\n    k: {D}',
               'see-named': 'See Also:\n    f: {D}', 'note': 'Note:\n    {D}', 'warns': 'Warns:\n    UserWarning: {D}', 'yield': 'Yields:\n    int: {D}',
               'param-typed': 'Args:\n    a (int): {D}', 'param-cont': 'Args:\n    a: {w}\n        {D}',
               # the description starts on the line after the colon; the type spans several lines
               'param-typed-nextline': 'Args:\n    a (int):\n        {D}', 'param-mltype': 'Args:\n    a (Union[int,\n        str]): {D}',
               'param-mltype-nextline': 'Args:\n    a (Union[int,\n        str]):\n        {D}', 'keyword-mltype-nextline': 'Keyword Args:\n    k (Union[int,\n        str]):\n        {D}',
               'return-mltype-nextline': 'Returns:\n    Union[int,\n    str]:\n        {D}', 'yield-mltype-nextline': 'Yields:\n    Union[int,\n    str]:\n        {D}',
               'return-typed-nextline': 'Returns:\n    int:\n        {D}'},
    'numpy': {'param': 'Parameters\n----------\na\n    {D}', 'return': 'Returns\n-------\nint\n    {D}', 'raise': 'Raises\n------\nValueError\n    {D}',
              'see-named': 'See Also\n--------\nf : {D}', 'see-named-cont': 'See Also\n--------\nf : {w}\n    {D}', 'note': 'Notes\n-----\n{D}',
              'warns': 'Warns\n-----\nUserWarning\n    {D}', 'yield': 'Yields\n------\nint\n    {D}', 'return-freeform': 'Returns\n-------\n{D}',
              'keyword': 'Other Parameters\n----------------\nk\n    {D}', 'param-typed': 'Parameters\n----------\na : int\n    {D}', 'param-cont': 'Parameters\n----------\na\n    {w}\n    {D}'},
}
EXACT_HOME = {'cons-trailing-para': None, 'cons-two-lists': None, 'cons-exceptions-trailing-para': None, 'cons-leading-para': None,
              'param-typed-nextline': ('Parameters', 'a'), 'param-mltype': ('Parameters', 'a'), 'param-mltype-nextline': ('Parameters', 'a'), 'keyword-mltype-nextline': ('Parameters', 'k'),
              'return-mltype-nextline': ('Returns', None), 'yield-mltype-nextline': ('Yields', None), 'return-typed-nextline': ('Returns', None),
              'see-named': None, 'see-named-cont': None, 'see': ('See Also', None), 'author': ('Author', None), 'warns': ('Warns', None), 'yield': ('Yields', None), 'return-freeform': ('Returns', None),
              'param': ('Parameters', 'a'), 'param-cont': ('Parameters', 'a'), 'param-typed': ('Parameters', 'a'), 'return': ('Returns', None), 'raise': ('Raises', 'ValueError'),
              'keyword': ('Parameters', 'k'), 'note': ('Note', None), 'cons-colon': ('Parameters', 'a'), 'cons-dash': ('Parameters', 'a'), 'cons-spacecolon': ('Parameters', 'a'),
              'cons-second': ('Parameters', 'a'), 'cons-exceptions': ('Raises', 'ValueError'), 'cons-keywords': ('Parameters', 'k'), 'cons-deflist': ('Parameters', 'a')}


def norm(t: str) -> str:
    return ' '.join(t.split())


def judge_exact_field(s: Any, fmt: str, fld: str, di: int, res: Dict[str, Any]) -> None:
    from pydoctor import epydoc2stan
    from pydoctor.stanutils import flatten
    f = s.allobjects['m.f']
    w = W()
    lead = w()
    desc, _ = fmt_field(DESCS[di], w)
    text, _ = fmt_field(EXACT_FIELDS[fmt][fld].replace('{D}', desc), w)
    doc = f'{lead}\n\n{text}\n'
    res['evals'] += 1
    res['nontrivial'].add(core.h('exact-field', fmt, fld, di))
    case = {'kind': 'exact-field', 'fmt': fmt, 'fld': fld, 'desc': di}
    install(s, f, doc)
    h = flatten(epydoc2stan.format_docstring(f))
    msgs = [m for sec, m, th in s.messages if th < 0 and 'Cannot find link target' not in m]      # a dangling link is no report about lost text
    res['outcomes'].add((fmt, 'exact-field', bool(msgs)))
    words = re.findall(r'w\d{4}', doc)
    shown_all = strip_tags(h)
    lost = [t for t in words if t not in shown_all]
    if lost:
        if not msgs:       # lost AND nothing reported (a reported problem is the statement's escape clause)
            res['violations'].append(core.violation(f'field-words-lost/{fmt}/{fld}/d{di}', f'{fmt}: {lost} not shown and nothing reported\n{doc}', case))
        return
    if msgs:
        return      # the host markup gives the description another meaning and says so
    _, _, table = h.partition('<table class="fieldTable">')
    if EXACT_HOME.get(fld, ('x', None)) is None or (fmt in ('google', 'numpy') and fld in ('note',)):
        # sections the napoleon formats render in the description itself: the exact text must be part of the visible text
        want = norm(desc)
        if fld.endswith('-cont'):
            want = norm(re.findall(r'w\d{4}', text)[0] + ' ' + desc)
        if desc.startswith('- ') or want in norm(shown_all):
            return
        res['violations'].append(core.violation(f'field-text-not-exact/{fmt}/{fld}/d{di}', f'{fmt}: section {fld} text {want!r} not in the visible text {norm(shown_all)!r}\n{doc}', case))
        return
    heading, arg = EXACT_HOME[fld]
    rows = [r for hd, rows_ in table_sections(table) if hd == heading for r in rows_]
    if arg:
        rows = [r for r in rows if re.sub(r'[:\s(].*', '', r[0].strip()) == arg]
    cells = [norm(d) for a, d in rows]
    want = norm(desc)
    if fld.endswith('-cont'):
        want = norm(re.findall(r'w\d{4}', text)[0] + ' ' + desc)
    # the description is itself block markup of the host (a bullet list), or 'type: description' in a napoleon Returns / Raises section:
    # its punctuation is markup by the grammar of the format, only the words are compared (all of them are on the page, checked above)
    if desc.startswith('- ') or (fmt in ('google', 'numpy') and fld in ('return', 'raise', 'warns', 'yield') and ':' in desc) or fld == 'return-freeform':      # (a lone line in a numpy Returns section is a type)
        return
    if want not in cells:
        res['violations'].append(core.violation(f'field-text-not-exact/{fmt}/{fld}/d{di}', f'{fmt}: field {fld} description {want!r} shown as {cells!r}\n{doc}', case))


PUNCT_PARAS = ['{w} - {w2}: ({w3}), "{w4}"; -1 {w5} <&> {w6} ... {w7}!', '{w}, e.g. -{w2} or :{w3}: and {w4}:{w5} / {w6}--{w7}', "{w}'s ({w2}) [{w3}] #{w4} %{w5} ${w6} ^{w7}"]


def judge_punct_para(s: Any, fmt: str, pi: int, res: Dict[str, Any]) -> None:
    from pydoctor import epydoc2stan
    from pydoctor.stanutils import flatten
    f = s.allobjects['m.f']
    w = W()
    lead = w()
    p, _ = fmt_field(PUNCT_PARAS[pi], w)
    tail = w()
    doc = f'{lead}\n\n{p}\n\n{tail}\n'
    res['evals'] += 1
    res['nontrivial'].add(core.h('punct', fmt, pi))
    case = {'kind': 'punct', 'fmt': fmt, 'para': pi}
    install(s, f, doc)
    h = flatten(epydoc2stan.format_docstring(f))
    shown = norm(strip_tags(h))
    if shown != norm(f'{lead} {p} {tail}'):
        res['violations'].append(core.violation(f'paragraph-text-not-exact/{fmt}/p{pi}', f'{fmt}: {doc!r} shown as {shown!r}', case))



# ---------------------------------------------------------------------------------------------------------------------
# every field on every kind of owner: the text of a field is shown somewhere on the owner's page (its own documentation, the
# documentation or type of a member the field documents) or the field is reported - whatever the owner is
OWNER_SRC = {
    'function': 'def o(a, *args, k=1, **kw):\n{D}',
    'method': 'class K:\n    def o(self, a, *args, k=1, **kw):\n{D8}',
    'property': 'class K:\n    @property\n    def o(self):\n{D8}',
    'property+setter': 'class K:\n    @property\n    def o(self):\n{D8}\n    @o.setter\n    def o(self, a):\n        pass',
    'class': 'class o:\n{D}\n    q = 1\n    def __init__(self, a, *args, k=1, **kw): pass',
    'exception': 'class o(Exception):\n{D}',
    'module': '{D0}\nq = 1\nv = 2',
    'attribute': 'class K:\n    o = 1\n{D}',
    'module-variable': 'o = 1\n{D0}',
    'instance-variable': 'class K:\n    def __init__(self):\n        self.o = 1\n{D8}',
}
OWNER_FIELDS_E = dict(FIELDS_E)
OWNER_FIELDS_E.update({'ivar': '@ivar q: {w}', 'cvar': '@cvar c: {w}', 'var': '@var v: {w}', 'type-q': '@type q: {w}', 'ivar-new': '@ivar z: {w}', 'return+rtype': '@return: {w}\n@rtype: {w2}',
                       'param-self': '@param self: {w}', 'type-only-return': '@rtype: {w}',
                       # the star parameters: documented only by a type, next to individually documented keywords / without anything else
                       'kwtype-with-keyword': '@keyword zz: {w}\n@type kw: {w2}', 'kwtype-only': '@type kw: {w}', 'argstype-only': '@type args: {w}', 'kwtype-with-param': '@param a: {w}\n@type kw: {w2}',
                       'keyword-and-kwparam': '@keyword zz: {w}\n@param kw: {w2}', 'kwtype-keyword-kwparam': '@keyword zz: {w}\n@param kw: {w2}\n@type kw: {w3}'})
OWNER_FIELDS_NAP = {
    'google': dict(NAP_FIELDS['google'], **{'ivar': 'Attributes:\n    q: {w}', 'ivar-typed': 'Attributes:\n    q (int): {w}', 'methods': 'Methods:\n    m: {w}', 'example': 'Example:\n    {w}', 'refs': 'References:\n    {w}'}),
    'numpy': dict(NAP_FIELDS['numpy'], **{'ivar': 'Attributes\n----------\nq\n    {w}', 'ivar-typed': 'Attributes\n----------\nq : int\n    {w}', 'methods': 'Methods\n-------\nm\n    {w}', 'example': 'Examples\n--------\n{w}'}),
}


def judge_owner_field(fmt: str, owner: str, fld: str, with_body: bool, res: Dict[str, Any]) -> None:
    from pydoctor import epydoc2stan, model
    from pydoctor.stanutils import flatten_text
    from pydoctor.templatewriter import pages
    w = W()
    btoks: List[str] = []
    if isinstance(with_body, str):
        # a body that is ONE block and no paragraph: a literal block, a doctest block, a math block
        bw = w()
        btoks = [bw]
        body = {'literal-only': f'::\n\n    {bw} = 1\n\n', 'doctest-only': f'>>> {bw} = 1\n\n', 'math-only': f'.. math::\n\n    {bw} = 1\n\n',
                'bullets-only': f'- {bw}\n\n', 'epy-doctest-only': f'>>> {bw} = 1\n\n'}[with_body]
    else:
        body = f'Desc {w()}.\n\n' if with_body else ''
    tmpl = (OWNER_FIELDS_NAP[fmt] if fmt in NAP_FIELDS else OWNER_FIELDS_E)[fld]
    text, toks = fmt_field(tmpl, w)
    toks = list(toks) + btoks
    if fmt == 'restructuredtext':
        text = re.sub(r'^@(\w+)( [^:\n]+)?:', lambda m: ':' + m.group(1) + (m.group(2) or '') + ':', text, flags=re.M)
    doc = body + text

    def lit(ind: int) -> str:
        pad = ' ' * ind
        return pad + '"""\n' + ''.join((pad + l if l else '') + '\n' for l in doc.split('\n')) + pad + '"""'
    src = OWNER_SRC[owner].replace('{D8}', lit(8)).replace('{D0}', lit(0)).replace('{D}', lit(4)) + '\n'
    case = {'kind': 'owner-field', 'fmt': fmt, 'owner': owner, 'fld': fld, 'body': with_body}
    res['evals'] += 1
    res['nontrivial'].add(core.h('owner-field', fmt, owner, fld, with_body))
    with pd.scratch('c09o') as d:
        pd.write_tree(d, {'m.py': src})
        s = pd.build_files(d, ['m.py'], options={'docformat': fmt}, systemcls=pd.RecordingSystem)
    shown: List[str] = []
    for o in s.allobjects.values():
        try:
            if isinstance(o, (model.Module, model.Class)) and o.docstring is not None:
                epydoc2stan.extract_fields(o)
        except Exception:  # noqa
            pass
    for o in list(s.allobjects.values()):
        shown.append(flatten_text(epydoc2stan.format_docstring(o)))
        if isinstance(o, model.Attribute):
            t = epydoc2stan.type2stan(o)
            if t is not None:
                shown.append(flatten_text(t))
        if isinstance(o, model.Function):
            shown.append(flatten_text(pages.format_signature(o)))
    alltext = ' '.join(shown)
    msgs = [m for sec, m, th in s.messages if th < 0]
    res['outcomes'].add((fmt, owner, bool(msgs)))
    lost = [t for t in toks if t not in alltext]
    if lost and not msgs:
        if btoks and btoks[0] in lost:
            res['violations'].append(core.violation(f'body-block-lost-silently/{owner}/{with_body}', f'{fmt}: the {with_body} body of the docstring of a {owner} (with field {fld}): {lost} shown nowhere and nothing reported\n{src}', case))
            return
        res['violations'].append(core.violation(f'field-text-lost-silently/{owner}/{fld.split("-")[0]}' + ('+body' if with_body and owner.startswith('property') else ''),
                                                f'{fmt}: field {fld} in the docstring of a {owner}: {lost} shown nowhere and nothing reported\n{src}', case))


def jobs(tier: str) -> Iterable[Tuple[str, Any]]:
    N = 2 if tier == 'quick' else 3
    names = list(BLOCKS)
    for fmt in ('epytext', 'restructuredtext', 'google', 'numpy'):
        for first in names:
            yield (f'blocks<=2:single-fields', ('docs', fmt, first, 2, 'single'))
        yield ('variable-fields', ('varfields', fmt))
    yield ('plaintext', ('plain',))
    for host in CODE_HOSTS:
        yield ('code-lines', ('code', host, 'code' if host in ('rst-code', 'rst-python') else 'doctest'))
    for fmt in EXACT_FIELDS:
        yield ('exact-field-text', ('exact', fmt))
    for fmt in EXACT_FIELDS:
        for owner in OWNER_SRC:
            yield ('fields-x-owners', ('owners', fmt, owner))
    if N >= 3:
        for fmt in ('epytext', 'restructuredtext', 'google', 'numpy'):
            for first in names:
                for second in names:
                    yield ('blocks<=3:single-fields', ('docs3', fmt, first, second))
            for first in names:
                yield ('blocks<=2:field-pairs', ('docs', fmt, first, 2, 'pairs'))


def usable(fmt: str, c: str) -> bool:
    return not (fmt == 'epytext' and c in RST_ONLY)


REPEATABLE = ('note', 'see', 'author', 'since', 'raise', 'raise2', 'warns', 'unknown', 'param-kw', 'keyword', 'return', 'rtype', 'yield', 'param', 'type', 'returns-syn')


def field_sets(fmt: str, mode: str) -> List[Tuple[str, ...]]:
    names = list(NAP_FIELDS[fmt]) if fmt in NAP_FIELDS else list(FIELDS_E)
    if mode == 'single':
        # every single field, and every repeatable field given twice and three times (each occurrence with its own words)
        return [()] + [(f,) for f in names] + [(f, f) for f in names if f in REPEATABLE] + [(f, f, f) for f in names if f in ('note', 'see', 'author')]
    return [(a, b) for a in names for b in names if a != b and FIELD_HOME[a] != FIELD_HOME[b]]


def run_job(job: Any, tier: str) -> Dict[str, Any]:
    res = core.result()
    if job[0] == 'docs':
        _, fmt, first, n, mode = job
        if not usable(fmt, first):
            return res
        s = mk(fmt)
        combos = [(first,)] + [(first, c2) for c2 in BLOCKS if usable(fmt, c2)]
        for combo in combos:
            for fields in field_sets(fmt, mode):
                judge(s, fmt, combo, fields, res)
    elif job[0] == 'docs3':
        _, fmt, first, second = job
        if not (usable(fmt, first) and usable(fmt, second)):
            return res
        s = mk(fmt)
        for third in BLOCKS:
            if usable(fmt, third):
                for fields in [(), ('param',), ('return',)]:
                    judge(s, fmt, (first, second, third), fields, res)
    elif job[0] == 'varfields':
        judge_varfields(job[1], res)
    elif job[0] == 'code':
        _, host, kind = job
        s = mk(HOST_FMT[host])
        n = 2 if tier == 'quick' else 3
        for c in (code_cases(n) if kind == 'code' else doctest_cases(n, host)):
            judge_code(s, host, c[1:], res)
    elif job[0] == 'owners':
        _, fmt, owner = job
        for fld in (OWNER_FIELDS_NAP[fmt] if fmt in NAP_FIELDS else OWNER_FIELDS_E):
            for with_body in (True, False):
                judge_owner_field(fmt, owner, fld, with_body, res)
            if fld in ('return', 'rtype', 'param', 'note', 'ivar', 'raise', 'type-only-return', 'return+rtype', 'yield'):
                for bk in (('epy-doctest-only', 'bullets-only') if fmt == 'epytext' else ('literal-only', 'doctest-only', 'math-only', 'bullets-only')):
                    judge_owner_field(fmt, owner, fld, bk, res)
    elif job[0] == 'exact':
        fmt = job[1]
        s = mk(fmt)
        for fld in EXACT_FIELDS[fmt]:
            for di in range(len(DESCS)):
                judge_exact_field(s, fmt, fld, di, res)
        for pi in range(len(PUNCT_PARAS)):
            judge_punct_para(s, fmt, pi, res)
    else:
        s = mk('plaintext')
        for combo in itertools.chain(((c,) for c in BLOCKS), itertools.product(list(BLOCKS)[:8], repeat=2)):
            judge_plain(s, combo, res)
    return res


def replay(case: Dict[str, Any]) -> List[Dict[str, Any]]:
    res = core.result()
    if case['kind'] == 'doc':
        judge(mk(case['fmt']), case['fmt'], case['blocks'], case['fields'], res)
    elif case['kind'] == 'plain':
        judge_plain(mk('plaintext'), case['blocks'], res)
    elif case['kind'] == 'code':
        judge_code(mk(HOST_FMT[case['host']]), case['host'], case['lines'], res)
    elif case['kind'] == 'exact-field':
        judge_exact_field(mk(case['fmt']), case['fmt'], case['fld'], case['desc'], res)
    elif case['kind'] == 'owner-field':
        judge_owner_field(case['fmt'], case['owner'], case['fld'], case['body'], res)
    elif case['kind'] == 'punct':
        judge_punct_para(mk(case['fmt']), case['fmt'], case['para'], res)
    else:
        judge_varfields(case['fmt'], res)
        res['violations'] = [v for v in res['violations'] if v['case'] == case]
    return res['violations']
