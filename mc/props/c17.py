"""C17 - written inventories read back faithfully; malformed remote ones are survivable.

Round trip: for every project of the C11/C12 family (singles and pairs, with privacy rules) the objects.inv written by the
real driver is loaded by pydoctor's SphinxInventory reader (bytes served through a stub cache) and by Sphinx'
InventoryFile: exactly one entry per visible object reachable through contents, mapped to base + obj.url.
Robustness (fault enumeration on the byte string): every truncation point, every single-byte substitution from a 7-byte
alphabet in header and payload, header line deletions/duplications, wrong-compression variants, URL shapes, and every
payload line of up to 6 columns over a 9-token column alphabet inserted between two control lines.
Oracle: update() returns, the control lines still resolve, rejected lines are reported, non-py lines are skipped silently.
"""
from __future__ import annotations

import gzip
import itertools
import traceback
import zlib
from typing import Any, Dict, Iterable, List, Optional, Sequence, Tuple
from urllib.parse import unquote

from mc import core, pd, site

ID = 'C17'
LEVEL = 'fault_enumeration'
RULE = ('round trip: one full driver run per project (feature singles and pairs x privacy rules), inventory read back by two readers; robustness: '
        'exhaustive single-fault mutations of a 6-line inventory (every truncation, every byte x 7 substitutes, header edits, body encodings, '
        'every line <= 6 columns over 9 column tokens); a fault case is non-trivial when the mutated inventory differs from the valid one in what it '
        'yields (lines dropped/changed or a message reported); distinct = distinct mutated byte strings')
ASSUMPTIONS = [
    'which malformed lines are accepted is not prescribed; only: no exception, control lines resolve, rejected lines are reported',
    'a mutation that corrupts the zlib stream as a whole leaves no usable part: then only "no exception + reported" is demanded',
    'Sphinx 9.1 InventoryFile.loads is the second reader',
]
FLOOR = {'quick': 1000, 'thorough': 5000}
SPACE = {'quick': 'round trip: feature singles x {default, 2 privacy variants} + pairs; robustness: all truncations, all byte substitutions (7 substitutes), header edits, 8 body variants, all lines <= 5 columns',
         'thorough': 'round trip: pairs x privacy variants; robustness: lines <= 6 columns, pairs of substitutions in one payload line'}
JOB_TIMEOUT = 2300

HEADER = b'# Sphinx inventory version 2\n# Project: x\n# Version: 1\n# The remainder of this file is compressed with zlib.\n'
CTRL1 = 'ctrl.one py:class -1 ctrl.one.html -\n'
CTRL2 = 'ctrl.two py:function 1 ctrl.html#two Display name\n'
BASE_LINES = [CTRL1, 'some.mod py:module 0 some.mod.html -\n', 'a label std:label -1 page.html#a-label A Label\n', 'm.f py:method 1 m.html#$ -\n', CTRL2]
SUBS = [b'\x00', b'\n', b'#', b' ', b'\xff', b'x', b'%']
COLS = ['name', 'py:class', 'std:label', '-1', '1', '-', '', 'caf%C3%A9.html#%s', '%(k)d%']


class Cache:
    def __init__(self, data: bytes) -> None:
        self.data = data

    def get(self, u: str) -> bytes:
        return self.data

    def close(self) -> None:
        pass


def load(data: bytes, url: str = 'http://h/objects.inv') -> Tuple[Any, List[Tuple[Any, Any]], Optional[Tuple[str, str]]]:
    from pydoctor.sphinx import SphinxInventory
    msgs: List[Tuple[Any, Any]] = []
    inv = SphinxInventory(logger=lambda *a, **k: msgs.append((a, k)))
    try:
        inv.update(Cache(data), url)
        return inv, msgs, None
    except BaseException as e:  # noqa
        if type(e).__name__ == 'JobTimeout':
            raise
        return inv, msgs, (type(e).__name__, pd.exc_site(e))


def errors_of(msgs: Sequence[Tuple[Any, Any]]) -> int:
    return sum(1 for a, k in msgs if k.get('thresh', 0) < 0)


GOOD = HEADER + zlib.compress(''.join(BASE_LINES).encode())


def fault(kind: str, data: bytes, res: Dict[str, Any], expect_ctrl: bool, detail: Any, url: str = 'http://h/objects.inv') -> None:
    res['evals'] += 1
    inv, msgs, err = load(data, url)
    case = {'kind': 'bytes', 'what': kind, 'detail': list(detail) if isinstance(detail, tuple) else detail, 'data': data, 'url': url, 'expect_ctrl': expect_ctrl}
    if err:
        res['violations'].append(core.violation(f'raises/{err[0]}@{err[1]}/{kind}', f'loading a {kind} inventory ({detail!r}) raises {err[0]} at {err[1]}', case))
        res['nontrivial'].add(core.h(data))
        return
    links = dict(inv._links)
    nerr = errors_of(msgs)
    if expect_ctrl:
        ok1 = inv.getLink('ctrl.one') == 'http://h/ctrl.one.html'
        ok2 = inv.getLink('ctrl.two') == 'http://h/ctrl.html#two'
        if not (ok1 and ok2):
            why = ''
            if kind == 'payload-byte':
                sub = detail[1] if isinstance(detail[1], bytes) else bytes(detail[1])
                why = '/invalid-utf8-byte' if sub == b'\xff' else f'/byte-{sub.hex()}'
            res['violations'].append(core.violation(f'usable-lines-lost/{kind}{why}', f'{kind} ({detail!r}): untouched control lines no longer resolve (ctrl.one ok={ok1}, ctrl.two ok={ok2}); messages {msgs[:2]}', case))
    if not links and not nerr and data != GOOD and kind not in ('url',):
        res['violations'].append(core.violation(f'unusable-not-reported/{kind}', f'{kind} ({detail!r}): nothing could be used and nothing was reported', case))
    if nerr or len(links) != 4:
        res['nontrivial'].add(core.h(data))
    res['outcomes'].add((kind, len(links), min(nerr, 3)))


def non_python_line(line: str) -> bool:
    """Reference reading of the inventory format: the type column is the one before the first integer column (index >= 2);
    lines of another domain than py: are documented to be skipped silently."""
    parts = line.rstrip('\n').split(' ')
    for i in range(2, len(parts)):
        if parts[i].lstrip('-').isdigit() and parts[i] not in ('-',):
            try:
                int(parts[i])
            except ValueError:
                continue
            return not parts[i - 1].startswith('py:')
    return False


def robustness(part: str, res: Dict[str, Any], tier: str) -> None:
    pl = ''.join(BASE_LINES).encode()
    if part == 'linker':
        linker_use(res)
    elif part == 'linker-aliases':
        linker_aliases(res)
    elif part == 'updates':
        update_histories(res)
    elif part == 'truncate':
        for i in range(len(GOOD) + 1):
            fault('truncated', GOOD[:i], res, False, i)
    elif part.startswith('subst-header'):
        sub = SUBS[int(part.split(':')[1])]
        for i in range(len(HEADER)):
            data = HEADER[:i] + sub + HEADER[i + 1:] + zlib.compress(pl)
            # a header byte turned into a newline / removing the leading '#' may push a header line into the body: no usable part promised
            fault('header-byte', data, res, False, (i, sub))
    elif part.startswith('subst-payload'):
        sub = SUBS[int(part.split(':')[1])]
        lo, hi = len(CTRL1), len(pl) - len(CTRL2)
        for i in range(len(pl)):
            data = HEADER + zlib.compress(pl[:i] + sub + pl[i + 1:])
            untouched = lo <= i < hi - 1      # both control lines (and their terminating newlines) intact
            fault('payload-byte', data, res, untouched, (i, sub))
    elif part == 'bodies':
        hl = HEADER.split(b'\n')[:-1]
        for name, body in {'raw': pl, 'garbage': zlib.compress(b'\xff\xfe\x00'), 'empty': b'', 'trailing-junk': zlib.compress(pl) + b'junk', 'gzip': gzip.compress(pl),
                           'zlib-of-zlib': zlib.compress(zlib.compress(pl)), 'deflate-raw': zlib.compress(pl)[2:-4], 'crlf': zlib.compress(pl.replace(b'\n', b'\r\n'))}.items():
            fault('body-' + name, HEADER + body, res, name in ('trailing-junk', 'crlf') and False, name)
        for i in range(len(hl)):
            fault('header-line-removed', b'\n'.join(hl[:i] + hl[i + 1:]) + b'\n' + zlib.compress(pl), res, True, i)
            fault('header-line-duplicated', b'\n'.join(hl[:i + 1] + hl[i:]) + b'\n' + zlib.compress(pl), res, True, i)
        fault('no-header', zlib.compress(pl), res, True, '')
        for url in ('objects.inv', 'http://h/objects.inv', '', 'http://h/', 'h/o', 'http://h/%7Euser/objects.inv', 'http://h/%s/%(k)d/objects.inv', '%'):
            fault('url', GOOD, res, url == 'http://h/objects.inv', url, url)
            # the same addresses serving an inventory with a malformed line: the report mentions the address and the line
            fault('url+malformed-line', HEADER + zlib.compress((CTRL1 + 'short%line 100%\n' + CTRL2).encode()), res, url == 'http://h/objects.inv', url, url)
    elif part == 'locations':
        # reference reading of the location column (Sphinx inventory v2): a location that ENDS in '$' stands for location[:-1] + name
        LOCS = ['p.html', 'p.html#$', 'p.html#module-$', 'lib/p.html#x', '$', 'dir/$', 'p.html#$-suffix', 'p$.html#a', 'p.html#a$b$', '#$', 'p.html#%24', 'p.html#$$']
        NAMES = ['n', 'a.b', 'os', 'x$y', 'caf\u00e9']
        for base in ('http://h/objects.inv', 'http://h/sub/dir/objects.inv', 'https://h:8080/~u/objects.inv'):
            prefix = base[:-len('objects.inv')].rstrip('/')
            for loc in LOCS:
                for name in NAMES:
                    for typ in ('py:module', 'py:class', 'py:method'):
                        line = f'{name} {typ} 1 {loc} -\n'
                        data = HEADER + zlib.compress((CTRL1 + line + CTRL2).encode())
                        res['evals'] += 1
                        inv, msgs, err = load(data, base)
                        case = {'kind': 'location', 'base': base, 'loc': loc, 'name': name, 'typ': typ}
                        res['nontrivial'].add(core.h('loc', base, loc, name, typ))
                        if err:
                            res['violations'].append(core.violation(f'raises/{err[0]}@{err[1]}/location', f'line {line!r} raises {err[0]}', case))
                            continue
                        want = prefix + '/' + (loc[:-1] + name if loc.endswith('$') else loc)
                        got = inv.getLink(name)
                        res['outcomes'].add(('location', got == want))
                        if got != want:
                            shape = 'ends-with-dollar' if loc.endswith('$') else ('dollar-inside' if '$' in loc else 'plain')
                            res['violations'].append(core.violation(f'location-misread/{shape}', f'inventory line {line!r} from {base}: getLink({name!r}) = {got!r}, the format says {want!r}', case))
    elif part == 'display-names':
        # the display-name column is free text up to the end of the LINE (\n): characters that other text APIs take for line boundaries are part of it
        for disp in ['-', 'Plain Title', 'Some\u2028title', 'A\x1cB C', 'Tab\tX', 'x\x85y', 'Vertical\x0btab', 'Form\x0cfeed', 'Para\u2029sep', 'cr\rinside', 'trailing  spaces  ']:
            for typ in ('py:class', 'py:function', 'std:label'):
                line = f'dn.name {typ} 1 dn.html#x {disp}\n'
                data = HEADER + zlib.compress((CTRL1 + line + CTRL2).encode())
                res['evals'] += 1
                res['nontrivial'].add(core.h('disp', disp, typ))
                inv, msgs, err = load(data)
                case = {'kind': 'display', 'disp': disp, 'typ': typ}
                cls_ = 'plain' if disp.isprintable() else 'with-' + '+'.join(sorted({'u%04x' % ord(c) for c in disp if not c.isprintable()}))
                if err:
                    res['violations'].append(core.violation(f'raises/{err[0]}@{err[1]}/display-name', f'line {line!r} raises {err[0]}', case))
                    continue
                ok_ctrl = inv.getLink('ctrl.one') == 'http://h/ctrl.one.html' and inv.getLink('ctrl.two') == 'http://h/ctrl.html#two'
                want = 'http://h/dn.html#x' if typ.startswith('py:') else None
                if not ok_ctrl or inv.getLink('dn.name') != want:
                    res['violations'].append(core.violation(f'display-name-breaks-line/{cls_}', f'line {line!r}: getLink gives {inv.getLink("dn.name")!r} (expected {want!r}), control lines ok={ok_ctrl}', case))
                elif errors_of(msgs) or len(inv._links) != (3 if want else 2):
                    res['violations'].append(core.violation(f'display-name-spurious-report-or-entry/{cls_}', f'well-formed line {line!r}: {errors_of(msgs)} error(s) reported, entries {sorted(inv._links)}', case))
    elif part.startswith('lines'):
        L = int(part.split(':')[1])
        firsts = [COLS[int(part.split(':')[2])]] if part.count(':') == 2 else None
        for cols in (itertools.product(COLS, repeat=L) if firsts is None else itertools.product(firsts, *([COLS] * (L - 1)))):
            line = ' '.join(cols) + '\n'
            data = HEADER + zlib.compress((CTRL1 + line + CTRL2).encode())
            res['evals'] += 1
            inv, msgs, err = load(data)
            case = {'kind': 'line', 'cols': list(cols)}
            shape = '+'.join('name' if c == 'name' else 'type' if ':' in c else 'int' if c.lstrip('-').isdigit() else 'dash' if c == '-' else 'empty' for c in cols)
            if err:
                res['violations'].append(core.violation(f'raises/{err[0]}@{err[1]}/line', f'payload line {line!r} raises {err[0]} at {err[1]}', case))
                continue
            if inv.getLink('ctrl.one') != 'http://h/ctrl.one.html' or inv.getLink('ctrl.two') != 'http://h/ctrl.html#two':
                res['violations'].append(core.violation('usable-lines-lost/line', f'payload line {line!r}: control lines around it no longer resolve', case))
            accepted = len(inv._links) > 2
            nerr = errors_of(msgs)
            # reference reading of "malformed": a py: line needs name, type, integer priority, location, display
            if not accepted and not nerr and line.strip() and not non_python_line(line):
                res['violations'].append(core.violation(f'rejected-line-not-reported/{shape}', f'payload line {line!r} was neither used nor reported', case))
            if nerr or accepted:
                res['nontrivial'].add(core.h(cols))
            res['outcomes'].add(('line', accepted, min(nerr, 2)))
    if len(res['samples']) < 1:
        res['samples'].append({'robustness_part': part, 'base_inventory_lines': BASE_LINES})


# ---------------------------------------------------------------- round trip

# partial runs: the inventory lists the visible objects of the subjects given (each once), and nothing that is hidden - whatever the subject's place
SUBJECT_VARIANTS: List[List[str]] = [['--html-subject', 'pk.a'], ['--html-subject', 'pk.a.A', '--html-subject', 'pk.b'], ['--privacy', 'HIDDEN:pk.a', '--html-subject', 'pk.a.A'],
                                     ['--privacy', 'HIDDEN:pk.a.A', '--html-subject', 'pk.a.A', '--html-subject', 'pk.b'], ['--html-subject', 'pk', '--html-subject', 'pk.a'],
                                     ['--html-subject', 'pk.a', '--html-subject', 'pk.a'], ['--privacy', 'PRIVATE:pk.a', '--html-subject', 'pk.a']]
VARIANTS: List[List[str]] = [['--project-name', 'My\nProject # x', '--project-version', '1.0\n# 2'], [], ['--privacy', 'HIDDEN:pk.a.A', '--privacy', 'PRIVATE:pk.b'], ['--privacy', 'HIDDEN:pk.sub', '--privacy', 'PUBLIC:pk.a._P']]


def roundtrip(feats: Sequence[str], extra: Sequence[str], res: Dict[str, Any]) -> None:
    from sphinx.util.inventory import InventoryFile
    case = {'kind': 'roundtrip', 'feats': list(feats), 'args': list(extra)}
    res['evals'] += 1
    with site.run(feats, extra) as r:
        if r.exc or r.system is None:
            res['violations'].append(core.violation(f'run-failed/{r.exc_type}@{r.exc_site}', f'driver failed: {r.exc_type}', case))
            return
        data = (r.out / 'objects.inv').read_bytes()
        s = r.system
        expected: Dict[str, str] = {}

        def walk(o: Any) -> None:
            if not o.isVisible:
                return
            expected[o.fullName()] = o.url
            for c in o.contents.values():
                walk(c)
        subjects = [extra[i + 1] for i, a in enumerate(extra) if a == '--html-subject']
        for root in ([s.allobjects[x] for x in subjects if x in s.allobjects] if subjects else s.rootobjects):
            walk(root)
        inv, msgs, err = load(data, 'http://base/objects.inv')
        if err:
            res['violations'].append(core.violation(f'own-inventory-raises/{err[0]}@{err[1]}', f'reading the inventory written for {list(feats)} raises {err}', case))
            return
        if errors_of(msgs):
            res['violations'].append(core.violation('own-inventory-reported-errors', f'reading back our own inventory reports {msgs[:2]}', case))
        got = {k: inv.getLink(k) for k in inv._links}
        missing = sorted(set(expected) - set(got))
        extra_names = sorted(set(got) - set(expected))
        if missing:
            res['violations'].append(core.violation('roundtrip-missing/' + ('name-with-space' if any(' ' in m for m in missing) else type(s.allobjects[missing[0]]).__name__),
                                                    f'{list(feats)} {list(extra)}: visible objects missing from the inventory as read back: {missing[:5]}', case))
        if extra_names:
            res['violations'].append(core.violation('roundtrip-extra/' + ('superseded-duplicate' if any(' ' in m for m in extra_names) else 'other'),
                                                    f'{list(feats)} {list(extra)}: inventory entries for names that are not visible documented objects: {extra_names[:5]}', case))
        for k in set(expected) & set(got):
            if got[k] != 'http://base/' + expected[k]:
                res['violations'].append(core.violation('roundtrip-url/' + type(s.allobjects[k]).__name__, f'{k}: inventory link {got[k]!r}, documented at {expected[k]!r}', case))
                break
        # exactly once: count payload lines
        try:
            body = zlib.decompress(data.split(b'\n', 4)[4]).decode('utf-8')
        except Exception as e:  # noqa
            res['violations'].append(core.violation('own-inventory-payload-unreadable', f'{list(feats)} {list(extra)}: what follows the four header lines of the written inventory is not a zlib stream ({type(e).__name__})', case))
            return
        names = [l.rsplit(' py:', 1)[0] for l in body.splitlines()]
        dups = sorted({n for n in names if names.count(n) > 1})
        if dups:
            res['violations'].append(core.violation('roundtrip-duplicate-entry', f'names listed more than once: {dups[:5]}', case))
        # Sphinx
        try:
            sx = InventoryFile.loads(data, uri='http://base/')
            sxnames: Dict[str, str] = {}
            items = sx.data.items() if hasattr(sx, 'data') else sx.items()
            for typ, ents in items:
                for name, item in ents.items():
                    sxnames[name] = getattr(item, 'uri', None) or item[2]
            if set(sxnames) != set(expected):
                diff = sorted(set(sxnames) ^ set(expected))
                res['violations'].append(core.violation('sphinx-reader-names/' + ('name-with-space' if any(' ' in m for m in diff) else 'other'),
                                                        f'Sphinx reads {len(sxnames)} names, {len(expected)} visible objects; differing {diff[:5]}', case))
            else:
                for k, uri in sxnames.items():
                    if unquote(uri) != unquote('http://base/' + expected[k]):
                        res['violations'].append(core.violation('sphinx-reader-url', f'{k}: Sphinx uri {uri!r}, documented at {expected[k]!r}', case))
                        break
        except Exception as e:  # noqa
            res['violations'].append(core.violation(f'sphinx-reader-raises/{type(e).__name__}', f'Sphinx cannot load the inventory: {e}', case))
        res['nontrivial'].add(core.h('rt', tuple(feats), tuple(extra)))
        core.bump(res, 'inventory_entries_checked', len(expected))
    if len(res['samples']) < 2:
        res['samples'].append({'roundtrip_project': list(feats), 'args': list(extra), 'entries': len(expected)})


def linker_use(res: Dict[str, Any]) -> None:
    """The reader's other client: cross-references of a documented project resolved through a loaded inventory.  Names of every relation to the
    project: foreign root, same top-level package but not part of the project (namespace packages / split distributions), members, unknown."""
    import re as _re
    from pydoctor import epydoc2stan
    from pydoctor.stanutils import flatten
    lines = ['ext.Thing py:class 1 ext.Thing.html -', 'ext.Thing.run py:method 1 ext.Thing.html#run -', 'pk.plugins py:module 0 pk.plugins.html -',
             'pk.plugins.Loader py:class 1 pk.plugins.Loader.html -', 'pk.plugins.Loader.load py:method 1 pk.plugins.Loader.html#$ -', 'pk.core.Own py:class 1 elsewhere.html -',
             'os py:module 0 library/os.html#module-$ -', 'a label std:label -1 page.html#a-label A Label']
    data = HEADER + zlib.compress(('\n'.join(lines) + '\n').encode())
    for fmt, q in (('epytext', lambda n: 'L{%s}' % n), ('restructuredtext', lambda n: '`%s`' % n)):
        want = {'ext.Thing': 'http://h/ext.Thing.html', 'ext.Thing.run': 'http://h/ext.Thing.html#run', 'pk.plugins': 'http://h/pk.plugins.html',
                'pk.plugins.Loader': 'http://h/pk.plugins.Loader.html', 'pk.plugins.Loader.load': 'http://h/pk.plugins.Loader.html#pk.plugins.Loader.load',
                'os': 'http://h/library/os.html#module-os', 'pk.core.Own': 'pk.core.Own.html', 'pk.nowhere.X': None}
        src_core = 'class Own:\n    "own"\n' + ''.join(f'def f{i}():\n    "see {q(n)}"\n' for i, n in enumerate(want))
        s = pd.new_system({'docformat': fmt}, systemcls=pd.RecordingSystem)
        s.intersphinx.update(Cache(data), 'http://h/objects.inv')
        b = s.systemBuilder(s)
        b.addModuleString('"pk"', 'pk', is_package=True)
        b.addModuleString(src_core, 'core', 'pk')
        b.buildModules()
        for i, (name, url) in enumerate(want.items()):
            res['evals'] += 1
            res['nontrivial'].add(core.h('linker', fmt, name))
            f = s.allobjects[f'pk.core.f{i}']
            hrefs = _re.findall(r'href="([^"]+)"', flatten(epydoc2stan.format_docstring(f)))
            got = hrefs[0] if hrefs else None
            case = {'kind': 'linker', 'fmt': fmt, 'name': name}
            rel = ('foreign-root' if not name.startswith('pk') else 'own-object' if name == 'pk.core.Own' else 'unknown' if url is None else 'same-root-not-in-project')
            if got != url:
                res['violations'].append(core.violation(f'inventory-link/{rel}', f'{fmt}: {q(name)} in pk.core links to {got!r}, the loaded inventory says {url!r}', case))


URLS = ['http://h/docs/objects.inv', 'http://h/docs/api.inv', 'http://h/other/objects.inv', 'http://h2/docs/objects.inv', 'http://h/docs/objects.inv?v=2']


def update_histories(res: Dict[str, Any]) -> None:
    """One SphinxInventory object, sequences of <= 3 update() calls (as --intersphinx given several times does): inventories in the same
    directory, the same URL again, a fetch that fails and is retried, a malformed line in a later inventory.  After every sequence: the names of
    every inventory that loaded resolve against that inventory's own base URL, and every malformed line was reported when its inventory was read."""
    from pydoctor.sphinx import SphinxInventory

    class MultiCache:
        def __init__(self) -> None:
            self.data: Dict[str, Optional[bytes]] = {}

        def get(self, url: str) -> Optional[bytes]:
            return self.data.get(url)
    steps = []
    for ui, u in enumerate(URLS):
        steps.append((u, 'good'))
        steps.append((u, 'bad-line'))
        steps.append((u, 'fetch-fails'))
    for L in (1, 2, 3):
        for seq in itertools.product(steps, repeat=L):
            msgs: List[Tuple[Any, Any]] = []
            inv = SphinxInventory(logger=lambda *a, **k: msgs.append((a, k)))
            cache = MultiCache()
            expect: Dict[str, str] = {}
            res['evals'] += 1
            case = {'kind': 'updates', 'seq': [list(x) for x in seq]}
            ok = True
            for k, (u, how) in enumerate(seq):
                name = f'lib{URLS.index(u)}.n{k}'
                base = u.rsplit('/', 1)[0]
                body = f'{name} py:function 1 page{k}.html#$ -\n' + ('this line is malformed\n' if how == 'bad-line' else '')
                cache.data[u] = None if how == 'fetch-fails' else HEADER + zlib.compress(body.encode())
                before = errors_of(msgs)
                try:
                    inv.update(cache, u)
                except BaseException as e:  # noqa
                    if type(e).__name__ == 'JobTimeout':
                        raise
                    res['violations'].append(core.violation(f'update-history/raises/{type(e).__name__}', f'update #{k + 1} of {seq} raises {type(e).__name__}', case))
                    ok = False
                    break
                if how != 'fetch-fails':
                    expect[name] = f'{base}/page{k}.html#{name}'
                if how in ('bad-line', 'fetch-fails') and errors_of(msgs) == before:
                    res['violations'].append(core.violation(f'update-history/not-reported/{how}', f'update #{k + 1} ({u}, {how}) of {seq} reported nothing', case))
                    ok = False
                    break
            if not ok:
                continue
            res['nontrivial'].add(core.h('updates', seq))
            for name, url in expect.items():
                got = inv.getLink(name)
                if got != url:
                    same_dir = len({x[0].rsplit('/', 1)[0] for x in seq}) < len({x[0] for x in seq})
                    res['violations'].append(core.violation('update-history/name-lost/' + ('same-directory' if same_dir else 'same-url' if len({x[0] for x in seq}) < len(seq) else 'other'),
                                                            f'after updates {seq}: {name} resolves to {got!r}, expected {url!r}', case))
                    break


def linker_aliases(res: Dict[str, Any]) -> None:
    """A reference written through a local import whose spelling is itself an entry of a loaded inventory: the name the scope binds wins."""
    import re as _re
    from pydoctor import epydoc2stan
    from pydoctor.stanutils import flatten
    lines = ['socket py:module 0 library/socket.html -', 'socket.socket py:class 1 library/socket.html#$ -', 'socket.socket.recv py:method 1 library/socket.html#$ -',
             'netlib.socket py:module 0 netlib.socket.html -', 'netlib.socket.socket py:class 1 netlib.socket.socket.html -', 'netlib.socket.socket.recv py:method 1 netlib.socket.socket.html#recv -',
             'json py:module 0 library/json.html -', 'netlib.fast py:module 0 netlib.fast.html -', 'netlib.fast.loads py:function 1 netlib.fast.html#loads -', 'json.loads py:function 1 library/json.html#$ -']
    data = HEADER + zlib.compress(('\n'.join(lines) + '\n').encode())
    for fmt, q in (('epytext', lambda n: 'L{%s}' % n), ('restructuredtext', lambda n: '`%s`' % n)):
        for imp, refs in (('from netlib import socket', {'socket.socket': 'http://h/netlib.socket.socket.html', 'socket.socket.recv': 'http://h/netlib.socket.socket.html#recv', 'socket': 'http://h/netlib.socket.html'}),
                          ('import netlib.fast as json', {'json.loads': 'http://h/netlib.fast.html#loads', 'json': 'http://h/netlib.fast.html'}),
                          ('import socket', {'socket.socket': 'http://h/library/socket.html#socket.socket'}),
                          ('', {'socket.socket': 'http://h/library/socket.html#socket.socket', 'json.loads': 'http://h/library/json.html#json.loads'})):
            src = imp + '\n' + ''.join(f'def f{i}():\n    "see {q(n)}"\n' for i, n in enumerate(refs))
            s = pd.new_system({'docformat': fmt}, systemcls=pd.RecordingSystem)
            s.intersphinx.update(Cache(data), 'http://h/objects.inv')
            b = s.systemBuilder(s)
            b.addModuleString('"pk"', 'pk', is_package=True)
            b.addModuleString(src, 'core', 'pk')
            b.buildModules()
            for i, (name, url) in enumerate(refs.items()):
                res['evals'] += 1
                res['nontrivial'].add(core.h('linker-alias', fmt, imp, name))
                hrefs = _re.findall(r'href="([^"]+)"', flatten(epydoc2stan.format_docstring(s.allobjects[f'pk.core.f{i}'])))
                got = hrefs[0] if hrefs else None
                if got != url:
                    res['violations'].append(core.violation('inventory-link/local-binding-' + ('shadows-entry' if imp and 'netlib' in imp else 'plain'),
                                                            f'{fmt}: after {imp!r}, {q(name)} links to {got!r}, expected {url!r}', {'kind': 'linker-alias', 'fmt': fmt, 'imp': imp, 'name': name}))


def jobs(tier: str) -> Iterable[Tuple[str, Any]]:
    yield ('linker-uses-inventory', ('robust', 'linker'))
    yield ('linker-uses-inventory', ('robust', 'linker-aliases'))
    yield ('update-histories<=3', ('robust', 'updates'))
    yield ('robust:truncate', ('robust', 'truncate'))
    for i in range(len(SUBS)):
        yield ('robust:header-bytes', ('robust', f'subst-header:{i}'))
        yield ('robust:payload-bytes', ('robust', f'subst-payload:{i}'))
    yield ('robust:bodies-headers-urls', ('robust', 'bodies'))
    yield ('reference:locations', ('robust', 'locations'))
    yield ('reference:display-names', ('robust', 'display-names'))
    for L in range(0, 6 if tier == 'quick' else 7):
        if L < 4:
            yield (f'robust:lines<={L}', ('robust', f'lines:{L}'))
        else:
            for i in range(len(COLS)):
                yield (f'robust:lines<={L}', ('robust', f'lines:{L}:{i}'))
    for f in site.NAMES:
        yield ('roundtrip:singles', ('rt', [f], 'all'))
    for f in site.NAMES:
        yield ('roundtrip:pairs', ('rtpairs', f, tier))


def run_job(job: Any, tier: str) -> Dict[str, Any]:
    res = core.result()
    if job[0] == 'robust':
        robustness(job[1], res, tier)
    elif job[0] == 'rt':
        for v in VARIANTS + SUBJECT_VARIANTS:
            roundtrip(job[1], v, res)
    else:
        _, f, t = job
        for g in site.NAMES[site.NAMES.index(f) + 1:]:
            if 'many-mods' in (f, g):
                continue
            for v in (VARIANTS if t == 'thorough' else VARIANTS[:1]):
                roundtrip([f, g], v, res)
    return res


def replay(case: Dict[str, Any]) -> List[Dict[str, Any]]:
    res = core.result()
    if case['kind'] == 'bytes':
        fault(case['what'], case['data'], res, case['expect_ctrl'], case['detail'], case['url'])
    elif case['kind'] == 'line':
        cols = case['cols']
        line = ' '.join(cols) + '\n'
        data = HEADER + zlib.compress((CTRL1 + line + CTRL2).encode())
        inv, msgs, err = load(data)
        if err:
            res['violations'].append(core.violation(f'raises/{err[0]}@{err[1]}/line', f'payload line {line!r} raises', case))
        elif inv.getLink('ctrl.one') != 'http://h/ctrl.one.html' or inv.getLink('ctrl.two') != 'http://h/ctrl.html#two':
            res['violations'].append(core.violation('usable-lines-lost/line', 'control lines lost', case))
        elif len(inv._links) <= 2 and not errors_of(msgs) and line.strip() and not non_python_line(line):
            res['violations'].append(core.violation('rejected-line-not-reported/replayed', 'neither used nor reported', case))
    elif case['kind'] == 'display':
        robustness('display-names', res, 'quick')
        res['violations'] = [v for v in res['violations'] if v['case'] == case]
    elif case['kind'] == 'linker':
        linker_use(res)
        res['violations'] = [v for v in res['violations'] if v['case'] == case]
    elif case['kind'] == 'linker-alias':
        linker_aliases(res)
        res['violations'] = [v for v in res['violations'] if v['case'] == case]
    elif case['kind'] == 'updates':
        update_histories(res)
        res['violations'] = [v for v in res['violations'] if v['case'] == case]
    elif case['kind'] == 'location':
        robustness('locations', res, 'quick')
        res['violations'] = [v for v in res['violations'] if v['case'] == case]
    else:
        roundtrip(case['feats'], case['args'], res)
    return res['violations']
