"""C13 - privacy rules mean what the manual says.

(a) qnmatch vs. an independent reference matcher on ALL well-formed patterns up to a length
    bound over {a,b,.,*,?,[,],!} x ALL valid qualified names up to a length bound over {a,b,.}
    (+ a few names with other characters).
(b) System.privacyClass / isVisible vs. a stateless reference on ALL rule lists up to a
    length bound over level x rule-shape, for several target names; rules go through the
    real parser (utils.parse_privacy_tuple).
(c) all query/reparent operation sequences up to a bound: the cached answer equals the
    stateless reference for the object's current name (states = (location, cache) pairs).
(d) spelling variants of the rule syntax through Options.from_args.
"""
from __future__ import annotations

import itertools
from functools import lru_cache
from typing import Any, Dict, Iterable, Iterator, List, Optional, Sequence, Tuple

from mc import core, pd

ID = 'C13'
LEVEL = 'model_checking'
RULE = ('(a) every well-formed pattern <= N symbols x every valid dotted name <= M chars is matched by qnmatch and by '
        'the reference matcher; a pattern is non-trivial when it accepts at least one and rejects at least one name; '
        '(b) every rule list <= L over 3 levels x 6 rule shapes per target; non-trivial when the resulting privacy map '
        'differs from the default map; (c) every sequence <= K of {query a, query _a, reparent a->n, reparent back}; '
        'distinct_nontrivial counts distinct non-trivial patterns + distinct non-default privacy maps + op sequences that moved an object after a query')
ASSUMPTIONS = [
    'malformed bracket expressions, ranges, backslashes, sets containing [ or ], and `[!]` are outside the manual and not generated',
    'names are valid qualified names (non-empty dot-separated components)',
    'the module named __main__ (always private) is outside the statement and not generated',
]
FLOOR = {'quick': 1000, 'thorough': 5000}
SPACE = {'quick': 'patterns<=5 x names<=5; rule lists<=3 (fresh System each); op sequences<=4',
         'thorough': 'patterns<=7 x names<=5; rule lists<=4; op sequences<=6'}
CAP = {'quick': 900.0, 'thorough': 3600.0}

SYMS = 'ab.*?[]!'
NAME_SYMS = 'ab.'
EXTRA_NAMES = ['_a', 'a_', 'A', 'a.B', 'ab.a_b', 'a1.b', 'aaa.bbb.a', 'a-b', 'é.a']


# ---------------------------------------------------------------- reference matcher (from the manual)

def tokenize(p: str) -> Optional[List[Tuple[Any, ...]]]:
    """None if the pattern is outside the documented syntax."""
    toks: List[Tuple[Any, ...]] = []
    i, n = 0, len(p)
    while i < n:
        c = p[i]
        if c == '*':
            if i + 1 < n and p[i + 1] == '*':
                toks.append(('**',)); i += 2
            else:
                toks.append(('*',)); i += 1
        elif c == '?':
            toks.append(('?',)); i += 1
        elif c == '[':
            j = i + 1
            neg = False
            if j < n and p[j] == '!':
                neg = True; j += 1
            k = j
            while k < n and p[k] != ']':
                if p[k] == '[':
                    return None
                k += 1
            if k >= n:
                return None
            seq = p[j:k]
            if not seq:
                return None
            toks.append(('set', neg, seq)); i = k + 1
        elif c == ']':
            return None
        else:
            toks.append(('lit', c)); i += 1
    return toks


def ref_match(toks: Sequence[Tuple[Any, ...]], s: str) -> bool:
    nt, ns = len(toks), len(s)

    @lru_cache(None)
    def m(ti: int, si: int) -> bool:
        if ti == nt:
            return si == ns
        t = toks[ti]
        k = t[0]
        if k == 'lit':
            return si < ns and s[si] == t[1] and m(ti + 1, si + 1)
        if k == '?':
            return si < ns and m(ti + 1, si + 1)
        if k == 'set':
            if si >= ns:
                return False
            return ((s[si] in t[2]) != t[1]) and m(ti + 1, si + 1)
        if k == '**':
            return any(m(ti + 1, q) for q in range(si, ns + 1))
        # '*': run of non-dot characters
        q = si
        while True:
            if m(ti + 1, q):
                return True
            if q < ns and s[q] != '.':
                q += 1
            else:
                return False
    return m(0, 0)


def valid_names(maxlen: int) -> List[str]:
    out = []
    for n in range(1, maxlen + 1):
        for t in itertools.product(NAME_SYMS, repeat=n):
            s = ''.join(t)
            if all(s.split('.')):
                out.append(s)
    return out + EXTRA_NAMES


def patterns_with_prefix(prefix: str, maxlen: int) -> Iterator[str]:
    for n in range(len(prefix), maxlen + 1):
        for t in itertools.product(SYMS, repeat=n - len(prefix)):
            yield prefix + ''.join(t)


# ---------------------------------------------------------------- (b) rule lists

SRC = {'m': 'a = 1\n_a = 2\n__a__ = 3\n__a = 4\na__ = 5\n_a__ = 6\n_a_ = 7\n__a_ = 8\n_ = 9\nclass C:\n    def f(self): pass\n    def _g(self): pass\n    class N:\n        x = 1\nclass _C:\n    def f(self): pass\n',
       'n': ''}
NAMES = ['m', 'm.a', 'm._a', 'm.__a__', 'm.__a', 'm.a__', 'm._a__', 'm._a_', 'm.__a_', 'm._', 'm.C', 'm.C.f', 'm.C._g', 'm.C.N', 'm.C.N.x', 'm._C', 'm._C.f', 'n']
TARGETS = ['m.a', 'm._a', 'm.__a__', 'm.C.f', 'm._C.f', 'm.C.N.x']
LEVELS = ['HIDDEN', 'PRIVATE', 'PUBLIC']


def default_privacy(name: str) -> str:
    """the manual: a name with a leading underscore is private, unless it is a dunder name (two leading AND two trailing underscores)"""
    last = name.split('.')[-1]
    dunder = len(last) > 4 and last.startswith('__') and last.endswith('__')
    return 'PRIVATE' if last.startswith('_') and not dunder else 'PUBLIC'


def ref_privacy(name: str, rules: Sequence[Tuple[str, str]]) -> str:
    exact = [lvl for lvl, pat in rules if pat == name]
    if exact:
        return exact[-1]
    for lvl, pat in reversed(rules):
        toks = tokenize(pat)
        assert toks is not None, pat
        if ref_match(toks, name):
            return lvl
    return default_privacy(name)


def ref_visible(name: str, rules: Sequence[Tuple[str, str]]) -> bool:
    parts = name.split('.')
    return all(ref_privacy('.'.join(parts[:i]), rules) != 'HIDDEN' for i in range(1, len(parts) + 1))


def shapes(target: str) -> List[str]:
    parent = '.'.join(target.split('.')[:-1])
    last = target.split('.')[-1]
    return [target,                     # exact name
            target[:-1] + '?',          # pattern matching it (and possibly a sibling)
            '**.' + last,               # recursive pattern matching it
            parent + '.*',              # pattern matching every direct member of the parent
            parent[:-1] + '[' + parent[-1] + ']',   # pattern matching the parent only
            'zz.*']                     # non-matching pattern


def parse_rules(rule_strings: Sequence[str]) -> Any:
    """the rules as the option container delivers them: through the converter of Options.privacy (the list the user gave, in order, repeats included)"""
    import attr
    from pydoctor.options import Options
    return attr.fields(Options).privacy.converter(list(rule_strings))


def build_system(rule_strings: Sequence[str]):
    from pydoctor import model
    rules = parse_rules(rule_strings)
    s = pd.new_system({'privacy': rules})
    b = s.systemBuilder(s)
    for k, v in SRC.items():
        b.addModuleString(v, k)
    b.buildModules()
    return s


def check_rules(rules: Sequence[Tuple[str, str]], s=None) -> Tuple[List[Dict[str, Any]], Tuple[Any, ...]]:
    rule_strings = [f'{lvl}:{pat}' for lvl, pat in rules]
    if s is None:
        s = build_system(rule_strings)
    else:
        s.options.privacy = parse_rules(rule_strings)
        s._privacyClassCache.clear()
    vs = []
    obs = []
    for name in NAMES:
        o = s.allobjects[name]
        got = o.privacyClass.name
        want = ref_privacy(name, rules)
        gv = o.isVisible
        wv = ref_visible(name, rules)
        obs.append((got, gv))
        if got != want:
            vs.append(core.violation('rules/privacy', f'privacy of {name} under rules {rule_strings} is {got}, the documented precedence gives {want}',
                                     {'kind': 'rules', 'rules': [list(r) for r in rules], 'name': name}))
        elif gv != wv:
            vs.append(core.violation('rules/visible', f'isVisible of {name} under rules {rule_strings} is {gv}, expected {wv}',
                                     {'kind': 'rules', 'rules': [list(r) for r in rules], 'name': name}))
        if o.isPrivate != (want != 'PUBLIC') and got == want:
            vs.append(core.violation('rules/isPrivate', f'isPrivate of {name} under rules {rule_strings} is {o.isPrivate}',
                                     {'kind': 'rules', 'rules': [list(r) for r in rules], 'name': name}))
    return vs, tuple(obs)


# ---------------------------------------------------------------- (c) op sequences

OPS = ['q:a', 'q:_a', 'mv:a->n', 'mv:a->m', 'q:C.f', 'mv:C->n', 'q:C.N.x', 'mv:C->m']
SEQ_RULES = [('HIDDEN', 'n.a'), ('PRIVATE', 'm.a'), ('PUBLIC', '**._a'), ('PRIVATE', 'n.C.*'), ('HIDDEN', 'm.C.**'), ('PRIVATE', 'n.C.N.x')]


def run_ops(seq: Sequence[str]) -> Tuple[List[Dict[str, Any]], List[Tuple[Any, Any]], bool]:
    s = build_system([f'{l}:{p}' for l, p in SEQ_RULES])
    a = s.allobjects['m.a']; _a = s.allobjects['m._a']; C = s.allobjects['m.C']; f = C.contents['f']
    m = s.allobjects['m']; n = s.allobjects['n']
    vs: List[Dict[str, Any]] = []
    trace: List[Tuple[Any, Any]] = []

    def state() -> Tuple[Any, ...]:
        # the cache is an implementation detail: only its size and the answers it holds are part of the abstract state
        cache = getattr(s, '_privacyClassCache', {})
        return (a.fullName(), C.fullName(), tuple(sorted((k if isinstance(k, str) else getattr(k, 'fullName', lambda: repr(k))(), getattr(v, 'name', repr(v))) for k, v in cache.items())))
    st = state()
    queried = False
    moved_after_query = False
    for op in seq:
        if op.startswith('q:'):
            o = {'q:a': a, 'q:_a': _a, 'q:C.f': f, 'q:C.N.x': C.contents['N'].contents['x']}[op]
            got = o.privacyClass.name
            want = ref_privacy(o.fullName(), SEQ_RULES)
            gv, wv = o.isVisible, ref_visible(o.fullName(), SEQ_RULES)
            queried = True
            if got != want or gv != wv:
                vs.append(core.violation('cache/stale-after-move', f'after {list(seq)}: {o.fullName()} answers {got}/visible={gv}, stateless reference {want}/visible={wv}',
                                         {'kind': 'ops', 'seq': list(seq)}))
        else:
            obj, dest = {'mv:a->n': (a, n), 'mv:a->m': (a, m), 'mv:C->n': (C, n), 'mv:C->m': (C, m)}[op]
            if obj.parent is not dest:
                obj.reparent(dest, obj.name)
                if queried:
                    moved_after_query = True
        st2 = state()
        trace.append((st, op, st2))
        st = st2
    return vs, trace, moved_after_query


# ---------------------------------------------------------------- (d) spellings

def check_spellings() -> Tuple[int, List[Dict[str, Any]]]:
    from pydoctor.options import Options
    vs = []
    n = 0
    with pd.scratch('c13') as d:
        import os
        os.chdir(d)
        for lvl in LEVELS:
            for sp in {lvl, lvl.lower(), lvl.capitalize(), ' ' + lvl.lower(), lvl.lower() + ' '}:
                for pat in ['m.a', 'm.*', '**', ' m.a', 'm.a ']:
                    n += 1
                    try:
                        o = Options.from_args(['--privacy', f'{sp}:{pat}', '--privacy', 'public:zz'])
                        got = [(p.name, m) for p, m in o.privacy]
                    except SystemExit as e:
                        got = f'SystemExit({e.code})'
                    want = [(lvl, pat.strip()), ('PUBLIC', 'zz')]
                    if got != want:
                        vs.append(core.violation('parse/spelling', f'--privacy {sp!r}:{pat!r} parsed as {got}, expected {want}',
                                                 {'kind': 'spelling', 'level': sp, 'pattern': pat}))
    return n, vs


# ---------------------------------------------------------------- jobs

def check_sets(res: Dict[str, Any]) -> None:
    """character sets with ranges: every set of <= 3 symbols over {a b c - ! ^ \\} against every one-character name; reference = fnmatch"""
    import fnmatch
    import warnings
    from pydoctor.qnmatch import qnmatch
    syms = 'abc-!^\\'
    for n in range(1, 4):
        for seq in itertools.product(syms, repeat=n):
            pat = '[' + ''.join(seq) + ']'
            for name in syms:
                res['evals'] += 1
                want = fnmatch.fnmatchcase(name, pat)
                with warnings.catch_warnings():
                    warnings.simplefilter('ignore')
                    try:
                        got: Any = qnmatch(name, pat)
                    except Exception as e:  # noqa
                        got = f'raises {type(e).__name__}'
                if got != want:
                    shape = 'reversed-or-open-range' if '-' in pat[2:-1] else 'other'
                    res['violations'].append(core.violation(f'match/set-{shape}/{got if isinstance(got, str) else "differs"}'.replace(' ', '-'),
                                                            f'qnmatch({name!r}, {pat!r}) is {got}, fnmatch says {want}', {'kind': 'set', 'pattern': pat, 'name': name}))
            res['nontrivial_count'] += 1


def check_bracket_strings(res: Dict[str, Any], first: str) -> None:
    """every pattern '[' + first + <= 3 more symbols over {a b ] [ ! - ^}: brackets that open, close early, stay open or hold a ']' as first member,
    against every name of <= 3 characters over {a b ] [ !}; reference = fnmatch (no dots involved, so the two matchers must agree)"""
    import fnmatch
    import warnings
    from pydoctor.qnmatch import qnmatch
    syms = 'ab][!-^'
    names = [''.join(t) for n in range(1, 4) for t in itertools.product('ab][!', repeat=n)]
    for n in range(0, 4):
        for seq in itertools.product(syms, repeat=n):
            pat = '[' + first + ''.join(seq)
            res['nontrivial_count'] += 1
            for name in names:
                res['evals'] += 1
                want = fnmatch.fnmatchcase(name, pat)
                with warnings.catch_warnings():
                    warnings.simplefilter('ignore')
                    try:
                        got: Any = qnmatch(name, pat)
                    except Exception as e:  # noqa
                        got = f'raises {type(e).__name__}'
                if got != want:
                    body = pat[1:]
                    shape = ('negated-' if body.startswith('!') else '') + ('bracket-first' if body.lstrip('!').startswith(']') else 'range' if '-' in body[1:] else 'other')
                    res['violations'].append(core.violation(f'match/bracket-string-{shape}/{got if isinstance(got, str) else "differs"}'.replace(' ', '-'),
                                                            f'qnmatch({name!r}, {pat!r}) is {got}, fnmatch says {want}', {'kind': 'set', 'pattern': pat, 'name': name}))


PATTERN_TOKENS = ['a', 'b', '.', '*', '**', '?', '[a]', '[!a]', '[ab]', '[!ab]', '[b]', '[!b]', '[]a]', '[!]a]']       # (ranges are judged against fnmatch in the set jobs)


def jobs(tier: str) -> Iterable[Tuple[str, Any]]:
    yield ('match:sets<=3', ('sets',))
    for t in PATTERN_TOKENS:
        yield ('match:token-patterns<=3', ('tokpat', t))
    for first in 'ab][!-^':
        yield ('match:bracket-strings<=5', ('brackets', first))
    plen = 5 if tier == 'quick' else 7
    nlen = 5
    # (a) partition patterns by their first two symbols (plus the short ones)
    yield (f'match:patterns<=1', ('match', '', 1, nlen))
    for p2 in itertools.product(SYMS, repeat=2):
        yield (f'match:patterns<={plen}', ('match', ''.join(p2), plen, nlen))
    # (b)
    L = 3 if tier == 'quick' else 4
    for target in TARGETS:
        for lvl0 in [None] + LEVELS:
            for sh0 in range(6) if lvl0 else [None]:
                yield (f'rules<={L}', ('rules', target, lvl0, sh0, L, tier == 'quick'))
    # (c)
    K = 4 if tier == 'quick' else 6
    for first in OPS:
        yield (f'ops<={K}', ('ops', first, K))
    yield ('spellings', ('spell',))


def run_job(job: Any, tier: str) -> Dict[str, Any]:
    res = core.result()
    kind = job[0]
    if kind == 'brackets':
        check_bracket_strings(res, job[1])
        return res
    if kind == 'tokpat':
        # patterns as sequences of <= 3 TOKENS (so that two or three character sets, negated or not, meet in one pattern)
        from pydoctor.qnmatch import qnmatch
        names = valid_names(4)
        rest = [''] + PATTERN_TOKENS
        nontriv = 0
        for t2 in rest:
            for t3 in (rest if t2 else ['']):
                pat = job[1] + t2 + t3
                toks = tokenize(pat)
                if toks is None:
                    continue
                acc = 0
                for name in names:
                    got = qnmatch(name, pat)
                    want = ref_match(toks, name)
                    res['evals'] += 1
                    acc += bool(want)
                    if got != want:
                        kinds = '+'.join(sorted({t[0] + ('!' if t[0] == 'set' and t[1] else '') for t in toks}))
                        res['violations'].append(core.violation(f'match/{kinds}/tokens', f'qnmatch({name!r}, {pat!r}) is {got}, the manual says {want}', {'kind': 'match', 'pattern': pat, 'name': name}))
                if 0 < acc < len(names):
                    nontriv += 1
        res['nontrivial_count'] = nontriv
        return res
    if kind == 'match':
        from pydoctor.qnmatch import qnmatch
        _, prefix, plen, nlen = job
        names = valid_names(nlen)
        it = [prefix] if (plen == 1 and prefix == '') else patterns_with_prefix(prefix, plen)
        if plen == 1:
            it = [''] + list(SYMS)
        nontriv = 0
        for pat in it:
            toks = tokenize(pat)
            if toks is None:
                continue
            acc = 0
            for name in names:
                got = qnmatch(name, pat)
                want = ref_match(toks, name)
                res['evals'] += 1
                if want:
                    acc += 1
                if got != want:
                    kinds = '+'.join(sorted({t[0] + ('!' if t[0] == 'set' and t[1] else '') for t in toks}))
                    res['violations'].append(core.violation(
                        f'match/{kinds}', f'qnmatch({name!r}, {pat!r}) is {got}, the manual says {want}',
                        {'kind': 'match', 'pattern': pat, 'name': name}))
            if 0 < acc < len(names):
                nontriv += 1
            res['outcomes'].add(acc)
            if len(res['samples']) < 2 and 0 < acc < len(names):
                res['samples'].append({'pattern': pat, 'names_accepted': acc, 'names_total': len(names)})
        res['nontrivial_count'] = nontriv
        core.bump(res, 'patterns_nontrivial', nontriv)
    elif kind == 'rules':
        _, target, lvl0, sh0, L, fresh = job
        sh = shapes(target)
        alphabet = [(lvl, p) for lvl in LEVELS for p in sh]
        default_obs = None
        shared = None if fresh else build_system([])
        if lvl0 is None:
            lists: Iterable[Tuple[Tuple[str, str], ...]] = [()]
        else:
            first = (lvl0, sh[sh0])
            lists = itertools.chain.from_iterable(
                (((first,) + rest) for rest in itertools.product(alphabet, repeat=n)) for n in range(0, L))
        for rules in lists:
            vs, obs = check_rules(rules, shared)
            res['evals'] += 1
            res['violations'] += vs
            res['outcomes'].add(core.h(obs))
            dflt = tuple((default_privacy(n), True) for n in NAMES)
            if obs != dflt:
                res['nontrivial'].add(core.h(target, obs))
            if len(res['samples']) < 2 and len(rules) >= 2:
                res['samples'].append({'rules': [f'{l}:{p}' for l, p in rules], 'privacy': dict(zip(NAMES, [o[0] for o in obs]))})
        core.bump(res, 'rule_lists', res['evals'])
    elif kind == 'ops':
        _, first, K = job
        for n in range(0, K):
            for rest in itertools.product(OPS, repeat=n):
                seq = (first,) + rest
                vs, trace, moved = run_ops(seq)
                res['evals'] += 1
                res['traces'] += 1
                res['violations'] += vs
                for st, op, st2 in trace:
                    res['states'].add(core.h(st)); res['states'].add(core.h(st2))
                    res['transitions'].add(core.h(st, op, st2))
                if moved:
                    res['nontrivial'].add(core.h(seq))
                if len(res['samples']) < 2 and moved:
                    res['samples'].append({'ops': list(seq), 'rules': [f'{l}:{p}' for l, p in SEQ_RULES]})
        core.bump(res, 'op_sequences', res['evals'])
    elif kind == 'sets':
        check_sets(res)
    elif kind == 'spell':
        n, vs = check_spellings()
        res['evals'] += n
        res['violations'] += vs
    return res


def replay(case: Dict[str, Any]) -> List[Dict[str, Any]]:
    from pydoctor.qnmatch import qnmatch
    k = case['kind']
    if k == 'match':
        toks = tokenize(case['pattern'])
        got, want = qnmatch(case['name'], case['pattern']), ref_match(toks, case['name'])
        if got != want:
            kinds = '+'.join(sorted({t[0] + ('!' if t[0] == 'set' and t[1] else '') for t in toks}))
            return [core.violation(f'match/{kinds}', f'qnmatch({case["name"]!r}, {case["pattern"]!r}) is {got}, the manual says {want}', case)]
        return []
    if k == 'rules':
        vs, _ = check_rules([tuple(r) for r in case['rules']])
        return vs
    if k == 'ops':
        return run_ops(case['seq'])[0]
    if k == 'spelling':
        return [v for v in check_spellings()[1]]
    if k == 'set':
        res = core.result()
        check_sets(res)
        if case['pattern'][1:2]:
            check_bracket_strings(res, case['pattern'][1])
        return [v for v in res['violations'] if v['case'] == case]
    raise ValueError(k)
