"""C10 - generated pages are well-formed and source text can never become markup.

Payload alphabet (HTML metacharacters, entity look-alikes, CDATA/comment/PI delimiters, control characters, script URLs;
each carrying the marker names zqx1 / onzqa1) x sink alphabet (every place source text reaches a page) x docformat.
Each case is a full driver run; every page must be well-formed XML (DOCTYPE line and XML-illegal characters set aside) and in
the parsed DOM the markers may occur only inside text nodes and attribute values - never as element/attribute names,
comments, CDATA, PIs, inside script/style, in on* attributes or javascript: URLs.  Where the sink displays text, the
payload must be recoverable literally from the DOM text (escaped exactly once).
"""
from __future__ import annotations

import os
import re
import xml.parsers.expat as expat
from typing import Any, Callable, Dict, Iterable, List, Optional, Sequence, Tuple

from mc import core, pd

ID = 'C10'
LEVEL = 'exploration'
RULE = ('payloads x sinks (x pairs of sinks in thorough), one full driver run each; every written page parsed with expat; non-trivial = the marker '
        'reached at least one page (the sink really displays the text); distinct = distinct (sink, payload)')
ASSUMPTIONS = [
    'reST raw/include directives written explicitly in a docstring and href values the author wrote as explicit link targets are outside the statement',
    'XML-illegal characters and the DOCTYPE line are set aside before parsing, as the statement says',
]
FLOOR = {'quick': 500, 'thorough': 2500}
SPACE = {'quick': '46 payloads x 73 sinks (42 element-text sinks, 9 attribute-value sinks, 5 command-line / file-name sinks); docformat resolution: own x sub-package x root-package declaration in {none, restructuredtext, plaintext, epytext} x 2 command-line formats, quoted raw directive as docstring', 'thorough': 'quick + all ordered pairs of 40 sinks x 2 payloads'}
JOB_TIMEOUT = 2300

M = 'zqx1'
PAYLOADS = [
    '<zqx1>t</zqx1>', '<zqx1 onzqa1=y>', '"><zqx1 onzqa1="1">', "'><zqx1 onzqa1='1'>", '</div><zqx1>', '</code></pre><zqx1>', '<script>zqx1</script>', '<ScRiPt>zqx1',
    '&', '&lt;zqx1&gt;', '&#60;zqx1&#62;', '&amp;lt;zqx1', '&zqx1;', ']]><zqx1>', '<![CDATA[<zqx1>]]>', '<!--zqx1-->', '--><zqx1>', '<?zqx1 ?>',
    '\x01zqx1', '\x0bzqx1', '\x7fzqx1', '\ufffezqx1', '\u2028zqx1', 'javascript:zqx1', '<a href=zqx1>', 'x--<zqx1>y</zqx1>', '--opt=<zqx1 onzqa1="1">v</zqx1>',
    'a\r\r.. raw:: html\r\r   <zqx1>t</zqx1>\r\r..', '<zqx1/>\xa0<zqx1/>', 'a\x1c\x1c.. raw:: html\x1c\x1c   <zqx1>t</zqx1>\x1c\x1c..',
    'x`` `k <javascript:zqx1>`_ ``y', '` `k <javascript:zqx1>`_ `',
    'zqx1" onzqa1="1', "zqx1' onzqa1='1", 'zqx1"onzqa1="1', 'zqx1" onzqa1="1" x="',
    # whitespace-free break-outs of an attribute value that leave the page well-formed: close the tag, plant an element, re-open the same tag
    # compatibility look-alikes of the metacharacters (fullwidth, small forms): text, whatever normalisation a page goes through
    '\uff1czqx1\uff1et\uff1c\uff0fzqx1\uff1e', '\ufe64zqx1\ufe65t', '\uff02\uff1e\uff1czqx1 onzqa1\uff1d\uff021\uff02\uff1e', '\uff06lt;zqx1\uff06gt; \ufe60amp;',
    'sh"><zqx1>t</zqx1></pre><pre>', 'x"><zqx1/></a><a>', 'x"><zqx1/></span><span>', 'x"><zqx1/></div><div>', 'x"><zqx1/></code><code>', "x'><zqx1/></pre><pre>",
]
DANGEROUS = ['"><zqx1 onzqa1="1">', 'x--<zqx1>y</zqx1>']


def pylit(s: Any) -> str:
    return repr(s)


# name: (docformat, builder of {relative file: source}, displays-text-verbatim, extra argv builder)
SINKS: Dict[str, Tuple[str, Callable[[str], str], bool]] = {
    'doc-word-epy':    ('epytext', lambda P: f'def f():\n    """Doc {P} end."""\n', True),
    'doc-code-epy':    ('epytext', lambda P: f'def f():\n    """Doc C{{{P}}} end."""\n', True),
    'doc-literal-epy': ('epytext', lambda P: f'def f():\n    """Lit::\n\n        {P}\n    """\n', True),
    'doc-doctest-epy': ('epytext', lambda P: f'def f():\n    """\n    >>> x = {pylit(P)}\n    {P}\n    """\n', False),
    'field-body-epy':  ('epytext', lambda P: f'def f(a):\n    """\n    @param a: {P}\n    @note: {P}\n    """\n', False),
    'field-arg-epy':   ('epytext', lambda P: f'def f(a):\n    """\n    @raise {P}: x\n    @param {P}: y\n    """\n', False),
    'ivar-name-epy':   ('epytext', lambda P: f'class K:\n    """\n    @ivar {P}: x\n    """\n', False),
    'xref-epy':        ('epytext', lambda P: f'def f():\n    """L{{{P}}}"""\n', False),
    # one payload position per sink: a fatal markup error anywhere turns the whole docstring into plain text and would hide the other position
    'xref-label-epy':  ('epytext', lambda P: f'def f():\n    """See L{{{P} <f>}} and L{{lbl {P}<f>}}."""\nclass K:\n    """Class L{{a {P} b <K.m>}}."""\n    def m(self): pass\n', False),
    'xref-label-rst':  ('restructuredtext', lambda P: f'def f():\n    """See `{P} <f>`."""\n', False),
    'url-label-epy':   ('epytext', lambda P: f'def f():\n    """See U{{{P} <http://x/>}}."""\n', False),
    'field-arg-raise-epy': ('epytext', lambda P: f'def f(a):\n    """\n    @raise {P}: x\n    """\n', False),
    'field-arg-param-epy': ('epytext', lambda P: f'def f(a):\n    """\n    @param {P}: y\n    """\n', False),
    'field-type-rst':  ('restructuredtext', lambda P: f'def f(a):\n    """\n    :type a: {P}\n    """\n', False),
    'field-raises-rst': ('restructuredtext', lambda P: f'def f(a):\n    """\n    :raises {P}: x\n    """\n', False),
    'url-epy':         ('epytext', lambda P: f'def f():\n    """U{{label {P}<http://x/>}} U{{http://x/{P}}}"""\n', False),
    'doc-word-rst':    ('restructuredtext', lambda P: f'def f():\n    """Doc {P} end."""\n', True),
    'doc-code-rst':    ('restructuredtext', lambda P: f'def f():\n    """Doc ``{P}`` end."""\n', True),
    'doc-literal-rst': ('restructuredtext', lambda P: f'def f():\n    """Lit::\n\n        {P}\n    """\n', True),
    'doc-codeblock-rst': ('restructuredtext', lambda P: f'def f():\n    """\n    .. code:: python\n\n        x = {pylit(P)}\n    """\n', False),
    'field-rst':       ('restructuredtext', lambda P: f'def f(a):\n    """\n    :param a: {P}\n    :raises {P}: x\n    :type a: {P}\n    """\n', False),
    'xref-rst':        ('restructuredtext', lambda P: f'def f():\n    """`{P}` and `label {P} <f>`"""\n', False),
    'title-rst':       ('restructuredtext', lambda P: f'def f():\n    """\n    Intro.\n\n    T {P}\n    ==========================================\n\n    Text.\n    """\n', False),
    'doc-google':      ('google', lambda P: f'def f(a):\n    """Doc {P}.\n\n    Args:\n        a ({P}): {P}\n\n    Returns:\n        {P}\n    """\n', False),
    'doc-numpy':       ('numpy', lambda P: f'def f(a):\n    """Doc {P}.\n\n    Parameters\n    ----------\n    a : {P}\n        {P}\n    """\n', False),
    'doc-plain':       ('plaintext', lambda P: f'def f():\n    """Doc {P} end."""\n', True),
    'const-str':       ('epytext', lambda P: f'from typing import Final\nX: Final = {pylit(P)}\nY: Final = [{pylit(P)}, {{ {pylit(P)}: f({pylit(P)}) }}]\nZ: Final = {pylit((P + " ") * 30)}\n', False),
    'const-bytes':     ('epytext', lambda P: f'from typing import Final\nX: Final = {pylit(P.encode("utf-8", "surrogatepass"))}\n', False),
    'const-multiline': ('epytext', lambda P: f'from typing import Final\nX: Final = {pylit(P + chr(10) + P)}\n', False),
    'const-regex':     ('epytext', lambda P: f'import re\nfrom typing import Final\nX: Final = re.compile({pylit(P)})\n', False),
    'const-fstring':   ('epytext', lambda P: f'from typing import Final\nX: Final = f"{{a}}" + {pylit(P)}\nW: Final = lambda q={pylit(P)}: q\n', False),
    'default':         ('epytext', lambda P: f'def f(a={pylit(P)}, *, k={pylit(P)}): pass\n', False),
    # the same payload as a bytes literal in every expression position (another branch of the value renderer)
    'default-bytes':   ('epytext', lambda P: f'def f(a={P.encode("utf-8", "surrogatepass")!r}, *, k={P.encode("utf-8", "surrogatepass")!r}): pass\nclass K:\n    def m(self, b={P.encode("utf-8", "surrogatepass")!r}): pass\n', False),
    'decorator-bytes': ('epytext', lambda P: f'@deco({P.encode("utf-8", "surrogatepass")!r})\ndef f(): pass\n', False),
    'base-bytes':      ('epytext', lambda P: f'class K(Base[{P.encode("utf-8", "surrogatepass")!r}]): pass\n', False),
    'default-number-attr': ('epytext', lambda P: f'def f(a=1 .real, b=2.5j, c=-0.0, d={pylit(P)}.x): pass\n', False),
    # arguments and options of directives (not raw / include): language of a code block, version of a version directive, admonition title
    'rst-code-language': ('restructuredtext', lambda P: f'def f():\n    r\'\'\'Doc.\n\n    .. code:: {P}\n\n        x = 1\n    \'\'\'\n', False),
    'rst-codeblock-language': ('restructuredtext', lambda P: f'def f():\n    r\'\'\'Doc.\n\n    .. code-block:: {P}\n\n        x = 1\n    \'\'\'\n', False),
    'rst-version-argument': ('restructuredtext', lambda P: f'def f():\n    r\'\'\'Doc.\n\n    .. versionadded:: {P}\n\n    .. deprecated:: 1.0 {P}\n    \'\'\'\n', False),
    'rst-admonition-title': ('restructuredtext', lambda P: f'def f():\n    r\'\'\'Doc.\n\n    .. admonition:: {P}\n\n       body\n    \'\'\'\n', False),
    'google-code-language': ('google', lambda P: f'def f():\n    r\'\'\'Doc.\n\n    Example:\n        .. code:: {P}\n\n            x = 1\n    \'\'\'\n', False),
    # mathematics: the formula text goes through docutils' math-to-HTML converter
    'math-epy':        ('epytext', lambda P: f'def f():\n    r\'\'\'Doc M{{\\text{{{P}}}}} and M{{{P}}} end.\'\'\'\n', False),
    'math-rst':        ('restructuredtext', lambda P: f'def f():\n    r\'\'\'Doc :math:`\\text{{{P}}}` and :math:`{P}` end.\'\'\'\n', False),
    'math-block-rst':  ('restructuredtext', lambda P: f'def f():\n    r\'\'\'Doc.\n\n    .. math::\n\n       \\text{{{P}}} + \\colorbox{{{P}}}{{y}} + \\href{{{P}}}{{x}}\n    \'\'\'\n', False),
    'annotation':      ('epytext', lambda P: f'def f(a: {pylit(P)}, b: "List[{P}]" = 1) -> {pylit(P)}: pass\nv: {pylit(P)} = 1\n', False),
    'literal-ann':     ('epytext', lambda P: f'from typing import Literal\ndef f(a: Literal[{pylit(P)}]) -> Literal[{pylit(P)}]: pass\n', False),
    'type-comment':    ('epytext', lambda P: f'v = 1 # type: {P}\n', False),
    'decorator':       ('epytext', lambda P: f'@deco({pylit(P)}, k={pylit(P)})\ndef f(): pass\nclass K:\n    @deco({pylit(P)})\n    def m(self): pass\n', False),
    'base':            ('epytext', lambda P: f'class K(Base[{pylit(P)}], metaclass=M({pylit(P)}), kw={pylit(P)}): pass\n', False),
    'all-docformat':   ('epytext', lambda P: f'__all__ = [{pylit(P)}]\n__docformat__ = {pylit(P)}\n', False),
    'deprecated':      ('epytext', lambda P: f'from twisted.python.deprecate import deprecated\nfrom incremental import Version\n@deprecated(Version("pk", 1, 2, 3), {pylit(P)})\ndef f(): pass\n', False),
    'deprecated-pkg':  ('epytext', lambda P: f'from twisted.python.deprecate import deprecated\nfrom incremental import Version\n@deprecated(Version({pylit(P)}, 1, 2, 3))\ndef f(): pass\n', False),
    'zope-attr':       ('epytext', lambda P: f'from zope.interface import Interface, Attribute\nclass I(Interface):\n    a = Attribute({pylit(P)})\n', False),
    'zope-schema':     ('epytext', lambda P: f'from zope import schema, interface\nclass I(interface.Interface):\n    t = schema.TextLine(description={pylit(P)})\n', False),
    'attr-doc':        ('epytext', lambda P: f'x = 1\n{pylit("attr " + P)}\n', True),
    'ctor-summary':    ('epytext', lambda P: f'class K:\n    def __init__(self, a={pylit(P)}):\n        """Init {P}"""\n    @classmethod\n    def make(cls, b={pylit(P)}) -> "K": pass\n', False),
    'summary':         ('epytext', lambda P: f'class K:\n    """Sum {P} mary.\n\n    More."""\n    def m(self):\n        """M {P}."""\n', False),
    'doc-assign':      ('epytext', lambda P: f'class K: pass\nK.__doc__ = {pylit("Doc " + P)}\n', True),
    'overload':        ('epytext', lambda P: f'from typing import overload\n@overload\ndef f(a: {pylit(P)} = {pylit(P)}) -> int: ...\ndef f(a=1): pass\n', False),
    'attrs-ib':        ('epytext', lambda P: f'import attr\n@attr.s\nclass K:\n    a = attr.ib(default={pylit(P)}, type={pylit(P)})\n', False),
    'exc-base':        ('epytext', lambda P: f'class E(Exception):\n    """E {P}"""\nclass F(E): pass\n', False),
}
def esc_sp(P: str) -> str:
    """a value inside reST markup where whitespace has to be backslash-escaped to stay part of the value"""
    return P.replace('\\', '\\\\').replace(' ', '\\ ')


# sinks where the text ends up in an attribute VALUE written by docutils / the translator (raw docstrings: they contain backslashes)
SINKS.update({
    'rst-link-target':  ('restructuredtext', lambda P: f'def f():\n    r\'\'\'Doc `k <http://x/{esc_sp(P)}>`_ end.\'\'\'\n', False),
    'rst-target-def':   ('restructuredtext', lambda P: f'def f():\n    r\'\'\'Doc k_ end.\n\n    .. _k: http://x/{esc_sp(P)}\n    \'\'\'\n', False),
    'rst-image-alt':    ('restructuredtext', lambda P: f'def f():\n    r\'\'\'Doc.\n\n    .. image:: http://x/i.png\n       :alt: {P}\n    \'\'\'\n', False),
    # images docutils embeds as <object> (svg, swf, ...): the alternative text becomes the CONTENT of the element
    'rst-image-alt-svg': ('restructuredtext', lambda P: f'def f():\n    r\'\'\'Doc.\n\n    .. image:: http://x/i.svg\n       :alt: {P}\n    \'\'\'\n', False),
    'rst-figure-alt-swf': ('restructuredtext', lambda P: f'def f():\n    r\'\'\'Doc.\n\n    .. figure:: http://x/i.swf\n       :alt: {P}\n\n       caption\n    \'\'\'\n', False),
    'google-image-alt-svg': ('google', lambda P: f'def f(a):\n    r\'\'\'Doc.\n\n    Note:\n        .. image:: http://x/i.svg\n           :alt: {P}\n    \'\'\'\n', False),
    # interpreted text whose 'target' is a URL (the trailing underscore of a hyperlink forgotten): the label is text
    'rst-interpreted-url-label': ('restructuredtext', lambda P: f'def f():\n    r\'\'\'Doc `{P} <http://x/y>` end.\n    \'\'\'\n', False),
    'google-interpreted-url-label': ('google', lambda P: f'def f(a):\n    r\'\'\'Doc.\n\n    Args:\n        a: see `{P} <https://x/y>` end.\n    \'\'\'\n', False),
    'rst-interpreted-mailto-label': ('restructuredtext', lambda P: f'def f():\n    r\'\'\'Doc `{P} <mailto:a@b.c>` end.\n    \'\'\'\n', False),
    'rst-image-uri':    ('restructuredtext', lambda P: f'def f():\n    r\'\'\'Doc.\n\n    .. image:: http://x/{esc_sp(P)}\n    \'\'\'\n', False),
    'rst-image-target': ('restructuredtext', lambda P: f'def f():\n    r\'\'\'Doc.\n\n    .. image:: http://x/i.png\n       :target: http://x/{esc_sp(P)}\n       :width: 10\n    \'\'\'\n', False),
    'rst-class-option': ('restructuredtext', lambda P: f'def f():\n    r\'\'\'Doc.\n\n    .. note::\n       :class: {P}\n       :name: {P}\n\n       text\n    \'\'\'\n', False),
    'google-link-target': ('google', lambda P: f'def f(a):\n    r\'\'\'Doc.\n\n    Args:\n        a: see `k <http://x/{esc_sp(P)}>`_\n    \'\'\'\n', False),
    'numpy-image-alt':  ('numpy', lambda P: f'def f(a):\n    r\'\'\'Doc.\n\n    Notes\n    -----\n    .. image:: http://x/i.png\n       :alt: {P}\n    \'\'\'\n', False),
    'epy-url-target':   ('epytext', lambda P: f'def f():\n    r\'\'\'Doc U{{k<http://x/{P}>}} end.\'\'\'\n', False),
})
# the author wrote these values as link targets: what the URL does is theirs (statement), breaking out of the attribute is not
AUTHOR_URL = {'rst-link-target', 'rst-target-def', 'rst-image-uri', 'rst-image-target', 'google-link-target', 'epy-url-target'}
VALUE_SINKS = AUTHOR_URL | {'rst-interpreted-url-label', 'google-interpreted-url-label', 'rst-interpreted-mailto-label', 'rst-image-alt', 'rst-image-alt-svg', 'rst-figure-alt-swf', 'google-image-alt-svg', 'rst-class-option', 'numpy-image-alt', 'rst-code-language', 'rst-codeblock-language', 'rst-version-argument', 'rst-admonition-title', 'google-code-language', 'math-epy', 'math-rst', 'math-block-rst'}

# sinks that need their own runner
SPECIAL = ['file-name', 'project-name', 'project-url', 'project-version', 'html-viewsource-base', 'intersphinx-free']
DOCSTRING_SINKS = ('doc-', 'field-', 'xref-', 'title-', 'url-', 'ivar-', 'summary', 'ctor-summary', 'attr-doc', 'exc-base')
ILLEGAL = re.compile('[\x00-\x08\x0b\x0c\x0e-\x1f\ufffe\uffff]')


def check_page(path: str) -> Tuple[List[Tuple[str, str]], str]:
    raw = open(path, encoding='utf-8', errors='surrogateescape').read()
    t = re.sub(r'^\s*<!DOCTYPE[^>]*>\s*', '', raw)
    t = ILLEGAL.sub('', t)
    probs: List[Tuple[str, str]] = []
    stack: List[str] = []
    text: List[str] = []
    p = expat.ParserCreate()
    cd = [False]

    def start(name: str, attrs: Dict[str, str]) -> None:
        stack.append(name)
        if M in name.lower():
            probs.append(('element-name', name))
        for k, v in attrs.items():
            if M in k.lower() or 'onzqa' in k.lower():
                probs.append(('attribute-name', k))
            if M in v:
                text.append('\x00attr:' + v + '\x00')     # attribute values count as 'the marker reached the page', not as displayed text
                if k.lower().startswith('on'):
                    probs.append(('event-handler-value', k))
                if k.lower() in ('href', 'src', 'action', 'formaction', 'data') and v.strip().lower().startswith('javascript:'):
                    probs.append(('script-url', name + '.' + (attrs.get('class', '').split() or [''])[0]))
                if k.lower() == 'style':
                    probs.append(('style-attribute', k))

    def end(name: str) -> None:
        stack.pop()

    def chars(data: str) -> None:
        text.append(data)
        if M in data:
            if cd[0]:
                probs.append(('cdata-section', data[:20]))
            if any(s in ('script', 'style') for s in stack):
                probs.append(('text-inside-script-or-style', stack[-1]))

    def comment(data: str) -> None:
        if M in data:
            probs.append(('comment', data[:30]))

    def pi(target: str, data: str) -> None:
        if M in target or M in data:
            probs.append(('processing-instruction', target))

    def startcd() -> None:
        cd[0] = True

    def endcd() -> None:
        cd[0] = False
    p.StartElementHandler = start
    p.EndElementHandler = end
    p.CharacterDataHandler = chars
    p.CommentHandler = comment
    p.ProcessingInstructionHandler = pi
    p.StartCdataSectionHandler = startcd
    p.EndCdataSectionHandler = endcd
    try:
        p.Parse(t.encode('utf-8', 'surrogateescape'), True)
    except expat.ExpatError as e:
        probs.append(('ill-formed-page', re.sub(r'line \d+, column \d+', '', str(e)).strip(': ')))
    return probs, ''.join(text)


def shown_text(t: str) -> str:
    return re.sub('\x00attr:[^\x00]*\x00', '', t)


def run_case(files: Dict[str, Any], fmt: str, extra: Sequence[str], payloads: Sequence[str], verbatim: bool, label: str, case: Dict[str, Any], res: Dict[str, Any]) -> None:
    res['evals'] += 1
    with pd.cli_run(files, ['-q', '--docformat', fmt, *extra], roots=['pk']) as r:
        if r.exc or r.status not in (0, 2, 3):
            res['violations'].append(core.violation(f'run-failed/{r.exc_type}@{r.exc_site}/{label}', f'driver failed on sink {label}: {r.exc_type} status {r.status}\n{(r.exc or "")[-400:]}', case))
            return
        reached = False
        seen = set()
        alltext = ''
        for f in sorted(os.listdir(r.out)):
            if not f.endswith('.html'):
                continue
            probs, text = check_page(os.path.join(r.out, f))
            alltext += text
            if M in text or any(probs):
                reached = True
            for clause, detail in probs:
                if clause == 'script-url' and label in AUTHOR_URL:
                    continue
                page = 'summary-page' if f in ('nameIndex.html', 'classIndex.html', 'moduleIndex.html', 'undoccedSummary.html', 'all-documents.html') else 'object-page'
                sig = (clause, label, page) if clause != 'ill-formed-page' else (clause, label, page, detail.split(':')[0])
                if clause == 'script-url':
                    sig = (clause, detail, fmt if not label.startswith('deprecated') else label)
                if sig in seen:
                    continue
                seen.add(sig)
                res['violations'].append(core.violation('/'.join(sig), f'sink {label}, payload(s) {list(payloads)!r}: {clause} ({detail!r}) on {f}', case))
        if reached:
            res['nontrivial'].add(core.h(label, tuple(payloads)))
        res['outcomes'].add((label, reached, bool(seen)))
        if verbatim and len(payloads) == 1:
            P = payloads[0]
            if not ILLEGAL.search(P) and '\r' not in P and '\u2028' not in P and '\xa0' not in P:
                norm = lambda s: re.sub(r'\s+', ' ', s)   # noqa: E731
                if norm(P) not in norm(shown_text(alltext)):
                    res['violations'].append(core.violation(f'payload-not-shown-literally/{label}', f'sink {label}: payload {P!r} is not recoverable literally from the text of any page (dropped or decoded twice)', case))
    if len(res['samples']) < 2:
        res['samples'].append({'sink': label, 'payloads': list(payloads), 'docformat': fmt})


def judge(sink: str, P: str, res: Dict[str, Any]) -> None:
    case = {'kind': 'single', 'sink': sink, 'payload': P}
    if ('.. raw::' in P or '`' in P) and (sink.startswith(DOCSTRING_SINKS) or sink in VALUE_SINKS):
        return      # a raw directive or an explicit hyperlink target written in a docstring is the author's own markup, which the statement excludes
    if sink in VALUE_SINKS and ("'''" in P or '\\' in P or '\n' in P or '\r' in P):
        return
    if sink in SINKS:
        fmt, fn, verbatim = SINKS[sink]
        try:
            src = fn(P)
            compile(src, 'x', 'exec')
        except Exception:  # noqa
            core.bump(res, 'skipped_not_python')
            return
        run_case({'pk/__init__.py': src}, fmt, [], [P], verbatim, sink, case, res)
    elif sink == 'file-name':
        name = re.sub(r'[/\x00]', '_', P)
        if not name.strip('.') or len(name.encode('utf-8', 'surrogatepass')) > 200:
            return
        try:
            (name + '.py').encode('utf-8')
        except UnicodeEncodeError:
            return
        # (the module's objects are referred to from docstrings, annotations and base lists: every link to them carries the full name in an attribute)
        body = ('class K:\n    "k"\n    def m(self, k: "K") -> "K":\n        "see L{K} and L{f}"\nclass S(K):\n    "s L{K.m}"\ndef f(k: K = None) -> K:\n    "x L{K}"\n')
        run_case({'pk/__init__.py': '"""P."""\n', f'pk/{name}.py': body}, 'epytext', [], [P], False, sink, case, res)
    else:
        opt = {'project-name': '--project-name', 'project-url': '--project-url', 'project-version': '--project-version', 'html-viewsource-base': '--html-viewsource-base'}.get(sink)
        if opt is None or '\x00' in P:
            return
        if sink in ('project-url', 'html-viewsource-base') and 'javascript:' in P:
            return      # a URL given on the command line is not text from the documented source
        run_case({'pk/__init__.py': '"""P."""\ndef f(): "x"\n'}, 'epytext', [f'{opt}={P}'], [P], False, sink, case, res)


# ---- which parser reads a docstring: the module's own __docformat__, else the nearest enclosing package's, else the command line's.
# Text of a module whose effective format is not reST-based can never be read as a reST directive.
DF = (None, 'restructuredtext', 'plaintext', 'epytext')
RAW = 'Quoting markup as prose:\n\n.. raw:: html\n\n   <zqx1 onzqa1="1">t</zqx1>\n\nEnd `k <javascript:zqx1>`_ and <zqx1>.\n'


def judge_docformat(root: Optional[str], sub: Optional[str], mod: Optional[str], cli: str, lang: bool, res: Dict[str, Any]) -> None:
    def decl(f: Optional[str]) -> str:
        return f'__docformat__ = {(f + (" en" if lang else ""))!r}\n' if f else ''
    eff = mod or sub or root or cli
    doc = '    ' + RAW.replace('\n', '\n    ')
    body = f'def f():\n    \'\'\'\n{doc}\'\'\'\n'
    body_g = body.replace('def f():', 'def g():')
    files = {'pk/__init__.py': f'"P."\n{decl(root)}from .sub.m import g\n__all__ = ["g"]\n', 'pk/sub/__init__.py': f'"S."\n{decl(sub)}', 'pk/sub/m.py': f'"M."\n{decl(mod)}{body}{body_g}',
             'pk/top.py': f'"T."\n{decl(mod)}{body}'}
    if eff in ('restructuredtext',):
        return          # the author wrote reST on purpose
    label = f'docformat:{root}/{sub}/{mod}/cli={cli}' + ('/lang' if lang else '')
    case = {'kind': 'docformat', 'root': root, 'sub': sub, 'mod': mod, 'cli': cli, 'lang': lang}
    res['evals'] += 1
    with pd.cli_run(files, ['-q', '--docformat', cli], roots=['pk']) as r:
        if r.exc or r.status not in (0, 2, 3):
            res['violations'].append(core.violation(f'run-failed/{r.exc_type}@{r.exc_site}/docformat', f'driver failed on {label}: {r.exc_type}', case))
            return
        res['nontrivial'].add(core.h(label))
        # (index.html is the page of pk, where the function g - written in pk.sub.m, re-exported by pk - is documented: the text was written in m's format)
        for page, expect in (('pk.sub.m.html', mod or sub or root or cli), ('pk.top.html', mod or root or cli), ('index.html', mod or sub or root or cli)):
            if expect == 'restructuredtext':
                continue
            probs, text = check_page(os.path.join(r.out, page))
            res['outcomes'].add(('docformat', expect, bool(probs)))
            where = 'module-in-subpackage' if 'sub' in page else ('re-exported-function' if page == 'index.html' else 'module-in-package')
            tail = '' if where == 're-exported-function' else f'/own={mod}/package={sub if "sub" in page else root}'
            for clause, detail in probs:
                res['violations'].append(core.violation(f'{clause}/docformat-resolution/{where}{tail}',
                                                        f'{label}: the docstring of {page[:-5]} is to be read as {expect}, yet {clause} ({detail!r})', case))
            if '<zqx1 onzqa1="1">t</zqx1>' not in shown_text(text):
                res['violations'].append(core.violation(f'quoted-markup-not-shown/docformat-resolution/{where}{tail}',
                                                        f'{label}: the docstring of {page[:-5]} is to be read as {expect}; the quoted snippet is not shown as text', case))


def judge_pair(s1: str, s2: str, P: str, res: Dict[str, Any]) -> None:
    f1, fn1, _ = SINKS[s1]
    f2, fn2, _ = SINKS[s2]
    if f1 != f2:
        return
    try:
        a = fn1(P)
        b = fn2(P).replace('def f(', 'def g(').replace('class K', 'class K2').replace('X:', 'X2:').replace('Y:', 'Y2:').replace('Z:', 'Z2:').replace('class I(', 'class I2(')
        src = a + b
        compile(src, 'x', 'exec')
    except Exception:  # noqa
        return
    run_case({'pk/__init__.py': src}, f1, [], [P, P], False, f'{s1}+{s2}', {'kind': 'pair', 's1': s1, 's2': s2, 'payload': P}, res)


def jobs(tier: str) -> Iterable[Tuple[str, Any]]:
    for s in list(SINKS) + SPECIAL[:5]:
        yield ('payload-x-sink', ('sink', s))
    for root in DF:
        yield ('docformat-resolution', ('docformat', root))
    if tier == 'thorough':
        for s in SINKS:
            yield ('sink-pairs', ('pairs', s))


def run_job(job: Any, tier: str) -> Dict[str, Any]:
    res = core.result()
    if job[0] == 'sink':
        for P in PAYLOADS:
            judge(job[1], P, res)
    elif job[0] == 'docformat':
        for sub in DF:
            for mod in DF:
                for cli in ('restructuredtext', 'plaintext'):
                    for lang in ((False, True) if tier == 'thorough' or mod == 'plaintext' else (False,)):
                        judge_docformat(job[1], sub, mod, cli, lang, res)
    else:
        for s2 in SINKS:
            for P in DANGEROUS:
                judge_pair(job[1], s2, P, res)
    return res


def replay(case: Dict[str, Any]) -> List[Dict[str, Any]]:
    res = core.result()
    if case['kind'] == 'single':
        judge(case['sink'], case['payload'], res)
    elif case['kind'] == 'docformat':
        judge_docformat(case['root'], case['sub'], case['mod'], case['cli'], case['lang'], res)
    else:
        judge_pair(case['s1'], case['s2'], case['payload'], res)
    return res['violations']
