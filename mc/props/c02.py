"""C02 - the object model is a coherent tree with a consistent name registry.

Explicit-state exploration of analysis histories: a history is a sequence of events
(define, redefine, nest, documented-only field, re-export move, renamed move, star move,
local definition in the re-exporter, consumers, zope implementer, import cycles, ...), each
event appending statements to the modules of the skeleton p/{__init__, a, b}.  Every history
up to a length bound is built by the real System under every reachable processing order and the
invariants I1..I9 of the statement are evaluated on the final state.  States are canonical dumps
of the final object model; transitions are (state(history), event, state(history+event)).
"""
from __future__ import annotations

import collections
import itertools
import re
from typing import Any, Dict, Iterable, List, Optional, Sequence, Tuple

from mc import core, pd

ID = 'C02'
LEVEL = 'model_checking'
RULE = ('all event histories <= L over the event alphabet x both processing orders of the sibling modules, each built from scratch by the real '
        'System; a history is non-trivial when it contains a move/duplicate/cycle event together with another event touching the same name; '
        'states = distinct canonical dumps of the final model, transitions = history extensions; distinct_nontrivial counts distinct non-trivial final states')
ASSUMPTIONS = [
    'events append statements to modules in history order; the skeleton is one package with two sub-modules',
    'hierarchies CPython rejects and root modules named like summary pages are outside the alphabet',
]
FLOOR = {'quick': 300, 'thorough': 1500}
SPACE = {'quick': 'histories <= 3 over 42 events x 2 schedules', 'thorough': 'histories <= 4 over 42 events x 2 schedules'}

EVENTS: Dict[str, List[Tuple[str, str]]] = {
    'defC':   [('a', 'class X:\n    def m(self): pass\n')],
    'redefC': [('a', 'class X:\n    def n(self): pass\n')],
    'redefF': [('a', 'def X(): pass\n')],
    'var':    [('a', 'X = 1\n')],
    'nest':   [('a', 'class X:\n    class I:\n        def k(self): pass\n')],
    'field':  [('a', 'class X:\n    """\n    @ivar v: doc\n    """\n    v = 1\n')],
    'inst':   [('a', 'class X:\n    def __init__(self):\n        self.w = 1\n    w = 2\n')],
    'move':   [('p', 'from .a import X\n__all__ = ["X"]\n')],
    'moveAs': [('p', 'from .a import X as Y\n__all__ = ["Y"]\n')],
    'star':   [('p', 'from .a import *\n__all__ = ["X"]\n')],
    'local':  [('p', 'class X:\n    def k(self): pass\n')],
    'moveB':  [('b', 'from .a import X\n__all__ = ["X"]\n')],
    'subA':   [('b', 'from .a import X\nclass S(X): pass\n')],
    'subP':   [('b', 'from p import X\nclass T(X): pass\n')],
    'subIn':  [('a', 'class V(X):\n    def m(self): pass\n')],
    'cycle':  [('a', 'from .b import S\nclass Z(S): pass\n')],
    'cycle2': [('a', 'from .b import B2\nclass A2: pass\nclass A3(A2): pass\n'), ('b', 'from .a import A2\nclass B2(A2): pass\n')],
    'rootname': [('a', 'class p:\n    "a class whose short name is the name of the root package"\n    def m(self): pass\n')],
    'modname': [('b', 'class a:\n    "a class whose short name is the name of a sibling module"\nclass b:\n    class b:\n        pass\n')],
    'zope':   [('b', 'from zope.interface import Interface, implementer\nclass IX(Interface):\n    def im(): pass\n@implementer(IX)\nclass W: pass\n')],
    # definitions in the package __init__ named like the package's own sub-modules; definitions inside control-flow blocks of a function body
    'pkgdef-modname': [('p', 'def a():\n    "function named like sub-module a"\nclass b:\n    "class named like sub-module b"\n    def k(self): pass\n')],
    'pkgvar-modname': [('p', 'a = 1\n"variable named like sub-module a"\n')],
    'fn-inner-in-block': [('a', 'def F(c):\n    if c:\n        def inner(): pass\n    try:\n        class IC:\n            def m(self): pass\n    except Exception:\n        pass\n'
                                '    with c:\n        async def ai(): pass\n    for _ in c:\n        v = 1\n        def loopf(): pass\n    while c:\n        def wf(): pass\n'
                                'class H:\n    def meth(self):\n        if self:\n            def cb(): pass\n            class Loc: pass\n')],
    'dupmeth': [('a', 'class X:\n    def m(self): "first"\n    def m(self): "second"\n    class I:\n        v = 1\n    class I:\n        v = 2\n')],
    'badmro': [('a', 'class Q1: pass\nclass Q2(Q1): pass\nclass Q3(Q1, Q2): pass\nclass Q4(Q3): pass\n')],
    'move-module': [('b', 'from p import a as amod\n__all__ = ["amod"]\n')],
    'move-onto-modname': [('b', 'class a:\n    "class named like sub-module a"\n    def k(self): pass\n'), ('p', 'from .b import a\n__all__ = ["a"]\n')],
    'move-method': [('a', 'class X:\n    def mm(self): pass\nmm2 = X.mm\n'), ('b', 'from .a import mm2\n__all__ = ["mm2"]\n')],
    'pkgdoc-var-modname': [('p:top', '"""\nPackage.\n\n@var a: documented like a variable\n@ivar b: also\n"""\n')],
    # interfaces that are not class statements: created by calling an InterfaceClass (subclass); declared through every declaration form
    'zopecall': [('b', 'from zope.interface import implementer\nfrom zope.interface.interface import InterfaceClass\nclass MyIC(InterfaceClass): pass\nIC1 = InterfaceClass("IC1")\nIC2 = MyIC("IC2")\n'
                       '@implementer(IC1, IC2)\nclass W2: pass\nclass IC3(IC2):\n    def im3(): pass\n@implementer(IC3)\nclass W3(W2): pass\n')],
    'zopedecl': [('a', 'from zope.interface import Interface, classImplements, implementer, moduleProvides, implementer_only\nclass IY(Interface): pass\nclass IZ(IY): pass\nmoduleProvides(IY)\n'
                       'class V1: pass\nclassImplements(V1, IY, IZ)\n@implementer(IZ)\nclass V2(V1): pass\n@implementer_only(IY)\nclass V3(V2): pass\n@implementer(X)\nclass V4: pass\n')],
    # a module-level function wearing a method decorator; a re-export that lands ON a local definition of the importing module (which may itself be moved later)
    'mod-decorated-fn': [('a', '@staticmethod\ndef smf(): pass\n@classmethod\ndef cmf(cls): pass\nclass Hd:\n    @staticmethod\n    def sm(): pass\n')],
    'move-onto-local': [('p', 'class X:\n    def inp(self): pass\n'), ('a', 'from p import X\n__all__ = ["X"]\n')],
    'dup-root-module': [('r', 'class R1:\n    def m(self): pass\n'), ('r#2', 'class R2:\n    def n(self): pass\nfrom p.a import X as RX\n')],
    'dup-root-package-deep': [('rp/x', 'class PX1:\n    def m(self): pass\n'), ('rp/s/deep', 'class Deep1:\n    def legacy(self): pass\ndef legacy_start(): pass\n'), ('rp#2/x', 'class PX2:\n    def n(self): pass\n')],
    'dup-root-package': [('rp/x', 'class PX1:\n    def m(self): pass\n'), ('rp#2/x', 'class PX2:\n    def n(self): pass\n')],
    'dotted-field': [('a', 'class X:\n    """\n    @ivar foo.bar: x\n    @type foo.bar: int\n    """\n    class foo:\n        bar = 1\n')],
    'zope-attr-over-method': [('b', 'from zope.interface import Interface, Attribute\nclass IM(Interface):\n    def x(): pass\n    x = Attribute("doc")\n    y = Attribute("doc")\n    def y(): pass\n')],
    'zopecall-in-function': [('b', 'from zope.interface.interface import InterfaceClass\nclass PIC(InterfaceClass): pass\ndef make0(name):\n    IDyn = PIC(name)\n    IDyn2 = InterfaceClass("IDyn2")\n    return IDyn\n'
                                   'class Reg0:\n    def lookup(self):\n        IFound = InterfaceClass("IFound")\n        self.IAttr = PIC("IAttr")\n        return IFound\n')],
    # a second root whose name extends the first root's name: an interface moved by a re-export there, implemented under its old name
    'zope-moved-in-prefixed-root': [('pq/__init__', 'from ._i import IExtra\n__all__ = ["IExtra"]\n'), ('pq/_i', 'from zope.interface import Interface\nclass IExtra(Interface):\n    def ex(): pass\n'),
                                    ('pq/impl', 'from zope.interface import implementer\nfrom pq._i import IExtra\n@implementer(IExtra)\nclass Extra:\n    def ex(self): pass\n')],
    'rename-module': [('p', 'from . import a as amod\n__all__ = ["amod"]\n')],
    'zopeimp': [('b', 'from zope.interface import implementer\nfrom .a import IY\nfrom p import IY as IYY\n@implementer(IY)\nclass U1: pass\n@implementer(IYY)\nclass U2: pass\n')],
}
NAMES = list(EVENTS)
INTERESTING = {'move', 'moveAs', 'star', 'local', 'moveB', 'redefC', 'redefF', 'var', 'cycle', 'cycle2'}
ORDERS = [('a', 'b'), ('b', 'a')]


def program(hist: Sequence[str]) -> Dict[str, str]:
    src = {'p': '', 'a': '', 'b': '', 'r': '', 'r#2': '', 'rp/x': '', 'rp#2/x': '', 'rp/s/deep': '', 'pq/__init__': '', 'pq/_i': '', 'pq/impl': ''}
    top = {'p': '', 'a': '', 'b': ''}
    for e in hist:
        for m, s in EVENTS[e]:
            if m.endswith(':top'):
                if s not in top[m[:-4]]:
                    top[m[:-4]] += s        # text that has to open the module (its docstring)
            else:
                src[m] += s
    return {m: top.get(m, '') + src[m] for m in src}


def build(src: Dict[str, str], order: Sequence[str]) -> Any:
    s = pd.new_system(systemcls=pd.RecordingSystem)
    b = s.systemBuilder(s)
    b.addModuleString(src['p'], 'p', None, is_package=True)
    for m in order:
        b.addModuleString(src[m], m, 'p')
    # further roots given after the package; the same name given twice (module, and package with a sub-module)
    for key in ('r', 'r#2'):
        if src.get(key):
            b.addModuleString(src[key], 'r', None)
    for key in ('rp/x', 'rp#2/x'):
        if src.get(key):
            b.addModuleString('', 'rp', None, is_package=True)
            b.addModuleString(src[key], 'x' if key == 'rp/x' else 'y', 'rp')
            if key == 'rp/x' and src.get('rp/s/deep'):
                # the first copy of the package also has a sub-package with a module two levels down
                b.addModuleString('', 's', 'rp', is_package=True)
                b.addModuleString(src['rp/s/deep'], 'deep', 'rp.s')
                b.addModuleString('', 't', 'rp.s', is_package=True)
                b.addModuleString(src['rp/s/deep'].replace('Deep', 'Deeper'), 'deeper', 'rp.s.t')
    if src.get('pq/_i'):
        b.addModuleString(src['pq/__init__'], 'pq', None, is_package=True)
        b.addModuleString(src['pq/_i'], '_i', 'pq')
        b.addModuleString(src['pq/impl'], 'impl', 'pq')
    b.buildModules()
    return s


def inside_replaced_module(o: Any) -> bool:
    """o lies inside a module whose entry in its package was taken over by an object that is not a module (pinned behaviour of reparent for a
    re-export under the name of a sub-module; KNOWN_FINDINGS C11/C02): everything inside such a module is cut off from the tree"""
    from pydoctor import model
    while o is not None and o.parent is not None:
        if isinstance(o, model.Module):
            cur = o.parent.contents.get(o.name)
            if cur is not o and cur is not None and not isinstance(cur, model.Module):
                return True
        o = o.parent
    return False


def follow(s: Any, name: str, depth: int = 0) -> Any:
    """the object a (possibly outdated) qualified name leads to: registered under that name, or reached through the import / move aliases of its prefix"""
    o = s.allobjects.get(name)
    if o is not None or depth > 6 or '.' not in name:
        return o
    head, _, last = name.rpartition('.')
    parent = follow(s, head, depth + 1)
    if parent is None:
        return None
    if last in parent.contents:
        return parent.contents[last]
    target = getattr(parent, '_localNameToFullName_map', {}).get(last)
    if target and target != name:
        return follow(s, target, depth + 1)
    return None


def invariants(s: Any) -> List[str]:
    from pydoctor import model

    class Bad(list):      # type: ignore[type-arg]
        def append(self, item: str) -> None:   # tag the invariant with the structural cause when the object at fault is known
            o = self.current
            list.append(self, item + ('@inside-replaced-module' if o is not None and inside_replaced_module(o) else ''))
        current: Any = None
    bad = Bad()
    K = model.DocumentableKind
    seen_ids: Dict[int, str] = {}
    for k, o in s.allobjects.items():
        bad.current = o
        if isinstance(o, model.Module) and o.kind not in (K.MODULE, K.PACKAGE):
            bad.append('I5-module-kind')
        if o.fullName() != k:
            bad.append('I1-registered-under-other-name')
        if id(o) in seen_ids:
            bad.append('I1-registered-twice')
        seen_ids[id(o)] = k
        par = o.parent
        if par is None:
            if o not in s.rootobjects:
                bad.append('I3-rootless')
        else:
            if s.allobjects.get(par.fullName()) is not par:
                bad.append('I3-parent-unregistered')
            if par.contents.get(o.name) is not o:
                if not re.search(r' \d+$', o.name):
                    bad.append('I4-not-entry-not-superseded')
        # parent chain ends in a root
        chain = o
        hops = 0
        while chain.parent is not None and hops < 50:
            chain = chain.parent
            hops += 1
        if chain not in s.rootobjects:
            bad.append('I3-chain-not-rooted')
        if isinstance(o, model.Function):
            if o.contents:
                bad.append('I5-function-has-children')
            if isinstance(par, model.Class) and o.kind not in (K.METHOD, K.CLASS_METHOD, K.STATIC_METHOD):
                bad.append('I5-function-in-class-not-method')
            if isinstance(par, model.Module) and o.kind is not K.FUNCTION:
                bad.append('I5-function-in-module-kind')
        if isinstance(o, model.Attribute) and o.contents:
            bad.append('I5-attribute-has-children')
        if isinstance(o, model.Module) and par is not None and not isinstance(par, model.Package):
            bad.append('I5-module-outside-package')
        if isinstance(o, model.Class):
            mro = o.mro(True)
            if not mro or mro[0] is not o:
                bad.append('I6-mro-head')
            ids = [x if isinstance(x, str) else id(x) for x in mro]
            if len(ids) != len(set(ids)):
                bad.append('I6-mro-duplicate')
            for b in o.baseobjects:
                if b is not None:
                    if list(o.mro()).count(b) != 1:
                        bad.append('I6-base-not-once-in-mro')
                    if b.subclasses.count(o) != 1:
                        bad.append('I7-subclass-entry-count')
            for sc in o.subclasses:
                if o not in sc.baseobjects:
                    bad.append('I7-subclass-without-base')
            if len(o.subclasses) != len(set(map(id, o.subclasses))):
                bad.append('I7-subclass-duplicate')
            # I8 zope
            for iname in getattr(o, 'implements_directly', []) or []:
                io = follow(s, iname)      # reference reading of a possibly outdated name: the registry, else the alias left where the object was defined
                if io is not None and hasattr(io, 'implementedby_directly') and o not in io.implementedby_directly:
                    bad.append('I8-implements-without-implementedby')
            for impl in getattr(o, 'implementedby_directly', []) or []:
                names = getattr(impl, 'implements_directly', [])
                if o.fullName() not in names:
                    bad.append('I8-implementedby-without-implements')

    bad.current = None

    def walk(o: Any) -> None:
        bad.current = o
        if s.allobjects.get(o.fullName()) is not o:
            bad.append('I2-reachable-unregistered')
        for name, c in o.contents.items():
            if c.parent is not o:
                bad.append('I2-child-parent-mismatch')
            if c.name != name:
                bad.append('I2-contents-key-mismatch')
            walk(c)
    for r in s.rootobjects:
        walk(r)
    bad.current = None
    urls = collections.Counter(o.url for o in s.allobjects.values() if isinstance(o, (model.Module, model.Class)))
    if any(v > 1 for v in urls.values()):
        bad.append('I9-page-name-clash')
    return sorted(set(bad))


def state_of(s: Any) -> str:
    d = pd.dump(s)
    return core.h(sorted((k, tuple(sorted((kk, repr(vv)) for kk, vv in v.items()))) for k, v in d.items()))


def check_history(hist: Sequence[str], order: Sequence[str]) -> Tuple[List[str], Optional[Any]]:
    try:
        s = build(program(hist), order)
    except Exception as e:  # noqa
        return [f'CRASH-{type(e).__name__}@{pd.exc_site(e)}'], None
    return invariants(s), s


def minimise(hist: Sequence[str], order: Sequence[str], inv: str) -> List[str]:
    cur = list(hist)
    changed = True
    while changed:
        changed = False
        for i in range(len(cur)):
            cand = cur[:i] + cur[i + 1:]
            if cand and inv in check_history(cand, order)[0]:
                cur = cand
                changed = True
                break
    return cur


def make_violations(hist: Sequence[str], order: Sequence[str], bad: Sequence[str]) -> List[Dict[str, Any]]:
    out = []
    for inv in bad:
        mh = minimise(hist, order, inv)
        other = ORDERS[1] if tuple(order) == ORDERS[0] else ORDERS[0]
        dep = '' if inv in check_history(mh, other)[0] else f'/only-order-{"".join(order)}'
        # (relations kept by NAME do not depend on the order in which the events' text was appended: the minimal history is named as a set)
        key = '+'.join(sorted(mh)) if inv.startswith('I8') and len(mh) > 2 else '>'.join(mh)
        sig = f'{inv}/{key}{dep}' if '@' not in inv else inv.replace('@', '/')
        out.append(core.violation(sig, f'history {list(hist)} (minimal: {mh}) analysed in order p,{",".join(order)} breaks {inv}',
                                  {'kind': 'history', 'hist': list(hist), 'order': list(order)}))
    return out


def explore(prefix: List[str], order: Sequence[str], depth: int, parent_state: Optional[str], res: Dict[str, Any]) -> None:
    bad, s = check_history(prefix, order)
    res['evals'] += 1
    res['traces'] += 1
    if s is not None:
        st = state_of(s)
        res['states'].add(st)
        if parent_state is not None:
            res['transitions'].add(core.h(parent_state, prefix[-1], st))
        pst, ptr = pd.processing_graph(s.trace)
        res['extra'].setdefault('processing_states', set()).update(core.h(x) for x in pst)
        res['extra'].setdefault('processing_transitions', set()).update(core.h(x) for x in ptr)
        if len(set(prefix) & INTERESTING) >= 1 and len(prefix) >= 2:
            res['nontrivial'].add(st)
        res['outcomes'].add(st)
    else:
        st = None
    if bad:
        res['violations'] += make_violations(prefix, order, bad)
    if len(res['samples']) < 2 and len(prefix) >= 3 and s is not None:
        res['samples'].append({'history': list(prefix), 'order': ['p'] + list(order), 'sources': program(prefix), 'registry': sorted(s.allobjects)})
    if depth > 1:
        for e in NAMES:
            explore(prefix + [e], order, depth - 1, st, res)


def jobs(tier: str) -> Iterable[Tuple[str, Any]]:
    L = 3 if tier == 'quick' else 4
    for e in NAMES:
        for oi in range(2):
            if L == 3:
                yield (f'histories<={L}', ('hist', [e], oi, L))
            else:
                for e2 in NAMES:
                    yield (f'histories<={L}', ('hist', [e, e2], oi, L - 1))
    if L == 4:
        for e in NAMES:
            for oi in range(2):
                yield ('histories<=1', ('hist', [e], oi, 1))


def run_job(job: Any, tier: str) -> Dict[str, Any]:
    res = core.result()
    _, prefix, oi, depth = job
    parent_state = None
    if len(prefix) > 1:
        _, ps = check_history(prefix[:-1], ORDERS[oi])
        parent_state = state_of(ps) if ps is not None else None
    explore(list(prefix), ORDERS[oi], depth, parent_state, res)
    return res


def replay(case: Dict[str, Any]) -> List[Dict[str, Any]]:
    bad, _ = check_history(case['hist'], case['order'])
    return make_violations(case['hist'], case['order'], bad) if bad else []
