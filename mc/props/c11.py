"""C11 - every internal link leads to a page and anchor that exist.

Projects = all sets of up to K link-producing features (mc.site.F) on a fixed skeleton x a configuration alphabet
(themes, sidebar depths, no sidebar, toc depth, source links).  Each project goes through the real driver
(get_system + make in-process); the complete output tree is crawled: every relative href/src must name a written file
and, with a fragment, an id/name present in it; all-documents url fields likewise; from the model every visible
module/package/class has a page at obj.url and every visible function/variable an anchor on its parent's page.
"""
from __future__ import annotations

import itertools
from typing import Any, Dict, Iterable, List, Sequence, Tuple

from mc import core, pd, site

ID = 'C11'
LEVEL = 'exploration'
RULE = ('projects = feature sets <= K over 31 link-producing features x configurations, each a full driver run whose whole output tree is crawled; '
        'a run is non-trivial when the crawl follows at least 50 internal links and the project has at least one cross-page link; distinct = distinct (features, configuration)')
ASSUMPTIONS = [
    'absolute URLs, source links and intersphinx links are not followed; the three built-in themes only',
    'a page "exists" when the file was written by this run into a fresh output directory',
]
FLOOR = {'quick': 300, 'thorough': 2000}
SPACE = {'quick': 'feature singles x 9 configurations; all feature pairs (default configuration)', 'thorough': 'feature pairs x 4 configurations; all triples of 14 core features'}
JOB_TIMEOUT = 2300
CORE14 = ['subclass', 'inh-doc-xref', 'summary-xref', 'xrefs', 'annot', 'generic-base', 'reexport', 'dup', 'private', 'hidden-base', 'hidden-member', 'nested', 'same-name', 'two-roots']


def judge(feats: Sequence[str], cfg: Sequence[str], res: Dict[str, Any]) -> None:
    case = {'kind': 'run', 'feats': list(feats), 'cfg': list(cfg)}
    res['evals'] += 1
    with site.run(feats, cfg) as r:
        if r.exc or r.status not in (0, 2, 3) or r.system is None:
            res['violations'].append(core.violation(f'run-failed/{r.exc_type}@{r.exc_site}', f'driver failed for {list(feats)} {list(cfg)}: {r.exc_type} status={r.status}\n{(r.exc or "")[-600:]}', case))
            return
        pages = site.parse_pages(str(r.out))
        nlinks = sum(len(p.links) for p in pages.values())
        found = site.crawl(str(r.out), r.system, pages)
        if nlinks >= 50:
            res['nontrivial'].add(core.h(tuple(feats), tuple(cfg)))
        res['outcomes'].add(core.h(sorted({s for s, _ in found})))
        core.bump(res, 'links_followed', nlinks)
        core.bump(res, 'pages_crawled', len(pages))
        seen = set()
        for sig, what in found:
            if sig in seen:
                continue
            seen.add(sig)
            res['violations'].append(core.violation(site.sigstr(sig), f'features {list(feats)} config {list(cfg)}: {what}', case))
        if len(res['samples']) < 2 and len(feats) > 1:
            res['samples'].append({'features': list(feats), 'config': list(cfg), 'pages': len(pages), 'links_followed': nlinks})


PAGE_NAMES = ['index', 'nameIndex', 'classIndex', 'moduleIndex', 'undoccedSummary', 'all-documents', 'apidocs']


def judge_root_named(name: str, shape: str, res: Dict[str, Any]) -> None:
    """a project whose ONLY root is a module / package named like a page pydoctor writes itself: still no dead link"""
    body = '"""Doc."""\nclass A:\n    "a"\n    def m(self): "L{A}"\nclass B(A):\n    "b"\ndef f(): "L{B}"\n'
    if shape == 'module':
        files, roots = {f'{name}.py': body}, [f'{name}.py']
    else:
        files, roots = {f'{name}/__init__.py': body, f'{name}/sub.py': 'from . import A\nclass C(A):\n    "c"\n'}, [name]
    case = {'kind': 'root-named', 'name': name, 'shape': shape}
    res['evals'] += 1
    with pd.cli_run(files, ['-q'], roots=roots, keep_system=True) as r:
        if r.exc or r.status not in (0, 2, 3) or r.system is None:
            res['violations'].append(core.violation(f'run-failed/{r.exc_type}@{r.exc_site}', f'driver failed for single root {shape} {name}: {r.exc_type} status={r.status}', case))
            return
        pages = site.parse_pages(str(r.out))
        res['nontrivial'].add(core.h('root-named', name, shape))
        seen = set()
        for sig, what in site.crawl(str(r.out), r.system, pages):
            if sig in seen:
                continue
            seen.add(sig)
            res['violations'].append(core.violation(site.sigstr(sig) + f'/single-root-{shape}-named-like-a-page', f'single root {shape} named {name}: {what}', case))


def hideable_containers(feats: Sequence[str]) -> List[str]:
    from pydoctor import model
    with site.run(feats) as r:
        if r.system is None:
            return []
        roots = [o.fullName() for o in r.system.rootobjects]
        out = []
        for k, o in r.system.allobjects.items():
            if isinstance(o, model.Module) and o.isVisible and ' ' not in k and not (k in roots and len(roots) == 1):
                out.append(k)
        return out


def jobs(tier: str) -> Iterable[Tuple[str, Any]]:
    for f in site.NAMES:
        yield ('singles:all-configs', ('single', f))
    for f in site.NAMES:
        if f != 'many-mods':
            yield ('singles:each-module-or-root-hidden', ('hidden', f))
    yield ('single-root-named-like-a-page', ('rootnamed',))
    for f in site.NAMES:
        yield ('pairs:default-config', ('pairs', f, [[]]))
    if tier == 'thorough':
        for f in site.NAMES:
            yield ('pairs:4-configs', ('pairs', f, [c for c in site.CONFIGS[1:] if c[0] in ('--sidebar-expand-depth', '--theme')][:4]))
        for a, b in itertools.combinations(CORE14, 2):
            yield ('triples:core14', ('triples', a, b))


def run_job(job: Any, tier: str) -> Dict[str, Any]:
    res = core.result()
    if job[0] == 'single':
        for cfg in site.CONFIGS:
            judge([job[1]], cfg, res)
    elif job[0] == 'rootnamed':
        for name in PAGE_NAMES:
            for shape in ('module', 'package'):
                judge_root_named(name, shape, res)
    elif job[0] == 'hidden':
        # a site with one module, package or root hidden is still a site: what is left has no dead links, and the start page exists
        for name in hideable_containers([job[1]]):
            judge([job[1]], ['--privacy', 'HIDDEN:' + name], res)
    elif job[0] == 'pairs':
        _, f, cfgs = job
        for g in site.NAMES[site.NAMES.index(f) + 1:]:
            if 'many-mods' in (f, g) and cfgs != [[]]:
                continue
            for cfg in cfgs:
                judge([f, g], cfg, res)
    else:
        _, a, b = job
        for c in CORE14[CORE14.index(b) + 1:]:
            judge([a, b, c], [], res)
    return res


def replay(case: Dict[str, Any]) -> List[Dict[str, Any]]:
    res = core.result()
    if case['kind'] == 'root-named':
        judge_root_named(case['name'], case['shape'], res)
    else:
        judge(case['feats'], case['cfg'], res)
    return res['violations']
