"""C18 - equal inputs give byte-identical output.

Separate `python -m pydoctor` processes with a fixed SOURCE_DATE_EPOCH.  Explored dimensions: project shape {1,2,3 roots} x
{--project-name given / not} x option variants {default, source member order, sidebar depth 3 + readthedocs theme} x
hash seed x directory listing order (a sitecustomize on PYTHONPATH permutes Path.iterdir / os.scandir / os.listdir) x history of
the output directory {fresh, second run into the same directory, run with another seed / listing into the directory left by a
previous run}.  Oracle: recursive byte comparison (files, symlink targets, names) with the reference run of the same
project/options.  The histories form an explicit state graph: states = content hashes of the output tree, transitions = runs.
"""
from __future__ import annotations

import hashlib
import itertools
import os
import shutil
import subprocess
import sys
from pathlib import Path
from typing import Any, Dict, Iterable, List, Optional, Sequence, Tuple

from mc import core, pd

ID = 'C18'
LEVEL = 'model_checking'
RULE = ('every (project, options) is run in separate processes under each explored environment answer (hash seed, listing permutation) and each output-directory '
        'history; the output tree of every run is compared byte for byte with the reference run; states = distinct output-tree hashes per project/options '
        '(must be exactly one), transitions = (state, run with seed/listing into fresh or used directory, state\'); a run is non-trivial when its environment '
        'differs from the reference (other seed or listing order or a used output directory); distinct = distinct (project, options, seed, listing, history)')
ASSUMPTIONS = [
    'hash seeds are a 2^32 space: covered for 0..15 (thorough 0..63); the listing order is permuted for pathlib.Path.iterdir, os.scandir and os.listdir',
    'a different ORDER OF ROOTS ON THE COMMAND LINE is a different invocation and not part of the property',
    'the wall clock is owned through the same sitecustomize seam (datetime.datetime.now/utcnow/today, time.time answer $VERIF_FAKE_NOW)',
]
FLOOR = {'quick': 200, 'thorough': 1000}
SPACE = {'quick': '14 project shapes (1-3 root packages, single-file root modules, mixed root kinds in both orders; named / unnamed) x 3 option variants x (seeds 1..7, 6 listing orders, 4 histories); 7 ways of fixing the build time x 2 owned wall-clock times', 'thorough': 'seeds 1..63, 24 listing permutations, 6 histories'}
JOB_TIMEOUT = 2400
HOME = os.environ.get('VERIF_HOME', '/verif')
REPO = os.environ.get('VERIF_REPO', '/repo')

OPTION_VARIANTS: Dict[str, List[str]] = {
    'default': [],
    'source-order': ['--cls-member-order', 'source', '--mod-member-order', 'source'],
    'rtd-depth3': ['--theme', 'readthedocs', '--sidebar-expand-depth', '3', '--html-viewsource-base', 'http://example.org/src'],
    # a template directory whose files differ in case only (the lookup is case-insensitive) plus an ordinary override
    'template-dir': ['--template-dir', '<TPL>'],
    # several subjects, one of them named twice: the pages written, their table ids and the inventory lines follow the order given
    'html-subjects': ['<SUBJECTS>'],
}


# (name, SOURCE_DATE_EPOCH, extra options): every way the statement names to fix the build time, incl. the boundary values of the epoch
BUILD_TIMES: List[Tuple[str, Optional[str], List[str]]] = [
    ('epoch=1000000', '1000000', []), ('epoch=0', '0', []), ('epoch=1', '1', []), ('epoch=4102444800', '4102444800', []), ('epoch=00012', '00012', []),
    ('buildtime-option', None, ['--buildtime', '2001-02-03 04:05:06']), ('buildtime-option+epoch', '5', ['--buildtime', '2001-02-03 04:05:06']),
]


def tree(d: str) -> Dict[str, Tuple[str, Any]]:
    out: Dict[str, Tuple[str, Any]] = {}
    for root, dirs, files in os.walk(d):
        for f in files + dirs:
            p = os.path.join(root, f)
            rel = os.path.relpath(p, d)
            if os.path.islink(p):
                out[rel] = ('link', os.readlink(p))
            elif os.path.isfile(p):
                out[rel] = ('file', hashlib.sha1(open(p, 'rb').read()).hexdigest())
            else:
                out[rel] = ('dir', '')
    return out


def tree_hash(t: Dict[str, Tuple[str, Any]]) -> str:
    return core.h(sorted(t.items()))


def mkproj(base: str, nroots: Any) -> List[str]:
    """nroots: a number of root packages, or a string over {p, m}: one root per letter, p = package, m = single-file module"""
    roots = []
    shape = 'p' * nroots if isinstance(nroots, int) else nroots
    for i, kind in enumerate(shape):
        name = ['aa', 'bb', 'cc'][i]
        if kind == 'm':
            (Path(base) / 'src').mkdir(parents=True, exist_ok=True)
            mp = Path(base) / 'src' / f'{name}mod.py'
            mp.write_text(f'"""Root module {name}."""\nclass M{i}:\n    "doc"\n    x = y = 0\n    def m(self): pass\nclass N{i}(M{i}): pass\ndef f{i}(a={{1, 2}}): pass\n')
            roots.append(str(mp))
            continue
        p = Path(base) / 'src' / name
        (p / 'sub').mkdir(parents=True)
        (p / '__init__.py').write_text(
            f'"""Root {name}."""\nfrom .a import f as refunc\n__all__ = ["K{i}", "refunc", "getvalue", "getValue"]\n'
            f'class K{i}:\n    "doc L{{K{i}.m}}"\n    alpha = beta = gamma = delta = 0\n    def m(self): pass\n    def getvalue(self): pass\n    def getValue(self): pass\n'
            f'class Sub{i}a(K{i}): pass\nclass Sub{i}b(K{i}):\n    def m(self): "over"\nclass Sub{i}c(Sub{i}a, Sub{i}b): pass\n'
            f'def getvalue(): pass\ndef getValue(): pass\n')
        (p / 'z.py').write_text('def f():\n    "doc"\n')
        (p / 'a.py').write_text('from .z import f\nfrom typing import Final\nX: Final = {1, 2, 3}\nY: Final = frozenset(["a", "b"])\nZ: Final = {"k": {"x", "y"}}\ndef g(a={1, 2}, b=frozenset()): pass\n')
        (p / 'Shapes.py').write_text('class Shape:\n    "upper module"\n')
        (p / 'shapes.py').write_text('class Shape:\n    "lower module"\nclass Square(Shape): pass\n')
        # a sub-package that re-exports, through a star import, several names of a module without __all__ (the order of the moves reaches the
        # inventory and the search files); files that share their base name with a module (stub, data file, C source, directory of the same name)
        (p / 'star').mkdir()
        (p / 'star' / '__init__.py').write_text('from ._impl import *\n__all__ = ["alpha_fn", "Beta", "gamma_fn", "Delta", "epsilon"]\n')
        (p / 'star' / '_impl.py').write_text('def alpha_fn(): "a"\nclass Beta:\n    "b"\ndef gamma_fn(): "g"\nclass Delta(Beta):\n    "d"\nepsilon = 1\n"e"\ndef _private(): pass\n')
        # one attribute claimed by two extensions at once (attrs and zope.interface): the result must not depend on the order they are loaded in
        (p / 'ext2.py').write_text('import attr, zope.interface\n@attr.s(auto_attribs=True)\nclass Thing:\n    z: int = zope.interface.Attribute("zed")\n    w = attr.ib(default=zope.interface.Attribute("w"))\n')
        # names that tie under the case-insensitive sort key wherever subclasses are listed ('overridden in', known subclasses, class index):
        # the order among them must come from the sources, not from a set (R8-C18-a)
        (p / 'ties.py').write_text('class Base:\n    "base"\n    def run(self): "r"\n    def stop(self): "s"\n'
                                   + ''.join(f'class {n}(Base):\n    def run(self): pass\n    def stop(self): pass\n' for n in ('Handler', 'handler', 'HANDLER', 'hANDLER')))
        (p / 'z.pyi').write_text('def f() -> None: ...\n')
        (p / 'a.json').write_text('{}')
        (p / 'shapes.c').write_text('/* c */')
        (p / 'z').mkdir()
        (p / 'z' / 'data.txt').write_text('not a package')
        (p / 'sub' / '__init__.py').write_text('')
        (p / 'sub' / 'm.py').write_text('from zope.interface import Interface, implementer\n' + ''.join(f'class I{c}(Interface):\n    def run():\n        "run as I{c} says"\n    def only{c}(): "o"\n' for c in 'ABCDEF')
                                        + '@implementer(IA, IB, IC, ID, IE, IF)\nclass S:\n    x = y = 1\n')
        (p / 'sub' / 'n.py').write_text('from .m import S\nclass T(S):\n    def run(self): pass\n    def onlyC(self): pass\nclass U(S):\n    def run(self):\n        "own doc"\n')
        roots.append(str(p))
    return roots


def run(roots: Sequence[str], out: str, seed: int, listorder: Optional[str], name: Optional[str], extra: Sequence[str],
        epoch: Optional[str] = '1000000', now: Optional[str] = None, tz: Optional[str] = None) -> Tuple[int, str]:
    env = dict(os.environ, PYTHONHASHSEED=str(seed), PYTHONPATH=os.path.join(HOME, 'mc', 'sitecustom') + os.pathsep + REPO, PYTHONDONTWRITEBYTECODE='1')
    env.pop('VERIF_LISTORDER', None)
    env.pop('SOURCE_DATE_EPOCH', None)
    env.pop('VERIF_FAKE_NOW', None)
    if epoch is not None:
        env['SOURCE_DATE_EPOCH'] = epoch
    if now is not None:
        env['VERIF_FAKE_NOW'] = now
    if tz:
        env['TZ'] = tz
    if listorder:
        env['VERIF_LISTORDER'] = listorder
    cwd = os.path.dirname(out)
    args = [sys.executable, '-m', 'pydoctor', '-q', '--html-output', out, '--project-base-dir', os.path.dirname(roots[0])] + (['--project-name', name] if name else []) + list(extra) + list(roots)
    r = subprocess.run(args, env=env, cwd=cwd, capture_output=True, text=True, timeout=600)
    return r.returncode, (r.stdout + r.stderr)[-400:]


def judge_project(nroots: int, named: bool, variant: str, tier: str, res: Dict[str, Any]) -> None:
    name = 'proj' if named else None
    extra = OPTION_VARIANTS[variant]
    seeds = range(1, 8) if tier == 'quick' else range(1, 64)
    listings = ['rev', 'rot1', 'rot2', 'perm3', 'perm7', 'perm11'] if tier == 'quick' else ['rev', 'rot1', 'rot2', 'rot3'] + [f'perm{k}' for k in range(1, 24, 1)]
    with pd.scratch('c18') as d:
        base = str(d)
        os.makedirs(os.path.join(base, 'cwd'))
        roots = mkproj(base, nroots)
        if '<TPL>' in extra:
            tpl = Path(base) / 'tpl'
            tpl.mkdir()
            (tpl / 'Extra2.css').write_text('/* upper */\n')
            (tpl / 'extra2.css').write_text('/* lower */\n')
            (tpl / 'extra.css').write_text('/* plain override */\n')
            (tpl / 'notes.txt').write_text('copied as is\n')
            extra = [str(tpl) if x == '<TPL>' else x for x in extra]
        if '<SUBJECTS>' in extra:
            first_is_pkg = isinstance(nroots, int) or str(nroots).startswith('p')
            subjects = ['aa.sub.n.T', 'aa.K0', 'aa.a', 'aa.sub.m.S', 'aa.K0', 'aa.star.Beta', 'aa.shapes'] if first_is_pkg else ['aamod.N0', 'aamod.M0', 'aamod.f0', 'aamod.M0']
            extra = [y for x in extra for y in ([z for sj in subjects for z in ('--html-subject', sj)] if x == '<SUBJECTS>' else [x])]
        ref = os.path.join(base, 'cwd', 'ref')
        rc, tail = run(roots, ref, 0, None, name, extra)
        res['evals'] += 1
        res['traces'] += 1
        case0 = {'kind': 'det', 'nroots': nroots, 'named': named, 'variant': variant}
        if rc not in (0, 2, 3) or not os.path.isdir(ref):
            res['violations'].append(core.violation(f'reference-run-failed/{rc}', f'reference run failed: rc={rc} {tail}', dict(case0, env='reference')))
            return
        reft = tree(ref)
        refh = tree_hash(reft)
        res['states'].add(core.h(nroots, named, variant, refh))

        def cmp(label: str, detail: str, out: str, frm: str) -> None:
            t = tree(out)
            hh = tree_hash(t)
            res['states'].add(core.h(nroots, named, variant, hh))
            res['transitions'].add(core.h(nroots, named, variant, frm, label, detail, hh))
            res['nontrivial'].add(core.h(nroots, named, variant, label, detail))
            res['outcomes'].add(hh == refh)
            if hh != refh:
                diff = sorted(k for k in set(t) | set(reft) if t.get(k) != reft.get(k))
                cls = sorted({('summary' if f.split('.')[0] in ('index', 'nameIndex', 'classIndex', 'moduleIndex', 'undoccedSummary', 'all-documents', 'searchindex', 'fullsearchindex', 'objects') else 'object-page') for f in diff})
                res['violations'].append(core.violation(f'output-differs/{label}/{"+".join(cls)}',
                                                        f'{nroots} root(s), {"named" if named else "unnamed"}, options {variant}: run with {label}={detail} differs from the reference in {len(diff)} file(s), e.g. {diff[:4]}',
                                                        dict(case0, env=label, detail=detail)))
        n = 0
        for seed in seeds:
            o = os.path.join(base, 'cwd', f's{seed}')
            rc, tail = run(roots, o, seed, None, name, extra)
            res['evals'] += 1; res['traces'] += 1
            cmp('hash-seed', str(seed), o, 'fresh')
            shutil.rmtree(o, ignore_errors=True)
        for lo in listings:
            o = os.path.join(base, 'cwd', f'l{lo}')
            rc, tail = run(roots, o, 0, lo, name, extra)
            res['evals'] += 1; res['traces'] += 1
            cmp('listing-order', lo, o, 'fresh')
            shutil.rmtree(o, ignore_errors=True)
        # histories of the output directory
        rc, tail = run(roots, ref, 0, None, name, extra)
        res['evals'] += 1; res['traces'] += 1
        cmp('reused-dir', 'same-seed', ref, refh)
        rc, tail = run(roots, ref, 3, 'rev', name, extra)
        res['evals'] += 1; res['traces'] += 1
        cmp('reused-dir', 'other-seed-and-listing', ref, refh)
        # a directory left by a run of ANOTHER (larger) project: stale files must not survive/alter the result?  The statement only
        # speaks of "the result of the previous run": the previous run is of the same inputs.  A third run closes the history.
        rc, tail = run(roots, ref, 5, 'rot1', name, extra)
        res['evals'] += 1; res['traces'] += 1
        cmp('reused-dir', 'third-run', ref, refh)
        if nroots == 1 and not named and variant == 'default':
            # control of the clock seam itself: with no build time fixed, runs at the two owned times must differ (else the seam owns nothing)
            ctl = []
            for now in ('1700000000', '1893456789'):
                o = os.path.join(base, 'cwd', f'ctl{len(ctl)}')
                run(roots, o, 0, None, name, extra, epoch=None, now=now)
                ctl.append(tree_hash(tree(o)) if os.path.isdir(o) else '')
                shutil.rmtree(o, ignore_errors=True)
            core.bump(res, 'clock_seam_controls')
            if ctl[0] == ctl[1]:
                raise RuntimeError('the fake clock has no effect on the output: the wall-clock dimension would be vacuous')
        # the clock: the same build time given as SOURCE_DATE_EPOCH or --buildtime, runs made at two different (owned) wall-clock times
        for how, epoch, bt in BUILD_TIMES if (variant == 'default' or tier == 'thorough') else ():
            outs = []
            for now, tz in (('1700000000', 'UTC0'), ('1893456789', 'JST-9' if how.startswith('epoch') else 'UTC0')):
                # (SOURCE_DATE_EPOCH names an instant: the machine's time zone is not part of the inputs; --buildtime is a local wall-clock text and is not moved)
                o = os.path.join(base, 'cwd', f'clock{len(outs)}')
                rc, tail = run(roots, o, 0, None, name, list(extra) + bt, epoch=epoch, now=now, tz=tz)
                res['evals'] += 1; res['traces'] += 1
                outs.append((o, tree(o) if os.path.isdir(o) else {}))
            (o1, t1), (o2, t2) = outs
            res['nontrivial'].add(core.h(nroots, named, variant, 'clock', how))
            res['states'].add(core.h(nroots, named, variant, how, tree_hash(t1)))
            res['states'].add(core.h(nroots, named, variant, how, tree_hash(t2)))
            res['transitions'].add(core.h(nroots, named, variant, how, tree_hash(t1), tree_hash(t2)))
            res['outcomes'].add(('clock', t1 == t2))
            if not t1 or t1 != t2:
                diff = sorted(k for k in set(t1) | set(t2) if t1.get(k) != t2.get(k))
                res['violations'].append(core.violation(f'output-differs/wall-clock/{how}',
                                                        f'{nroots} root(s), options {variant}, build time given as {how}: two runs at different wall-clock times differ in {len(diff)} file(s), e.g. {diff[:4]}',
                                                        dict(case0, env='wall-clock', detail=how)))
            shutil.rmtree(o1, ignore_errors=True)
            shutil.rmtree(o2, ignore_errors=True)
        if tier == 'thorough':
            for seed, lo in ((11, 'perm5'), (12, 'perm17'), (13, 'rot2')):
                rc, tail = run(roots, ref, seed, lo, name, extra)
                res['evals'] += 1; res['traces'] += 1
                cmp('reused-dir', f'seed{seed}+{lo}', ref, refh)
    if len(res['samples']) < 2:
        res['samples'].append({'roots': nroots, 'project_name_given': named, 'options': extra, 'seeds': [0] + list(seeds)[:3] + ['...'], 'listing_orders': listings[:4], 'files_in_output': len(reft)})


def jobs(tier: str) -> Iterable[Tuple[str, Any]]:
    for nroots in (1, 2, 3, 'm', 'pm', 'mp', 'mpm'):
        for named in (False, True):
            for variant in OPTION_VARIANTS:
                if isinstance(nroots, str) and tier == 'quick' and variant != 'default':
                    continue
                yield ('projects', ('proj', nroots, named, variant))


def run_job(job: Any, tier: str) -> Dict[str, Any]:
    res = core.result()
    _, nroots, named, variant = job
    judge_project(nroots, named, variant, tier, res)
    return res


def replay(case: Dict[str, Any]) -> List[Dict[str, Any]]:
    res = core.result()
    judge_project(case['nroots'], case['named'], case['variant'], 'quick', res)
    want = (case.get('env'), case.get('detail'))
    hits = [v for v in res['violations'] if (v['case'].get('env'), v['case'].get('detail')) == want]
    return hits or res['violations']
