"""C06 - the result does not depend on the order in which modules are analysed.

For every program composed of up to K features (cross-module bases, star imports, re-exports by one
module, aliases, immediate uses through module aliases, import cycles, ...) on the skeletons
p{a,b,c}, p{a,b,s{d,e}} and two roots, the project is built under EVERY reachable schedule - the
order of System.unprocessed_modules: package first, then its children in any order, roots in any
order - and the canonical dump must be equal across schedules (class hierarchy only for cyclic
programs).  The processing state graph (states = (set PROCESSED, stack PROCESSING)) is accumulated.
Cross-validation of the seam: the same programs built from files through the real addPackage with
`pydoctor.model.sorted` shadowed by a permuting function must give the same dump as in memory.
"""
from __future__ import annotations

import itertools
import json
import os
from typing import Any, Dict, Iterable, Iterator, List, Optional, Sequence, Tuple

from mc import core, pd

ID = 'C06'
LEVEL = 'model_checking'
RULE = ('programs = all feature sets <= K on three skeletons; every reachable schedule of each program is executed on the real System; '
        'a program is non-trivial when its schedules produce at least two different processing traces (on-demand processing actually reorders work); '
        'distinct_nontrivial counts such programs; states/transitions = union processing state graph')
ASSUMPTIONS = [
    'the schedule is imposed on System.unprocessed_modules (in memory: order of addModuleString; on disk: sorted() of the directory listing shadowed)',
    'objects re-exported by two modules, alias maps, line numbers and message order are not part of the comparison (the statement does not promise them)',
    'for programs marked cyclic only the class hierarchy (bases, resolved bases, MRO) is compared',
]
FLOOR = {'quick': 100, 'thorough': 1000}
SPACE = {'quick': 'feature singles and pairs on p{a,b,c} x 6 schedules; singles on p{a,b,s{d,e}} x 12 schedules and on two roots x 2; on-disk cross-validation of singles',
         'thorough': 'feature triples on p{a,b,c} x 6 schedules; pairs on p{a,b,s{d,e}} x 12 schedules; pairs on two roots'}
JOB_TIMEOUT = 1500

# feature -> {module: source, '__cyclic__': True}
F: Dict[str, Dict[str, Any]] = {
    'base-from':    {'a': 'class A:\n    "A doc"\n    def f(self): "f doc"\n', 'b': 'from .a import A\nclass B(A):\n    def f(self): pass\n'},
    'base-modattr': {'a': 'class A2: pass\n', 'c': 'import p.a\nclass C2(p.a.A2): pass\n'},
    'base-from-pkg': {'a': 'class A3: pass\n', 'c': 'from p import a\nclass C3(a.A3): pass\n'},
    'base-from-pkg-as': {'a': 'class A3b: pass\n', 'c': 'from p import a as al\nclass C3b(al.A3b): pass\n'},
    'base-star':    {'a': 'class A4: pass\n', 'b': 'from .a import *\nclass B4(A4): pass\n'},
    'base-init':    {'p': 'class P5: pass\n', 'c': 'from p import P5\nclass C5(P5): pass\n'},
    'exc-kind':     {'a': 'class E6(Exception): pass\n', 'b': 'from .a import E6\nclass E6b(E6): pass\n', 'c': 'from .b import E6b\nclass E6c(E6b): pass\n'},
    'exc-kind-modattr': {'c': 'class E6x(Exception): pass\n', 'a': 'import p.c\nclass E6y(p.c.E6x): pass\nclass E6z(E6y): pass\n'},
    'ivar-inherit': {'a': 'class A7:\n    """\n    @ivar v: doc\n    """\n', 'b': 'from .a import A7\nclass B7(A7):\n    v = 1\n'},
    'ivar-chain3':  {'c': 'class A7c:\n    def __init__(self):\n        self.t = 1\n', 'b': 'from .c import A7c\nclass B7c(A7c):\n    t = 2\n',
                     'a': 'import p.b\nclass C7c(p.b.B7c):\n    t = 3\n'},
    'final-from':   {'a': 'from typing import Final\n', 'b': 'from .a import Final as F8\nx8: F8 = 1\n'},
    'final-modattr': {'a': 'from typing import Final\n', 'c': 'import p.a\nx9: p.a.Final = 1\n'},
    'final-pkg-as': {'a': 'from typing import Final\n', 'c': 'from p import a as a9\nx9b: a9.Final = 1\n'},
    'overload-modattr': {'a': 'from typing import overload\n', 'c': 'import p.a\n@p.a.overload\ndef f19(x:int)->int: ...\ndef f19(x): pass\n'},
    'overload-rel-as': {'c': 'from typing import overload\n', 'a': 'from . import c as c19\n@c19.overload\ndef f19b(x:int)->int: ...\ndef f19b(x): pass\n'},
    'zope-modattr': {'a': 'from zope.interface import Interface\nclass I20(Interface): pass\n', 'c': 'import p.a\nclass I20c(p.a.I20): pass\n'},
    'zope-pkg-as':  {'c': 'from zope.interface import Interface\nclass I20x(Interface): pass\n', 'a': 'from p import c as c20\nclass I20y(c20.I20x): pass\n'},
    'docupdate-pkg-as': {'c': 'def g23():\n    "Original"\n', 'a': 'from . import c as c23\nc23.g23.__doc__ = "Patched"\n'},
    'docupdate-from': {'c': 'def g24():\n    "Original"\n', 'a': 'from .c import g24\ng24.__doc__ = "Patched"\n'},
    'reexport-sib-definer': {'b': 'from .a import R21\n__all__=["R21"]\n', 'a': 'class R21: pass\n', 'c': 'from .a import R21\nclass C21(R21): pass\n'},
    'reexport-init-definer': {'p': 'from .a import R22\n__all__=["R22"]\n', 'a': 'class R22: pass\n', 'c': 'from .a import R22\nclass C22(R22): pass\n'},
    'reexport-init': {'p': 'from .a import R10\n__all__=["R10"]\n', 'a': 'class R10:\n    def m(self): pass\n', 'c': 'from p import R10\nclass C10(R10): pass\n'},
    'reexport-as':  {'p': 'from .a import R11 as N11\n__all__=["N11"]\n', 'a': 'class R11: pass\n', 'b': 'from p import N11\nclass B11(N11): pass\n'},
    'reexport-star': {'p': 'from .a import *\n__all__=["R12"]\n', 'a': 'class R12: pass\n__all__=[]\n'},
    'reexport-sib': {'b': 'from .a import R13\n__all__=["R13"]\n', 'a': 'class R13: pass\n', 'c': 'from .b import R13\nclass C13(R13): pass\n'},
    'reexport-sib-star-consumer': {'b': 'from .c import R25\n__all__=["R25"]\n', 'c': 'class R25: pass\n', 'a': 'from .b import *\nclass C25(R25): pass\n'},
    'alias-chain':  {'a': 'class A14: pass\nAl14 = A14\n', 'b': 'from .a import Al14\nclass B14(Al14): pass\n', 'c': 'from .b import Al14 as Z14\nclass C14(Z14): pass\n'},
    'zope':         {'a': 'from zope.interface import Interface\nclass I15(Interface):\n    def m(): "doc"\n',
                     'b': 'from zope.interface import implementer\nfrom .a import I15\n@implementer(I15)\nclass B15:\n    def m(self): pass\n', 'c': 'from .a import I15\nclass I15c(I15): pass\n'},
    'docformat':    {'p': '__docformat__="restructuredtext"\n', 'b': '__docformat__="epytext"\ndef g16(): "L{x}"\n', 'c': 'def h16():\n    "`x`"\n'},
    'docformat-fields': {'p': '__docformat__="restructuredtext"\n', 'a': '"""\nMod.\n\n:var v28: doc of v28\n"""\nv28 = 1\n', 'c': 'from p.a import v28\n'},
    'docformat-fields-import': {'p': '__docformat__="restructuredtext"\n', 'b': '"""\nMod.\n\n:var v29: doc of v29\n"""\nv29 = 1\n', 'c': 'import p.b\nw29 = p.b.v29\n'},
    'exc-reexport-modattr': {'a': 'class E30(Exception): pass\n', 'b': 'from .a import E30\n__all__=["E30"]\n', 'c': 'from . import a as a30\nclass S30(a30.E30): pass\nclass T30(S30): pass\n'},
    'exc-reexport-init': {'a': 'class E31(KeyError): pass\nclass F31(E31): pass\n', 'p': 'from .a import E31\n__all__=["E31"]\n', 'b': 'from p import E31\nclass S31(E31): pass\n'},
    'doc-inherit':  {'c': 'class A26:\n    def f(self):\n        "inherited doc"\n', 'a': 'from .c import A26\nclass B26(A26):\n    def f(self): pass\n'},
    # the same module star-imported twice: once from inside an import cycle (while it is half analysed), once from outside
    'star-twice-cycle': {'a': 'import p.b\nclass S32: pass\nclass T32(S32): pass\n', 'b': 'from p.a import *\nclass U32: pass\n', 'c': 'from p.a import *\nclass W32(S32): pass\nclass X32(T32): pass\n', '__cyclic__': True},
    'star-twice-cycle-all': {'a': 'import p.b\n__all__ = ["S34"]\nclass S34: pass\n', 'b': 'from p.a import *\n', 'c': 'from p.a import *\nclass W34(S34): pass\n', '__cyclic__': True},
    # the defining module also binds the re-exported name by an import (optional accelerator idiom); a sibling reaches it through the module
    'reexport-import-shadow': {'a': 'try:\n    from _speedups33 import Enc33\nexcept ImportError:\n    Enc33 = None\nif Enc33 is None:\n    class Enc33: pass\n',
                               'b': 'from p.a import Enc33\n__all__=["Enc33"]\n', 'c': 'from p import a as a33\nclass J33(a33.Enc33): pass\n'},
    'reexport-import-shadow-plain': {'a': 'from ext35 import Enc35\nclass Enc35: pass\n', 'b': 'from p.a import Enc35\n__all__=["Enc35"]\n', 'c': 'import p.a\nclass J35(p.a.Enc35): pass\n'},
    # a base that is external to the project, reached through a module of the project
    'external-base-via-module': {'a': 'from ext36 import Ext36\n', 'c': 'import p.a\nclass C36(p.a.Ext36): pass\n', 'b': 'from .a import Ext36 as E36\nclass B36(E36): pass\n'},
    'external-base-via-pkg': {'a': 'import ext37\n', 'c': 'import p\nclass C37(p.a.ext37.Ext37): pass\n'},
    'docupdate-via-pkg-attr': {'b': 'class Foo38:\n    "orig"\n', 'c': 'import p\np.b.Foo38.__doc__ = "patched"\n'},
    # (a cycle through a module that REdefines the imported class is entry-order dependent in CPython itself - not generated)
    'cycle-moved-class': {'a': 'from p.b import B40\nclass X40(B40): pass\n', 'b': 'import p.a\nclass B40: pass\n', 'c': 'from p.a import X40\n__all__ = ["X40"]\n', '__cyclic__': True},
    # a star import from a package exposes the name of a sub-module nobody imported; a docstring assigned through an alias of the PACKAGE to an object of a sub-module
    'star-pkg-exposes-submodule': {'p': '__all__ = ["a"]\n', 'a': 'class Sh41:\n    "sh doc"\n    def f(self): "f doc"\n', 'c': 'from p import *\nclass Ci41(a.Sh41):\n    def f(self): pass\n'},
    'star-pkg-no-all-submodule': {'a': 'class Sh44:\n    "sh doc"\n', 'c': 'from p import *\nclass Ci44(a.Sh44): pass\n'},
    'docupdate-via-pkg-alias': {'b': 'class Foo43:\n    "orig"\n    def m(self): "orig m"\n', 'c': 'import p as pp43\npp43.b.Foo43.__doc__ = "patched"\npp43.b.Foo43.m.__doc__ = "patched m"\n'},
    'docupdate-via-pkg-from': {'b': 'def g45():\n    "orig"\n', 'a': 'from p import b as mb45\n', 'c': 'from p import a as ma45\nma45.mb45.g45.__doc__ = "patched"\n'},
    # star import from the DEFINING module of an object a sibling re-exports; a cycle entered through a module alias named like the package
    'reexport-sib-star-definer-consumer': {'a': 'class R46:\n    "r doc"\n    def m(self): "m doc"\n', 'b': 'from .a import R46\n__all__=["R46"]\n', 'c': 'from .a import *\nclass C46(R46):\n    def m(self): pass\n'},
    'cycle-alias-named-like-package': {'a': 'from . import b\nclass Rule47:\n    "rule doc"\n    def apply(self): "apply doc"\n',
                                       'b': 'from . import p\nclass Discount47(p.Rule47):\n    def apply(self): pass\nclass Big47(Discount47): pass\n', '__cyclic__': True},
    'docupdate-module-via-pkg-attr': {'b': '"""Own docstring of b."""\nx48 = 1\n', 'c': 'import p\np.b.__doc__ = "Assigned by c."\n'},
    'docupdate-module-via-alias': {'a': '"""Own docstring of a."""\ny49 = 1\n', 'c': 'import p as pk49\npk49.a.__doc__ = "Assigned by c."\n'},
    'cycle':        {'a': 'from .b import B17\nclass A17: pass\nclass A17b(B17): pass\n', 'b': 'from .a import A17\nclass B17(A17): pass\n', '__cyclic__': True},
    'cycle3':       {'a': 'from .b import B27\nclass A27(B27): pass\n', 'b': 'from .c import C27\nclass B27(C27): pass\n', 'c': 'from . import a\nclass C27: pass\nclass D27(a.A27): pass\n', '__cyclic__': True},
    'tc-cycle':     {'a': 'from typing import TYPE_CHECKING\nif TYPE_CHECKING:\n    from .b import B18\nclass A18: pass\n', 'b': 'from .a import A18\nclass B18(A18): pass\n', '__cyclic__': True},
}
NAMES = list(F)

# skeletons: list of (module key, name, parent, is_package); the key 'p' is the root package
SKEL = {
    # module key 'a' is a module named like its package: p.p
    'selfnamed': [('p', 'p', None, True), ('a', 'p', 'p', False), ('b', 'b', 'p', False), ('c', 'c', 'p', False)],
    'flat': [('p', 'p', None, True), ('a', 'a', 'p', False), ('b', 'b', 'p', False), ('c', 'c', 'p', False)],
    # sub-package: modules b and c live in p.s; sources are rewritten accordingly
    'sub':  [('p', 'p', None, True), ('a', 'a', 'p', False), ('s', 's', 'p', True), ('b', 'b', 'p.s', False), ('c', 'c', 'p.s', False), ('z', 'z', 'p', False)],
    # two roots: module c lives in a second root package q
    'roots': [('p', 'p', None, True), ('a', 'a', 'p', False), ('b', 'b', 'p', False), ('q', 'q', None, True), ('c', 'c', 'q', False)],
    # two roots AND nesting: module b lives two packages deep (p.s.b), module c in the second root: what the outer package declares must
    # reach b even when b is first reached from the other root
    'deeproots': [('p', 'p', None, True), ('a', 'a', 'p', False), ('s', 's', 'p', True), ('b', 'b', 'p.s', False), ('q', 'q', None, True), ('c', 'c', 'q', False)],
}


def rewrite(src: str, home: str, skel: str) -> str:
    """Adapt a feature source written for p{a,b,c} to another skeleton."""
    if skel == 'flat' or not src:
        return src
    if skel == 'selfnamed':
        return src      # sources for this skeleton are written for it
    loc = {'flat': {}, 'sub': {'b': 'p.s.b', 'c': 'p.s.c', 'a': 'p.a'}, 'roots': {'a': 'p.a', 'b': 'p.b', 'c': 'q.c'},
           'deeproots': {'a': 'p.a', 'b': 'p.s.b', 'c': 'q.c'}}[skel]
    out = src
    for m in ('a', 'b', 'c'):
        full = loc[m]
        out = out.replace(f'from .{m} import', f'from {full} import')
        out = out.replace(f'from . import {m} as', f'from {full.rsplit(".", 1)[0]} import {m} as')
        out = out.replace(f'from p import {m}', f'from {full.rsplit(".", 1)[0]} import {m}')
        out = out.replace(f'import p.{m}\n', f'import {full}\n')
        out = out.replace(f'(p.{m}.', f'({full}.').replace(f'@p.{m}.', f'@{full}.').replace(f': p.{m}.', f': {full}.')
    out = out.replace('from . import a\n', f'from {loc["a"].rsplit(".", 1)[0]} import a\n')
    import re as _re
    for m in ('a', 'b', 'c'):
        out = _re.sub(r'(?<![\w.])p\.%s(?!\w)' % m, loc[m], out)      # any remaining dotted use of the module
    return out


def import_cycle(src: Dict[str, str], skel: str) -> bool:
    """Does the project's import graph (module level and nested, TYPE_CHECKING included) contain a cycle?"""
    import ast as _ast
    full = {}
    for key, name, parent, ispkg in SKEL[skel]:
        full[key] = (f'{parent}.{name}' if parent else name, ispkg)
    byname = {v[0]: k for k, v in full.items()}
    edges: Dict[str, set] = {k: set() for k in full}

    def add(k: str, target: str) -> None:
        # importing x.y.z imports x, x.y and x.y.z
        parts = target.split('.')
        for i in range(1, len(parts) + 1):
            t = '.'.join(parts[:i])
            if t in byname and byname[t] != k:
                edges[k].add(byname[t])
    for k, text in src.items():
        modname, ispkg = full[k]
        pkg = modname if ispkg else modname.rsplit('.', 1)[0] if '.' in modname else ''
        aliases: Dict[str, str] = {}      # local name -> dotted module path it stands for ('import p as pp', 'from p import b as bb')
        for node in _ast.walk(_ast.parse(text)):
            if isinstance(node, _ast.Import):
                for al in node.names:
                    if al.asname:
                        aliases[al.asname] = al.name
            elif isinstance(node, _ast.ImportFrom) and not node.level:
                for al in node.names:
                    if al.name != '*':
                        aliases[al.asname or al.name] = f'{node.module}.{al.name}'
        for node in _ast.walk(_ast.parse(text)):
            if isinstance(node, _ast.Attribute):
                try:
                    dotted = _ast.unparse(node)
                except Exception:  # noqa
                    dotted = ''
                head, _, rest = dotted.partition('.')
                if head in aliases and rest:
                    add(k, aliases[head] + '.' + rest)
            if isinstance(node, _ast.Import):
                for al in node.names:
                    add(k, al.name)
            elif isinstance(node, _ast.ImportFrom):
                base = node.module or ''
                if node.level:
                    parts = pkg.split('.') if pkg else []
                    parts = parts[:len(parts) - (node.level - 1)]
                    base = '.'.join(parts + ([node.module] if node.module else []))
                add(k, base)
                for al in node.names:
                    add(k, f'{base}.{al.name}')
            elif isinstance(node, _ast.Attribute):
                # 'import p' followed by 'p.b.X' depends on p.b as much as 'import p.b' does
                try:
                    add(k, _ast.unparse(node))
                except Exception:  # noqa
                    pass
    # sub-modules implicitly depend on their packages being imported first (package __init__ runs before)
    color: Dict[str, int] = {}

    def dfs(u: str) -> bool:
        color[u] = 1
        for v in edges[u]:
            if color.get(v) == 1 or (color.get(v) is None and dfs(v)):
                return True
        color[u] = 2
        return False
    return any(color.get(k) is None and dfs(k) for k in edges)


def program(feats: Sequence[str], skel: str) -> Tuple[Dict[str, str], bool]:
    src = {k: '' for k, _, _, _ in SKEL[skel]}
    cyc = False
    for f in feats:
        for k, v in F[f].items():
            if k == '__cyclic__':
                cyc = True
            else:
                src[k] += rewrite(v, k, skel)
    return src, cyc or import_cycle(src, skel)


def schedules(skel: str) -> List[List[str]]:
    """every pre-order of the package tree with the children of each package permuted, roots permuted"""
    mods = SKEL[skel]
    children: Dict[Optional[str], List[str]] = {}
    full = {}
    for key, name, parent, ispkg in mods:
        fn = f'{parent}.{name}' if parent else name
        full[key] = fn
        children.setdefault(parent, []).append(key)
    keyof = {v: k for k, v in full.items()}

    def orders(parent: Optional[str]) -> Iterator[List[str]]:
        kids = children.get(parent, [])
        for perm in itertools.permutations(kids):
            subs = [list(orders(full[k])) if any(p == full[k] for _, _, p, _ in mods) else [[]] for k in perm]
            for combo in itertools.product(*subs):
                out: List[str] = []
                for k, sub in zip(perm, combo):
                    out.append(k)
                    out.extend(sub)
                yield out
    return list(orders(None))


def build(src: Dict[str, str], order: Sequence[str], skel: str) -> Any:
    s = pd.new_system(systemcls=pd.RecordingSystem)
    b = s.systemBuilder(s)
    info = {k: (n, p, ip) for k, n, p, ip in SKEL[skel]}
    for k in order:
        n, p, ip = info[k]
        b.addModuleString(src[k], n, p, is_package=ip)
    b.buildModules()
    return s


def dump(s: Any, hierarchy_only: bool) -> Dict[str, Any]:
    from pydoctor import model
    d: Dict[str, Any] = {}
    for k, o in sorted(s.allobjects.items()):
        e: Dict[str, Any] = {'type': type(o).__name__}
        if isinstance(o, model.Class):
            e['bases'] = list(o.bases)
            e['baseobjs'] = [b.fullName() if b else None for b in o.baseobjects]
            e['mro'] = [x.fullName() if not isinstance(x, str) else x for x in o.mro(True)]
        if not hierarchy_only:
            e['kind'] = o.kind.name if o.kind else None
            e['doc'] = o.docstring
            if isinstance(o, model.Module):
                e['docformat'] = o.docformat
            if isinstance(o, model.Function):
                e['overloads'] = len(o.overloads)
            if isinstance(o, model.Attribute):
                e['documented-by-field'] = o.parsed_docstring is not None and o.docstring is None
            if hasattr(o, 'isinterface'):
                e['isinterface'] = bool(getattr(o, 'isinterface', False))
                e['implements'] = sorted(getattr(o, 'allImplementedInterfaces', []) or [])
        if hierarchy_only:
            # cyclic programs: the statement only promises the class hierarchy, not where re-exported classes end up,
            # so classes are identified by their (globally unique) short names
            if not isinstance(o, model.Class):
                continue
            short = lambda n: n.split('.')[-1] if isinstance(n, str) else n   # noqa: E731
            e = {'type': e['type'], 'bases': [short(b) for b in e['bases']], 'baseobjs': [short(b) for b in e['baseobjs']],
                 'mro': [short(b) for b in e['mro']]}
            k = short(k)
        d[k] = e
    return d


def run_program(feats: Sequence[str], skel: str, res: Optional[Dict[str, Any]] = None) -> Tuple[bool, List[str], int]:
    """returns (order_dependent, differing fields, number of distinct traces)"""
    src, cyc = program(feats, skel)
    dumps: Dict[Tuple[str, ...], str] = {}
    traces = set()
    for order in schedules(skel):
        try:
            s = build(src, order, skel)
        except Exception as e:  # noqa
            dumps[tuple(order)] = f'EXC {type(e).__name__}@{pd.exc_site(e)}'
            continue
        dumps[tuple(order)] = json.dumps(dump(s, cyc), sort_keys=True)
        traces.add(tuple(s.trace))
        if res is not None:
            res['traces'] += 1
            st, tr = pd.processing_graph(s.trace)
            res['states'].update(core.h(x) for x in st)
            res['transitions'].update(core.h(x) for x in tr)
    vals = list(dumps.values())
    dep = len(set(vals)) > 1
    fields: List[str] = []
    if dep:
        base = vals[0]
        per: Dict[str, set] = {}
        for v in vals[1:]:
            if v != base:
                if v.startswith('EXC') or base.startswith('EXC'):
                    per.setdefault('EXC', set()).add((v if v.startswith('EXC') else base)[4:])
                    continue
                a, b = json.loads(base), json.loads(v)
                for k in set(a) | set(b):
                    if a.get(k) != b.get(k):
                        short = k.split('.')[-1]
                        if k not in a or k not in b:
                            per.setdefault(short, set()).add('presence')
                            continue
                        for f in set(a[k]) | set(b[k]):
                            if a[k].get(f) != b[k].get(f):
                                per.setdefault(short, set()).add(f)
        fields = [f'{k}:{"+".join(sorted(v))}' for k, v in sorted(per.items())]
    return dep, fields, len(traces)


def judge(feats: Sequence[str], skel: str, res: Dict[str, Any]) -> None:
    dep, fields, ntr = run_program(feats, skel, res)
    res['evals'] += 1
    if ntr > 1:
        res['nontrivial'].add(core.h(feats, skel))
    res['outcomes'].add(core.h(sorted(feats), skel, dep))
    if dep:
        # minimise the feature set
        cur = list(feats)
        changed = True
        while changed and len(cur) > 1:
            changed = False
            for i in range(len(cur)):
                cand = cur[:i] + cur[i + 1:]
                if run_program(cand, skel)[0]:
                    cur = cand
                    changed = True
                    break
        _, mfields, _ = run_program(cur, skel)
        cyc = program(cur, skel)[1]
        sig = f'schedule-dependent/{"cyclic" if cyc else "acyclic"}/{",".join(mfields[:4])}'
        if len(cur) > 1:
            sig += '/combination'       # a combination of features none of which is order dependent alone
        res['violations'].append(core.violation(sig, f'program {list(feats)} on skeleton {skel} (minimal: {cur}) gives different results under different analysis orders; differing: {mfields or fields}',
                                                {'kind': 'program', 'feats': list(feats), 'skel': skel}))
    if len(res['samples']) < 2 and len(feats) >= 2 and ntr > 1:
        res['samples'].append({'features': list(feats), 'skeleton': skel, 'schedules': len(schedules(skel)), 'distinct_processing_traces': ntr,
                               'sources': program(feats, skel)[0]})


# ---- on-disk cross validation (the real addPackage with sorted() shadowed)

def judge_disk(feat: str, res: Dict[str, Any]) -> None:
    from pydoctor import model
    src, cyc = program([feat], 'flat')
    files = {'p/__init__.py': src['p'], 'p/a.py': src['a'], 'p/b.py': src['b'], 'p/c.py': src['c']}
    res['evals'] += 1
    ref: Optional[str] = None
    with pd.scratch('c06') as d:
        pd.write_tree(d, files)
        for perm in itertools.permutations(['a.py', 'b.py', 'c.py']):
            rank = {n: i for i, n in enumerate(perm)}

            def fake_sorted(it: Any, *a: Any, **k: Any) -> Any:
                items = list(it)
                if items and all(hasattr(x, 'name') for x in items) and any(getattr(x, 'name', None) in rank for x in items):
                    return sorted(items, key=lambda p: (rank.get(p.name, -1), p.name))
                return sorted(items, *a, **k)
            model.sorted = fake_sorted  # type: ignore[attr-defined]
            try:
                s = pd.build_files(d, ['p'], systemcls=pd.RecordingSystem)
            finally:
                del model.sorted  # type: ignore[attr-defined]
            res['traces'] += 1
            order = [m for ev, m in s.trace if ev == 'enter']
            first_sched = [m for m in order if m != 'p']
            dd = json.dumps(dump(s, cyc), sort_keys=True)
            mem = json.dumps(dump(build(src, ['p'] + [x[:-3] for x in perm], 'flat'), cyc), sort_keys=True)
            if dd != mem:
                res['violations'].append(core.violation(f'disk-vs-memory/{feat}', f'feature {feat}, listing order {perm}: building from files differs from building in memory',
                                                        {'kind': 'disk', 'feat': feat}))
            if ref is None:
                ref = dd
    res['nontrivial'].add(core.h('disk', feat))


def jobs(tier: str) -> Iterable[Tuple[str, Any]]:
    K = 2 if tier == 'quick' else 3
    for f in NAMES:
        yield ('flat:features<=1', ('prog', [f], 'flat', 0))
    for f in NAMES:
        yield ('flat:features<=2', ('prog', [f], 'flat', 1))
    for f in NAMES:
        yield ('sub:features<=1', ('prog', [f], 'sub', 0))
        yield ('roots:features<=1', ('prog', [f], 'roots', 0))
        yield ('deeproots:features<=1', ('prog', [f], 'deeproots', 0))
    for f in ('cycle-alias-named-like-package', 'cycle', 'cycle3', 'base-from', 'docformat'):
        yield ('selfnamed:features<=1', ('prog', [f], 'selfnamed', 0))
    for i in range(0, len(NAMES), 4):
        yield ('disk:features<=1', ('disk', NAMES[i:i + 4]))
    if K >= 3:
        for f, g in itertools.combinations(NAMES, 2):
            yield ('flat:features<=3', ('prog', [f, g], 'flat', 1))
        for f in NAMES:
            yield ('sub:features<=2', ('prog', [f], 'sub', 1))
            yield ('roots:features<=2', ('prog', [f], 'roots', 1))


def run_job(job: Any, tier: str) -> Dict[str, Any]:
    res = core.result()
    if job[0] == 'prog':
        _, prefix, skel, extra = job
        if extra == 0:
            judge(prefix, skel, res)
        else:
            start = NAMES.index(prefix[-1]) + 1
            for g in NAMES[start:]:
                judge(list(prefix) + [g], skel, res)
    else:
        for f in job[1]:
            judge_disk(f, res)
    return res


def replay(case: Dict[str, Any]) -> List[Dict[str, Any]]:
    res = core.result()
    if case['kind'] == 'program':
        judge(case['feats'], case['skel'], res)
    else:
        judge_disk(case['feat'], res)
    return res['violations']
