"""C01 - a run never aborts: any Python source tree is analysed and rendered to the end.

Statement-shape alphabet (mc.alphabet.S, one item per shortcut in the AST builder / model / renderers, instantiated over the
colliding identifiers x, y, z) x 6 placements x 5 docformats (length 1), ordered pairs of a collision subset (quick) or of all
shapes (thorough), plus a file-level alphabet (bytes that do not decode/parse, odd file names, odd tree shapes) next to a good
module and multi-file items.  Cases are batched 20 modules per full driver run and bisected on failure, so attribution is exact.
Oracle per run: returns with status in {0,2,3}, no exception, within the time limit; index/summary pages, both search indexes
(valid JSON) and objects.inv (header + inflatable body) written; one page per visible module of the model; an unparsable file is
named on stdout and its sibling is still documented.
"""
from __future__ import annotations

import itertools
import json
import os
import re
import zlib
from typing import Any, Dict, Iterable, List, Optional, Sequence, Tuple

from mc import alphabet, core, pd

ID = 'C01'
LEVEL = 'exploration'
RULE = ('statement shapes x placements x docformats (singles), ordered pairs of shapes in one scope, file-level items; 20 cases per full driver run, '
        'failing batches bisected down to single cases; a case is non-trivial when the shape compiles under CPython in that placement or is a '
        'file-level item; distinct = distinct (shape(s), placement, docformat)')
ASSUMPTIONS = [
    'exit status 1 for option errors (no source path, root directory without __init__.py) is outside "a tree of Python source files"',
    'the content of the pages is not judged here',
    'a run that needs more than 150 s for 20 small modules counts as a hang',
]
FLOOR = {'quick': 3000, 'thorough': 30000}
SPACE = {'quick': '145 shapes x 6 placements x 5 docformats; ordered pairs of a 40-shape collision subset (module scope, epytext + reST); 45 file-level items; 8 multi-file items',
         'thorough': 'quick + all ordered pairs of all shapes in {module, class} x {epytext, reST, google}'}
JOB_TIMEOUT = 2400
CAP = {'quick': 900.0, 'thorough': 3600.0}
BATCH = 20
RUN_TIMEOUT = 150
# CPU seconds allowed to one in-process run: the slowest shape of the alphabet needs 0.8 s on the unchanged tree, most 0.1 s
CPU_BASE, CPU_PER_MODULE = 8, 2
JOB_TIMEOUT = 3000

COLLISION = ['def', 'class', 'lambda', 'prop', 'overload', 'overload-after', 'deprecated', 'base-cycle', 'base-self', 'assign', 'assign-tuple', 'aug', 'ann', 'final', 'typealias',
             'self-attr', 'doc-assign', 'all-ok', 'all-odd', 'docformat-odd', 'imp-star', 'imp-rel', 'if-else', 'main', 'try', 'str-stmt', 'doc-surrogate', 'const-re', 'zope', 'attrs',
             'staticmethod-twice', 'prop-odd', 'class-in-class-dup', 'func-attr', 'aug-odd', 'all-extend', 'try-import-dup', 'cycle-alias', 'ivar-fields', 'del']

# file-level items: {relative path: bytes}; the package always also contains good.py
GOOD = b'def ok():\n    "fine"\n'
FILE_ITEMS: Dict[str, Dict[str, Any]] = {
    'empty': {'pk/m.py': b''}, 'comment-only': {'pk/m.py': b'# nothing\n'}, 'bom': {'pk/m.py': b'\xef\xbb\xbfx = 1\n'}, 'bom-utf16': {'pk/m.py': 'x = 1\n'.encode('utf-16')},
    'nul-byte': {'pk/m.py': b'x = 1\n\x00\n'}, 'invalid-utf8': {'pk/m.py': b'x = "\xff"\n'}, 'latin1-cookie': {'pk/m.py': b'# -*- coding: latin-1 -*-\nx = "\xff"\n'},
    'unknown-cookie': {'pk/m.py': b'# -*- coding: no-such-codec -*-\nx = 1\n'}, 'cookie-mismatch': {'pk/m.py': b'# coding: ascii\nx = "\xc3\xa9"\n'},
    'cr-only': {'pk/m.py': b'def f():\r    "doc"\r    pass\r'}, 'crlf': {'pk/m.py': b'def f():\r\n    "doc"\r\n'}, 'form-feed': {'pk/m.py': b'def f():\n\x0c    pass\n'},
    'tab-error': {'pk/m.py': b'def f():\n\tif 1:\n        pass\n'}, 'unterminated-string': {'pk/m.py': b'x = "abc\n'}, 'unterminated-triple': {'pk/m.py': b'def f():\n    """doc\n'},
    'unbalanced': {'pk/m.py': b'x = (1, 2\ny = 3\n'}, 'syntax-error': {'pk/m.py': b'def (:\n'}, 'indent-error': {'pk/m.py': b'def f():\npass\n'}, 'backslash-eof': {'pk/m.py': b'x = 1 \\'},
    'nested-100-blocks': {'pk/m.py': ('\n'.join(' ' * i + 'if x:' for i in range(100)) + '\n' + ' ' * 100 + 'pass\n').encode()},
    'too-deep-parens': {'pk/m.py': ('x = ' + '(' * 3000 + '1' + ')' * 3000 + '\n').encode()}, 'deep-lambda': {'pk/m.py': ('x = ' + 'lambda: ' * 5000 + '0\n').encode()},
    # parseable, but deep: the parser accepts them, the recursive walks over the tree have to cope
    'elif-chain-400': {'pk/m.py': ('import sys\nif sys.a == 0: x0 = 0\n' + ''.join(f'elif sys.a == {i}: x{i} = {i}\n' for i in range(1, 400))).encode()},
    'binop-chain-600': {'pk/m.py': ('def f(a=' + ' + '.join(['"a"'] * 600) + '): pass\n').encode()},
    'attr-chain-2000': {'pk/m.py': ('class C(a' + '.a' * 2000 + '): pass\n').encode()},
    'call-chain-1500': {'pk/m.py': ('X = f' + '()' * 1500 + '\n').encode()},
    'subscript-chain-1500': {'pk/m.py': ('X: a' + '[0]' * 1500 + ' = 1\n').encode()},
    'huge-file': {'pk/m.py': ('x = 1\n' * 20000).encode()}, 'no-newline-eof': {'pk/m.py': b'def f(): "doc"'},
    'name-dash': {'pk/a-b.py': b'x = 1\n'}, 'name-keyword': {'pk/class.py': b'x = 1\n'}, 'name-unicode': {'pk/\u00e9t\u00e9.py': b'def f(): "doc"\n'}, 'name-space': {'pk/a b.py': b'x = 1\n'},
    'name-percent': {'pk/a%41b.py': b'x = 1\n'}, 'name-hash': {'pk/a#b.py': b'x = 1\n'}, 'name-dot': {'pk/a.b.py': b'x = 1\n'}, 'name-digit': {'pk/1st.py': b'x = 1\n'}, 'name-html': {'pk/<b>&.py': b'x = 1\n'},
    'name-newline': {'pk/a\nb.py': b'x = 1\n'}, 'name-tab-quote': {'pk/a\t"b\'.py': b'x = 1\n'}, 'name-nonutf8': {b'pk/a\xffb.py'.decode('utf-8', 'surrogateescape'): b'def f(): "doc"\n'},
    'name-very-long': {'pk/' + 'm' * 240 + '.py': b'class K:\n    "d"\n'},
    'main-module': {'pk/__main__.py': b'x = 1\n'}, 'module-and-package': {'pk/m.py': b'x = 1\n', 'pk/m/__init__.py': b'y = 1\n'}, 'hidden-file': {'pk/.hidden.py': b'x = 1\n'},
    'subdir-without-init': {'pk/sub/mod.py': b'x = 1\n'}, 'broken-subpackage-init': {'pk/sub/__init__.py': b'def (:\n', 'pk/sub/mod.py': b'def g(): "doc"\n'},
    'pyi-next-to-py': {'pk/m.py': b'def f(): pass\n', 'pk/m.pyi': b'def f() -> int: ...\n'}, 'so-file': {'pk/ext.so': b'\x7fELF not really'}, 'pyc-file': {'pk/m.pyc': b'\x00\x00'},
    'index-module': {'pk/index.py': b'def f(): "doc"\n'}, 'classIndex-module': {'pk/classIndex.py': b'class C: pass\n'},
    'symlink-free-dir': {'pk/data.txt': b'not python\n', 'pk/sub/__init__.py': b'', 'pk/sub/readme.md': b'#'},
    'only-broken-init': {'pk/m.py': b'x = 1\n'},
    # directory entries that are not what their names say
    'dangling-symlink-module': {'pk/dangling.py': ('symlink', '/nonexistent/zzz.py')}, 'symlink-loop-module': {'pk/loop.py': ('symlink', 'loop.py')},
    'directory-named-module': {'pk/adir.py': ('dir',)}, 'directory-named-init': {'pk/sub/__init__.py': ('dir',), 'pk/sub/m.py': b'x = 1\n'},
    'symlinked-module': {'pk/real.py': b'def r(): "d"\n', 'pk/link.py': ('symlink', 'real.py')}, 'symlinked-package-loop': {'pk/sub/__init__.py': b'', 'pk/sub/again': ('symlink', '..')},
    'dangling-symlink-dir': {'pk/gone': ('symlink', '/nonexistent/dir')},
}
# multi-file items (whole projects)
MULTI: Dict[str, Dict[str, str]] = {
    'doc-assign-other-module-early': {'pk/__init__.py': '', 'pk/a.py': 'import pk.zz\npk.zz.__doc__ = "x"\n', 'pk/zz.py': '"""Doc."""\n'},
    'doc-assign-other-module-func': {'pk/__init__.py': '', 'pk/a.py': 'from . import zz\nzz.f.__doc__ = "x"\nzz.K.m.__doc__ = "y"\nzz.nope.__doc__ = "z"\n', 'pk/zz.py': 'def f(): "d"\nclass K:\n    def m(self): pass\n'},
    'import-cycle-star': {'pk/__init__.py': 'from .a import *\n', 'pk/a.py': 'from .b import *\n__all__ = ["x"]\nx = 1\n', 'pk/b.py': 'from .a import *\nfrom pk import *\ny = 2\n'},
    'reexport-missing': {'pk/__init__.py': 'from .a import nope, x\n__all__ = ["nope", "x", "gone"]\n', 'pk/a.py': 'x = 1\n'},
    'reexport-module': {'pk/__init__.py': 'from . import a\nfrom .a import a as a2\n__all__ = ["a", "a2"]\n', 'pk/a.py': 'class a:\n    def m(self): pass\n'},
    'reexport-chain': {'pk/__init__.py': 'from .a import X\n__all__ = ["X"]\n', 'pk/a.py': 'from .b import X\n__all__ = ["X"]\n', 'pk/b.py': 'from .c import X\n__all__ = ["X"]\n', 'pk/c.py': 'class X:\n    class Y:\n        def m(self): "L{X}"\n'},
    'broken-init': {'pk/__init__.py': 'def (:\n', 'pk/a.py': 'from . import b\ndef f(): "doc"\n', 'pk/b.py': 'from pk import nope\n'},
    'doc-assign-submodule-via-package': {'pk/__init__.py': '', 'pk/a.py': 'import pk\npk.zsub.__doc__ = "x"\npk.zsub.f.__doc__ = "y"\n', 'pk/zsub.py': '"""Doc."""\ndef f(): pass\n'},
    'reexport-self-package': {'pk/__init__.py': '', 'pk/sub/__init__.py': 'from pk import sub\n__all__ = ["sub"]\n', 'pk/sub/m.py': 'def f(): pass\n'},
    'reexport-root-package': {'pk/__init__.py': '', 'pk/a.py': 'import pk\nfrom . import a\n__all__ = ["pk", "a"]\n'},
    'reexport-parent-package': {'pk/__init__.py': '', 'pk/sub/__init__.py': '', 'pk/sub/m.py': 'from pk import sub\nfrom pk.sub import m\n__all__ = ["sub", "m"]\n'},
    # a name of the package __init__ that is also the name of one of the package's own sub-modules / sub-packages, for every kind of binding
    'init-shadows-submodule': {'pk/__init__.py': 'settings = load()\n"doc"\ndef tools(): "f"\nclass models:\n    "c"\nfrom .impl import views\nimport os as paths\nconsts: int = 1\nfor sub in (): pass\nsettings += 1\n',
                               'pk/settings.py': 'x = 1\n', 'pk/tools.py': 'def t(): pass\n', 'pk/models.py': 'class M: pass\n', 'pk/views.py': 'def v(): pass\n', 'pk/impl.py': 'def views(): pass\n',
                               'pk/paths.py': '', 'pk/consts.py': '', 'pk/sub/__init__.py': '', 'pk/sub/m.py': '',
                               # a sub-module whose name is taken by a definition of the package is superseded like any duplicate: no page is demanded for it
                               '__no_page__': 'settings tools models views paths consts'},
    'init-shadows-submodule-reexport': {'pk/__init__.py': 'from .impl import thing, other as views\n__all__ = ["thing", "views", "settings"]\nsettings = 1\n', 'pk/impl.py': 'def thing(): "t"\nclass other:\n    "o"\n',
                                        'pk/thing.py': 'class T:\n    def m(self): "L{T}"\n', 'pk/views.py': 'def v(): pass\n', 'pk/settings.py': 'y = 2\n', '__no_page__': 'thing views settings'},
    'class-attr-shadows': {'pk/__init__.py': '', 'pk/a.py': 'class K:\n    class N: pass\n    N = 1\n    def f(self): pass\n    f = 2\n    g = 3\n    def g(self): pass\n    import os as h\n    h: int = 4\n'},
    'dup-in-dup-then-reexported': {'pk/__init__.py': 'from ._compat import Backend, helper\n__all__ = ["Backend", "helper"]\n',
                                   'pk/_compat.py': 'class Backend:\n    class Reader:\n        def read(self): "1"\n        def read(self): "2"\n    if True:\n        class Reader:\n            def read(self): "3"\n'
                                                    'def helper(): "a"\ndef helper(): "b"\ndef helper(): "c"\n',
                                   'pk/legacy.py': 'class Backend:\n    class Reader:\n        def read(self): "1"\n        def read(self): "2"\n    class Reader:\n        pass\nclass Backend:\n    pass\n'},
    'unparsable-imported-first': {'pk/__init__.py': '', 'pk/alpha.py': 'from .zbroken import helper\nfrom .zbroken import *\nimport pk.zbroken\nclass A(pk.zbroken.B): pass\n', 'pk/zbroken.py': 'def (:\n'},
}


def compilable(src: str) -> bool:
    try:
        compile(src, 'x', 'exec')
        return True
    except (SyntaxError, ValueError, RecursionError, MemoryError, OverflowError):
        return False


def check_outputs(r: pd.Run, modules: Sequence[str]) -> List[Tuple[str, str]]:
    """(clause, detail) for everything missing from the output of a run that returned"""
    bad: List[Tuple[str, str]] = []
    out = r.out
    for f in ('index.html', 'moduleIndex.html', 'classIndex.html', 'nameIndex.html', 'undoccedSummary.html', 'all-documents.html', 'searchindex.json', 'fullsearchindex.json', 'objects.inv'):
        if not (out / f).exists():
            bad.append(('output-missing', f))
    for f in ('searchindex.json', 'fullsearchindex.json'):
        if (out / f).exists():
            try:
                json.loads((out / f).read_text(encoding='utf-8'))
            except Exception as e:  # noqa
                bad.append(('search-index-invalid', f))
    inv = out / 'objects.inv'
    if inv.exists():
        data = inv.read_bytes()
        try:
            assert data.startswith(b'# Sphinx inventory version 2\n')
            zlib.decompress(data.split(b'\n', 4)[4])
        except Exception:  # noqa
            bad.append(('inventory-invalid', 'objects.inv'))
    for m in modules:
        if not (out / f'pk.{m}.html').exists():
            bad.append(('module-page-missing', m))
    if 'Traceback (most recent call last)' in r.stderr or 'Traceback (most recent call last)' in r.stdout:
        bad.append(('traceback-printed', ''))
    return bad


def run_modules(mods: Dict[str, str], fmt: str) -> Tuple[Optional[str], List[Tuple[str, str]]]:
    """returns (failure signature or None, output problems)"""
    files: Dict[str, Any] = {'pk/__init__.py': ''}
    for name, src in mods.items():
        files[f'pk/{name}.py'] = src + '\n'
    try:
        with core.time_limit(RUN_TIMEOUT), core.cpu_limit(CPU_BASE + CPU_PER_MODULE * len(mods)):
            with pd.cli_run(files, ['--docformat', fmt], roots=['pk']) as r:
                if r.exc:
                    return f'{r.exc_type}@{r.exc_site}', []
                if r.status not in (0, 2, 3):
                    return f'status-{r.status}', []
                return None, check_outputs(r, list(mods))
    except core.JobTimeout:
        return 'hang', []


def explore(batch: Sequence[Tuple[str, str, str]], fmt: str, res: Dict[str, Any]) -> None:
    """batch: [(label, placement, source)]"""
    mods = {f'm{i}': c[2] for i, c in enumerate(batch)}
    fail, probs = run_modules(mods, fmt)
    core.bump(res, 'driver_runs')
    missing = {d for c, d in probs if c == 'module-page-missing'}
    other = [(c, d) for c, d in probs if c != 'module-page-missing']
    if not fail and not probs:
        return
    if len(batch) == 1:
        label, pl, src = batch[0]
        case = {'kind': 'shape', 'label': label, 'place': pl, 'fmt': fmt, 'src': src}
        if '+' in label and fail:
            # attribute a failing pair to the component that fails the same way on its own
            for comp in label.split('+'):
                if comp in alphabet.S:
                    f1, _ = run_modules({'m0': alphabet.PLACE[pl](alphabet.S[comp])}, fmt)
                    core.bump(res, 'driver_runs')
                    if f1 == fail:
                        label = comp
                        break
        if fail:
            res['violations'].append(core.violation(f'aborts/{fail}/{label}', f'[{label}@{pl}, {fmt}] the run aborts: {fail}\n{src[:400]}', case))
        for c, d in probs:
            res['violations'].append(core.violation(f'{c}/{label}', f'[{label}@{pl}, {fmt}] {c} {d}\n{src[:400]}', case))
        return
    mid = len(batch) // 2
    explore(batch[:mid], fmt, res)
    explore(batch[mid:], fmt, res)


def single_cases() -> List[Tuple[str, str, str]]:
    out = []
    for name, src in alphabet.S.items():
        for pl, fn in alphabet.PLACE.items():
            out.append((name, pl, fn(src)))
    return out


def judge_file_item(name: str, fmt: str, res: Dict[str, Any]) -> None:
    files: Dict[str, Any] = {'pk/__init__.py': b'"""Package."""\n', 'pk/good.py': GOOD}
    files.update(FILE_ITEMS[name])
    if name == 'only-broken-init':
        files['pk/__init__.py'] = b'x = (\n'
    res['evals'] += 1
    res['nontrivial'].add(core.h('file', name, fmt))
    case = {'kind': 'file', 'item': name, 'fmt': fmt}
    with pd.cli_run(files, ['--docformat', fmt], roots=['pk']) as r:
        core.bump(res, 'driver_runs')
        if r.exc:
            res['violations'].append(core.violation(f'aborts/{r.exc_type}@{r.exc_site}/file:{name}', f'[file item {name}, {fmt}] the run aborts: {r.exc_type}\n{(r.exc or "")[-500:]}', case))
            return
        if r.status not in (0, 2, 3):
            res['violations'].append(core.violation(f'aborts/status-{r.status}/file:{name}', f'[file item {name}] exit status {r.status}: {r.stderr[-300:]}', case))
            return
        for c, d in check_outputs(r, ['good']):
            res['violations'].append(core.violation(f'{c}/file:{name}', f'[file item {name}, {fmt}] {c} {d}', case))
        good = r.out / 'pk.good.html'
        if good.exists() and 'ok' not in good.read_text(encoding='utf-8'):
            res['violations'].append(core.violation(f'sibling-not-documented/file:{name}', f'[file item {name}] the sibling module page does not list its function', case))
        # an unparsable file is named in a message
        for rel, data in FILE_ITEMS[name].items():
            if not rel.endswith('.py') or isinstance(data, tuple):
                continue
            try:
                compile(data, rel, 'exec')
                ok = True
            except Exception:  # noqa
                ok = False
            modname = os.path.basename(rel)[:-3]
            if not ok and modname.isidentifier() and os.path.basename(rel) not in r.stdout:
                res['violations'].append(core.violation(f'unparsable-file-not-named/file:{name}', f'[file item {name}] CPython cannot compile {rel} but no message names it; stdout: {r.stdout[-300:]}', case))
        res['outcomes'].add(('file', name, r.status))


# projects whose ROOTS are the point: top-level modules, several roots, roots named like the pages pydoctor generates itself
PAGE_NAMES = ['index', 'nameIndex', 'classIndex', 'moduleIndex', 'undoccedSummary', 'all-documents', 'searchindex', 'fullsearchindex', 'objects', 'apidocs', 'pydoctor', 'bootstrap.min']
ROOTP: Dict[str, Tuple[Dict[str, str], List[str]]] = {
    'toplevel-module-reexport': ({'a.py': 'import b\n', 'b.py': 'x = 1\ndef f(): "d"\n', 'c.py': 'from a import b\n__all__ = ["b"]\n'}, ['a.py', 'b.py', 'c.py']),
    'toplevel-module-reexport-by-package': ({'b.py': 'class B:\n    "d"\n', 'pk/__init__.py': 'import b\nfrom b import B\n__all__ = ["b", "B"]\n'}, ['b.py', 'pk']),
    'submodule-reexport-by-toplevel': ({'pk/__init__.py': '', 'pk/m.py': 'def f(): "d"\n', 't.py': 'from pk import m\nimport pk\n__all__ = ["m", "pk"]\n'}, ['pk', 't.py']),
    'module-and-package-roots-same-name': ({'m.py': 'x = 1\n', 'pk/__init__.py': '', 'pk/m.py': 'y = 1\n'}, ['m.py', 'pk']),
    'root-imports-each-other': ({'a.py': 'from b import *\nclass A(B): pass\n', 'b.py': 'from a import *\nclass B: pass\n'}, ['a.py', 'b.py']),
}
for _n in PAGE_NAMES:
    ROOTP[f'root-module-named:{_n}'] = ({f'{_n}.py': '"""Doc."""\nclass K:\n    "d"\ndef f(): "d"\n'}, [f'{_n}.py'])
    ROOTP[f'root-module-named:{_n}+package'] = ({f'{_n}.py': '"""Doc."""\nclass K:\n    "d"\n', 'pk/__init__.py': f'"""P."""\n', f'pk/{_n}.py': 'def g(): "d"\n'}, [f'{_n}.py', 'pk'])
    ROOTP[f'root-package-named:{_n}'] = ({f'{_n}/__init__.py': '"""Doc."""\nclass K:\n    "d"\n', f'{_n}/sub.py': 'def f(): "d"\n'}, [_n])


def judge_roots(name: str, fmt: str, res: Dict[str, Any]) -> None:
    files, roots = ROOTP[name]
    res['evals'] += 1
    res['nontrivial'].add(core.h('roots', name, fmt))
    case = {'kind': 'roots', 'item': name, 'fmt': fmt}
    group = name.split(':')[0] + (':' + name.split(':')[1].split('+')[0] if ':' in name else '')
    try:
        with core.time_limit(RUN_TIMEOUT), core.cpu_limit(CPU_BASE + CPU_PER_MODULE * len(files)):
            with pd.cli_run(files, ['--docformat', fmt], roots=roots) as r:
                core.bump(res, 'driver_runs')
                if r.exc:
                    res['violations'].append(core.violation(f'aborts/{r.exc_type}@{r.exc_site}/roots:{group}', f'[roots project {name}, {fmt}] the run aborts: {r.exc_type}\n{(r.exc or "")[-500:]}', case))
                    return
                if r.status not in (0, 2, 3):
                    res['violations'].append(core.violation(f'aborts/status-{r.status}/roots:{group}', f'[roots project {name}] exit status {r.status}', case))
                    return
                for c, d in check_outputs(r, []):
                    res['violations'].append(core.violation(f'{c}/roots:{group}', f'[roots project {name}, {fmt}] {c} {d}', case))
                # every root has its page, and a page is the page of ONE object
                for rt in roots:
                    page = (rt[:-3] if rt.endswith('.py') else rt) + '.html'
                    if not (r.out / page).exists():
                        res['violations'].append(core.violation(f'root-page-missing/roots:{group}', f'[roots project {name}] no page {page} for root {rt}', case))
    except core.JobTimeout:
        res['violations'].append(core.violation(f'aborts/hang/roots:{group}', f'[roots project {name}] hang', case))


def judge_multi(name: str, fmt: str, order_rev: bool, res: Dict[str, Any]) -> None:
    files = dict(MULTI[name])
    no_page = set(files.pop('__no_page__', '').split())
    res['evals'] += 1
    res['nontrivial'].add(core.h('multi', name, fmt))
    case = {'kind': 'multi', 'item': name, 'fmt': fmt}
    with pd.cli_run(files, ['--docformat', fmt], roots=['pk']) as r:
        core.bump(res, 'driver_runs')
        if r.exc:
            res['violations'].append(core.violation(f'aborts/{r.exc_type}@{r.exc_site}/multi:{name}', f'[project {name}, {fmt}] the run aborts: {r.exc_type}\n{(r.exc or "")[-500:]}', case))
            return
        if r.status not in (0, 2, 3):
            res['violations'].append(core.violation(f'aborts/status-{r.status}/multi:{name}', f'[project {name}] exit status {r.status}', case))
            return
        mods = [k[len('pk/'):-3].replace('/', '.') for k in files if k.endswith('.py') and not k.endswith('__init__.py') and compilable(files[k])]
        mods = [m for m in mods if m not in no_page]
        for c, d in check_outputs(r, mods):
            res['violations'].append(core.violation(f'{c}/multi:{name}', f'[project {name}, {fmt}] {c} {d}', case))


# ---- an unparsable module x who imports it, how, and in which order the analysis meets it

BROKEN_AT = {'sibling-late': 'pk/zbroken.py', 'in-late-subpackage': 'pk/zsub/broken.py', 'in-early-subpackage': 'pk/asub/broken.py', 'subpackage-init': 'pk/zsub/__init__.py'}
IMPORT_FORMS = {'from-abs': 'from {abs} import thing', 'from-rel': 'from {rel} import thing', 'import': 'import {abs}', 'star': 'from {abs} import *', 'import-as-use': 'import {abs} as bm\nclass K(bm.Base): pass'}
IMPORTERS = ['pk/alpha.py', 'pk/zeta.py', 'pk/__init__.py', 'SUBINIT', 'pk/other/mod.py']


def broken_projects() -> List[Tuple[str, Dict[str, str]]]:
    out: List[Tuple[str, Dict[str, str]]] = []
    for where, bfile in BROKEN_AT.items():
        absname = bfile[:-3].replace('/', '.').replace('.__init__', '')
        subinit = bfile.rsplit('/', 1)[0] + '/__init__.py' if bfile.count('/') == 2 and not bfile.endswith('__init__.py') else None
        singles = []
        for imp in IMPORTERS:
            ifile = subinit if imp == 'SUBINIT' else imp
            if ifile is None or ifile == bfile:
                continue
            for form, tmpl in IMPORT_FORMS.items():
                if form == 'from-rel':
                    # relative spelling of the same module from the importer's package
                    ipkg = ifile.rsplit('/', 1)[0].replace('/', '.')
                    if not absname.startswith(ipkg + '.'):
                        continue
                    rel = '.' + absname[len(ipkg) + 1:]
                else:
                    rel = ''
                singles.append((imp, form, ifile, tmpl.format(abs=absname, rel=rel) + '\n'))
        combos = [(x,) for x in singles] + [(x, y) for x in singles for y in singles if x[2] < y[2]]
        for combo in combos:
            files = {'pk/__init__.py': '', 'pk/other/__init__.py': '', 'pk/ok.py': 'def fine(): "d"\n'}
            if subinit:
                files[subinit] = ''
            for imp, form, ifile, text in combo:
                files[ifile] = files.get(ifile, '') + text
            files[bfile] = 'def thing(:\n'
            out.append((f'{where}|' + '+'.join(f'{imp.split("/")[-1][:-3] if imp != "SUBINIT" else "subinit"}:{form}' for imp, form, _, _ in combo), files))
    return out


def judge_broken(idx: int, res: Dict[str, Any]) -> None:
    label, files = broken_projects()[idx]
    res['evals'] += 1
    res['nontrivial'].add(core.h('broken', label))
    case = {'kind': 'broken', 'label': label}
    where = label.split('|')[0]
    try:
        with core.time_limit(RUN_TIMEOUT), core.cpu_limit(CPU_BASE + CPU_PER_MODULE * len(files)):
            with pd.cli_run(files, [], roots=['pk']) as r:
                core.bump(res, 'driver_runs')
                if r.exc:
                    res['violations'].append(core.violation(f'aborts/{r.exc_type}@{r.exc_site}/unparsable:{where}', f'[unparsable module, {label}] the run aborts: {r.exc_type}\n{(r.exc or "")[-500:]}', case))
                    return
                if r.status not in (0, 2, 3):
                    res['violations'].append(core.violation(f'aborts/status-{r.status}/unparsable:{where}', f'[unparsable module, {label}] exit status {r.status}', case))
                    return
                for c, d in check_outputs(r, ['ok']):
                    res['violations'].append(core.violation(f'{c}/unparsable:{where}', f'[unparsable module, {label}] {c} {d}', case))
    except core.JobTimeout:
        res['violations'].append(core.violation(f'aborts/hang/unparsable:{where}', f'[unparsable module, {label}] hang', case))


# ---- the terminal: a run whose messages hold characters the output stream cannot encode (a real process: the stream is the seam)

STDOUT_ENCODINGS = ['ascii', 'latin-1', 'cp1252', 'utf-8', 'utf-16', 'cp437', 'ascii:strict', 'ascii:replace']
TERMINAL_FILES = {
    'pk/__init__.py': 'TQPaquet \u00e9t\u00e9 \u2603.TQ\n',
    'pk/m.py': 'def caf\u00e9(a):\n    TQSee L{na\u00efve} and B{unclosed \u2603.\n\n    @param z\u00fc: nothing \u4e2d\n    TQ\nclass \u00dc:\n    "\u00fc doc `x"\nX = "\u2028"\n',
    'pk/\u00e9t\u00e9.py': 'x = "\u00e9\n',
    'pk/r.py': '__docformat__ = "restructuredtext"\ndef g():\n    TQText \u2603 *unclosed.\n\n    :param \u00fc: no such\n    TQ\n',
}
TERMINAL_FILES = {k: v.replace('TQ', '"' * 3) for k, v in TERMINAL_FILES.items()}


def judge_terminal(enc: str, verbosity: str, res: Dict[str, Any]) -> None:
    import subprocess
    import sys as _sys
    repo = os.environ.get('VERIF_REPO', '/repo')
    res['evals'] += 1
    res['nontrivial'].add(core.h('terminal', enc, verbosity))
    case = {'kind': 'terminal', 'enc': enc, 'verbosity': verbosity}
    with pd.scratch('c01t') as d:
        pd.write_tree(d, TERMINAL_FILES)
        env = dict(os.environ, PYTHONIOENCODING=enc, PYTHONPATH=repo, PYTHONDONTWRITEBYTECODE='1')      # (the file system encoding stays as it is: only the stream varies)
        args = [_sys.executable, '-m', 'pydoctor', '--html-output', str(d / 'out'), '--project-base-dir', str(d)] + ([verbosity] if verbosity else []) + [str(d / 'pk')]
        try:
            r = subprocess.run(args, env=env, cwd=str(d), capture_output=True, timeout=RUN_TIMEOUT)
        except subprocess.TimeoutExpired:
            res['violations'].append(core.violation(f'aborts/hang/terminal:{enc.split(":")[0]}', f'[terminal encoding {enc} {verbosity}] hang', case))
            return
        core.bump(res, 'driver_runs')
        err = r.stderr.decode('utf-8', 'replace')
        if r.returncode not in (0, 2, 3) or 'Traceback (most recent call last)' in err:
            last = [l for l in err.strip().splitlines() if l.strip()][-1:] or ['']
            res['violations'].append(core.violation(f'aborts/{last[0].split(":")[0][:40]}/terminal:{enc.split(":")[0]}',
                                                    f'[stdout encoding {enc}, {verbosity or "default verbosity"}] exit status {r.returncode}; {err[-600:]}', case))
            return
        for f in ('index.html', 'pk.m.html', 'objects.inv', 'searchindex.json'):
            if not (d / 'out' / f).exists():
                res['violations'].append(core.violation(f'output-missing/terminal:{enc.split(":")[0]}', f'[stdout encoding {enc}] {f} not written', case))


# ---- whole projects (the feature projects of the site checks) x option variants: no option turns a fine run into an aborted one

OPTION_VARIANTS: Dict[str, List[str]] = {
    'sidebar-depth-1': ['--sidebar-expand-depth', '1'], 'sidebar-depth-3': ['--sidebar-expand-depth', '3'], 'toc-depth-0': ['--sidebar-toc-depth', '0'], 'no-sidebar': ['--no-sidebar'],
    'viewsource': ['--html-viewsource-base', 'http://example.org/src', '--project-base-dir', '.'], 'process-types': ['--process-types'], 'theme-classic': ['--theme', 'classic'],
    'theme-rtd': ['--theme', 'readthedocs'], 'summary-pages-only': ['--html-summary-pages'], 'warnings-as-errors': ['-W'], 'verbose': ['-vv'], 'project-url': ['--project-url', 'http://example.org/'],
    'hidden-everything': ['--privacy', 'HIDDEN:**'], 'hidden-roots': ['--privacy', 'HIDDEN:pk', '--privacy', 'HIDDEN:other', '--privacy', 'HIDDEN:dup', '--privacy', 'HIDDEN:dupm'],
    'subject-unknown': ['--html-subject', 'pk.nosuch.Thing', '--html-subject', 'pk'], 'subject-unknown-only': ['--html-subject', 'nosuchroot'],
    'private-everything': ['--privacy', 'PRIVATE:**'], 'hidden-privates': ['--privacy', 'HIDDEN:**._*'], 'public-everything': ['--privacy', 'PUBLIC:**'],
}


def judge_project_options(feat: str, res: Dict[str, Any]) -> None:
    from mc import site
    from pydoctor import model
    files, args, roots = site.project([feat])
    with site.run([feat]) as r0:
        if r0.exc or r0.system is None:
            return          # the plain run is judged by the site checks
        objs = [(k, type(o).__name__) for k, o in r0.system.allobjects.items() if o.isVisible and ' ' not in k]
    variants = dict(OPTION_VARIANTS)
    for k, tn in objs:
        if tn in ('Class', 'Module', 'Package', 'ZopeInterfaceClass', 'ZopeInterfaceModule') and k not in roots:
            variants[f'hide:{tn}:{k}'] = ['--privacy', 'HIDDEN:' + k]
        variants[f'subject:{tn}:{k}'] = ['--html-subject', k]
    for vname, extra in variants.items():
        res['evals'] += 1
        res['nontrivial'].add(core.h('project-option', feat, vname))
        case = {'kind': 'project-option', 'feat': feat, 'variant': vname, 'args': extra}
        group = vname.split(':')[0] + (':' + vname.split(':')[1] if ':' in vname else '')
        try:
            with core.time_limit(RUN_TIMEOUT), core.cpu_limit(CPU_BASE + CPU_PER_MODULE * len(files)):
                with pd.cli_run(files, ['-q', *args, *extra], roots=roots) as r:
                    core.bump(res, 'driver_runs')
                    if r.exc:
                        res['violations'].append(core.violation(f'aborts/{r.exc_type}@{r.exc_site}/option:{group}', f'[project {feat} with {extra}] the run aborts: {r.exc_type}\n{(r.exc or "")[-500:]}', case))
                    elif r.status not in (0, 2, 3):
                        res['violations'].append(core.violation(f'aborts/status-{r.status}/option:{group}', f'[project {feat} with {extra}] exit status {r.status}', case))
        except core.JobTimeout:
            res['violations'].append(core.violation(f'aborts/hang/option:{group}', f'[project {feat} with {extra}] hang', case))


def jobs(tier: str) -> Iterable[Tuple[str, Any]]:
    n = len(single_cases())
    for fmt in alphabet.FMTS:
        for i in range(0, n, BATCH * 4):
            yield ('singles', ('singles', fmt, i, i + BATCH * 4))
    for fmt in ('epytext', 'restructuredtext'):
        for a in COLLISION:
            yield ('pairs:collision-subset', ('pairs', fmt, a, 'module', 'collision'))
    names = list(FILE_ITEMS)
    for i in range(0, len(names), 6):
        yield ('file-items', ('files', names[i:i + 6]))
    yield ('multi-file', ('multi',))
    rn = list(ROOTP)
    for i in range(0, len(rn), 6):
        yield ('root-projects', ('roots', rn[i:i + 6]))
    nb = len(broken_projects())
    for i in range(0, nb, 60):
        yield ('unparsable-module-x-importers', ('broken', i, min(nb, i + 60)))
    for enc in STDOUT_ENCODINGS:
        yield ('terminal-encodings', ('terminal', enc))
    from mc import site
    for f in site.NAMES:
        if f != 'many-mods':
            yield ('projects-x-options', ('project-options', f))
    if tier == 'thorough':
        for fmt in ('epytext', 'restructuredtext', 'google'):
            for pl in ('module', 'class'):
                for a in alphabet.S:
                    yield ('pairs:all', ('pairs', fmt, a, pl, 'all'))


def run_job(job: Any, tier: str) -> Dict[str, Any]:
    res = core.result()
    if job[0] == 'singles':
        _, fmt, lo, hi = job
        cs = single_cases()[lo:hi]
        for c in cs:
            res['evals'] += 1
            if compilable(c[2]):
                res['nontrivial'].add(core.h(c[0], c[1], fmt))
        for i in range(0, len(cs), BATCH):
            explore(cs[i:i + BATCH], fmt, res)
        if cs:
            res['samples'].append({'shape': cs[0][0], 'placement': cs[0][1], 'docformat': fmt, 'source': cs[0][2][:300]})
    elif job[0] == 'broken':
        for i in range(job[1], job[2]):
            judge_broken(i, res)
    elif job[0] == 'terminal':
        for verbosity in ('', '-v', '-vv', '-q'):
            judge_terminal(job[1], verbosity, res)
    elif job[0] == 'project-options':
        judge_project_options(job[1], res)
    elif job[0] == 'pairs':
        _, fmt, a, pl, which = job
        others = COLLISION if which == 'collision' else list(alphabet.S)
        cs = []
        for b in others:
            src = alphabet.PLACE[pl](alphabet.S[a] + '\n' + alphabet.S[b])
            if len(src) > 20000:
                continue
            cs.append((f'{a}+{b}', pl, src))
            res['evals'] += 1
            if compilable(src):
                res['nontrivial'].add(core.h(a, b, pl, fmt))
        for i in range(0, len(cs), BATCH):
            explore(cs[i:i + BATCH], fmt, res)
        if cs:
            res['samples'].append({'shapes': cs[-1][0], 'placement': pl, 'docformat': fmt, 'source': cs[-1][2][:300]})
    elif job[0] == 'files':
        for name in job[1]:
            for fmt in ('epytext', 'restructuredtext'):
                judge_file_item(name, fmt, res)
    elif job[0] == 'roots':
        for name in job[1]:
            for fmt in ('epytext', 'restructuredtext'):
                judge_roots(name, fmt, res)
    else:
        for name in MULTI:
            for fmt in ('epytext', 'restructuredtext', 'google'):
                judge_multi(name, fmt, False, res)
    return res


def replay(case: Dict[str, Any]) -> List[Dict[str, Any]]:
    res = core.result()
    if case['kind'] == 'shape':
        explore([(case['label'], case['place'], case['src'])], case['fmt'], res)
    elif case['kind'] == 'file':
        judge_file_item(case['item'], case['fmt'], res)
    elif case['kind'] == 'roots':
        judge_roots(case['item'], case['fmt'], res)
    elif case['kind'] == 'terminal':
        judge_terminal(case['enc'], case['verbosity'], res)
    elif case['kind'] == 'broken':
        idx = [l for l, _ in broken_projects()].index(case['label'])
        judge_broken(idx, res)
    elif case['kind'] == 'project-option':
        judge_project_options(case['feat'], res)
        res['violations'] = [v for v in res['violations'] if v['case']['variant'] == case['variant']]
    else:
        judge_multi(case['item'], case['fmt'], False, res)
    return res['violations']
