"""C20 - options mean the same whether given on the command line or in a config file.

(1) Every option action of options.get_parser() (enumerated at run time, so a new option is covered automatically) x a value
    alphabet per action type x {pyproject.toml [tool.pydoctor], setup.cfg [tool:pydoctor], pydoctor.ini [pydoctor]}:
    Options.from_args with the value in the file == with the value on the command line (attr.asdict equality, same exits).
(2) Override / accumulate: file + command line with different values -> the command line wins (append options: CLI list or
    file list + CLI list); repeated options accumulate in order within a source.
(3) Unknown keys (incl. case variants of real keys, keys with dashes/underscores swapped) -> a warning, no abort, nothing applied.
(4) Quoting: every string up to N symbols over a 13-symbol quoting alphabet written single-, double-, triple-quoted (one line
    and, when the format allows, physically multi-line) in INI and as TOML basic / literal strings reads back as the same text.
"""
from __future__ import annotations

import argparse
import contextlib
import io
import itertools
import os
import warnings
from typing import Any, Dict, Iterable, List, Optional, Sequence, Tuple

from mc import core, pd

ID = 'C20'
LEVEL = 'exploration'
RULE = ('option actions x value alphabet x 3 file formats (+ override, accumulation, unknown keys) through Options.from_args in a scratch cwd; all strings <= N over '
        'a 13-symbol quoting alphabet x quoting forms through the real IniConfigParser / TomlConfigParser; a case is non-trivial when the value differs from '
        'the option default (options) or the string contains a quote, backslash, comment or list character (quoting); distinct = distinct (option, value, format) / (string, form)')
ASSUMPTIONS = [
    'quoted INI values are written as single-line Python literals; physical multi-line triple-quoted values only where configparser itself preserves the text (no blank at a line edge, no line starting with a comment prefix)',
    '%% is the INI format\'s own escape for %; both the raw and the doubled spelling are tried',
    'paths are compared relative to the scratch cwd',
]
FLOOR = {'quick': 3000, 'thorough': 30000}
SPACE = {'quick': 'all option actions x value alphabet x 3 formats; override/accumulate on every option; 30 unknown-key variants x 3 formats; strings <= 3 x 10 quoting forms',
         'thorough': 'strings <= 4 x 10 quoting forms'}
JOB_TIMEOUT = 2300

A = ['a', ' ', "'", '"', '\\', '#', ';', '%', '[', ']', ',', '\n', '\u00e9']
BASE_VALUES = ['[beta] Demo', '[rc] 1.2', 'a [b] c', 'x]', '[', '[a] [b] tail', 'simple', 'with space', 'a=b', 'a:b', 'x#y', 'x;y', "it's", 'say "hi"', 'ünï', '[x]', 'a,b', '100%', '  lead', 'trail  ', '', '"quoted"', "'q'", 'back\\slash', '$HOME', '{x}', ' Caf\u00e9 \u2603 ', 'na\u00efve', '1.10', '0x10', 'true', '1e3', '2020-01-01', '007', '+1', 'inf', '1_000']
SPECIAL = {
    'privacy': [[], ['HIDDEN:a.*'], ['PUBLIC:a', 'private:b.**', 'HIDDEN:c'], ['PUBLIC:a', 'HIDDEN:b']], 'systemclass': ['pydoctor.model.System', 'nope', 'pydoctor.nope.X'],
    'htmlwriter': ['pydoctor.templatewriter.TemplateWriter', 'x.y'], 'intersphinx_cache_max_age': ['1d', '2w', 'x'], 'buildtime': ['2020-01-01 00:00:00', 'bad'],
    'projectbasedirectory': ['.', 'sub/dir'], 'templatedir': [[], ['t1'], ['t1', 't2']], 'packages': [[], ['p1'], ['p1', 'p2']],
}


def get_parser() -> Any:
    from pydoctor.options import get_parser as gp
    return gp()


def values(a: Any) -> List[Any]:
    if a.dest in SPECIAL:
        return SPECIAL[a.dest]
    if isinstance(a, (argparse._StoreTrueAction, argparse._StoreFalseAction)):
        return [True]
    if isinstance(a, argparse._CountAction):
        return [1, 3]
    if a.choices:
        return list(a.choices) + ['nope']
    if a.type is int:
        return ['0', '1', '7', '-1', 'x']
    if isinstance(a, argparse._AppendAction):
        return [[], ['one'], ['one', 'two'], ['a,b', '[c]'], ['x y', "q'"], ['one', 'one'], ['my templates/dir', 'second item here', 'plain'], ['a  b', 'c d  e']]
    return BASE_VALUES


def cli_args(a: Any, v: Any) -> List[str]:
    opt = a.option_strings[-1] if a.option_strings[-1].startswith('--') else a.option_strings[0]
    if isinstance(a, (argparse._StoreTrueAction, argparse._StoreFalseAction)):
        return [opt]
    if isinstance(a, argparse._CountAction):
        return [opt] * v
    if isinstance(a, argparse._AppendAction):
        return [opt + '=' + item for item in v]
    return [opt + '=' + v]


def key_of(parser: Any, a: Any) -> str:
    return [k for k in parser.get_possible_config_keys(a) if not k.startswith('--')][0]


def toml_text(parser: Any, a: Any, v: Any, native: bool = False) -> str:
    import toml
    if native and a.type is int:
        try:
            v = int(v)          # written as a TOML integer, not as a string
        except ValueError:
            pass
    return '[tool.pydoctor]\n' + toml.dumps({key_of(parser, a): v})


def ini_text(parser: Any, a: Any, v: Any, section: str) -> str:
    k = key_of(parser, a)
    if isinstance(a, (argparse._StoreTrueAction, argparse._StoreFalseAction)):
        val = 'true'
    elif isinstance(a, argparse._CountAction):
        val = str(v)
    elif isinstance(v, list):
        val = repr(v).replace('%', '%%')
    else:
        # (a value that opens with '[' AND closes with ']' is the list syntax: written quoted; one that merely starts with '[' is plain text)
        needs_quote = (v != v.strip() or v == '' or '\n' in v or v[:1] in '"\'' or (v[:1] == '[' and v.endswith(']')) or '#' in v or ';' in v)
        val = (repr(v) if needs_quote else v).replace('%', '%%')
    return f'[{section}]\n{k} = {val}\n'


def load(fname: Any, text: str, argv: Sequence[str]) -> Tuple[Any, List[str]]:
    import attr
    from pydoctor.options import Options
    pd.reset_globals()
    with pd.scratch('c20') as d:
        os.chdir(d)
        if isinstance(fname, dict):
            for fn_, tx_ in fname.items():
                (d / fn_).write_text(tx_, encoding='utf-8')
        elif fname:
            (d / fname).write_text(text, encoding='utf-8')
        err = io.StringIO()
        with warnings.catch_warnings(record=True) as w:
            warnings.simplefilter('always')
            try:
                with contextlib.redirect_stderr(err), contextlib.redirect_stdout(err):
                    o = Options.from_args(list(argv))
            except SystemExit as e:
                return ('EXIT', e.code), [str(x.message) for x in w]
            except BaseException as e:  # noqa
                if type(e).__name__ == 'JobTimeout':
                    raise
                return ('EXC', type(e).__name__, pd.exc_site(e)), [str(x.message) for x in w]
        dct = attr.asdict(o)

        def rel(p: Any) -> str:
            try:
                return os.path.relpath(str(p), str(d))
            except Exception:  # noqa
                return str(p)
        for k in ('projectbasedirectory', 'sourcepath', 'templatedir'):
            if isinstance(dct.get(k), list):
                dct[k] = [rel(x) for x in dct[k]]
            elif dct.get(k) is not None:
                dct[k] = rel(dct[k])
        dct = {k: (repr(v) if not isinstance(v, (str, int, float, bool, list, type(None))) else ([repr(x) if not isinstance(x, (str, int)) else x for x in v] if isinstance(v, list) else v)) for k, v in dct.items()}
        return dct, [str(x.message) for x in w] + ([err.getvalue()] if err.getvalue() else [])


FORMATS = {'toml': ('pyproject.toml', 'tool.pydoctor'), 'setupcfg': ('setup.cfg', 'tool:pydoctor'), 'ini': ('pydoctor.ini', 'pydoctor'),
           # the INI-only way of writing a list: one item per line
           'setupcfg-lines': ('setup.cfg', 'tool:pydoctor'), 'ini-lines': ('pydoctor.ini', 'pydoctor'),
           # numbers written with TOML's own number type
           'toml-native': ('pyproject.toml', 'tool.pydoctor')}


BASE_FORMATS = ('toml', 'setupcfg', 'ini')


def lines_ok(v: Any) -> bool:
    """one-item-per-line syntax (the value starts on the line after `key =`): lists of >= 1 items that configparser keeps as written"""
    return isinstance(v, list) and len(v) >= 1 and all(i and i == i.strip() and i[0] not in '#;[\'"' and '\n' not in i for i in v)


def file_for(parser: Any, a: Any, v: Any, fmt: str) -> Tuple[str, str]:
    fname, section = FORMATS[fmt]
    if fmt.endswith('-lines'):
        return fname, f'[{section}]\n{key_of(parser, a)} =\n' + ''.join('    ' + i.replace('%', '%%') + '\n' for i in v)
    return fname, (toml_text(parser, a, v, fmt == 'toml-native') if fmt.startswith('toml') else ini_text(parser, a, v, section))


def judge_option(dest: str, res: Dict[str, Any]) -> None:
    parser = get_parser()
    a = next(x for x in parser._actions if x.dest == dest)
    defaults, _ = load(None, '', [])
    for v in values(a):
        if isinstance(a, argparse._AppendAction) and v == []:
            continue
        cli, _ = load(None, '', cli_args(a, v))
        for fmt in FORMATS:
            if fmt.endswith('-lines') and not lines_ok(v):
                continue
            if fmt == 'toml-native' and not (a.type is int and isinstance(v, str) and v.lstrip('-').isdigit()):
                continue
            fname, text = file_for(parser, a, v, fmt)
            got, warns = load(fname, text, [])
            res['evals'] += 1
            case = {'kind': 'option', 'dest': dest, 'value': v, 'fmt': fmt}
            if isinstance(cli, dict) and cli != defaults:
                res['nontrivial'].add(core.h(dest, repr(v), fmt))
            res['outcomes'].add((type(cli).__name__, type(got).__name__))
            if got != cli:
                if isinstance(got, dict) and isinstance(cli, dict):
                    d = {k: (cli[k], got[k]) for k in cli if cli[k] != got[k]}
                    clause = 'differs'
                else:
                    d = (cli if not isinstance(cli, dict) else 'ok', got if not isinstance(got, dict) else 'ok')
                    clause = 'file-rejected' if isinstance(cli, dict) else ('file-accepted' if isinstance(got, dict) else 'different-failure')
                vclass = 'list' if isinstance(v, list) else ('percent' if isinstance(v, str) and '%' in v else type(v).__name__)
                res['violations'].append(core.violation(f'option-{clause}/{fmt}/{type(a).__name__.strip("_")}/{vclass}',
                                                        f'option {dest} = {v!r}: {fname} gives {d} vs the command line; file:\n{text}', case))
    if len(res['samples']) < 1:
        res['samples'].append({'option': dest, 'values': [repr(x) for x in values(a)][:6], 'formats': list(FORMATS)})


def judge_override(dest: str, res: Dict[str, Any]) -> None:
    parser = get_parser()
    a = next(x for x in parser._actions if x.dest == dest)
    vs = [v for v in values(a) if not (isinstance(v, list) and not v)]
    good: List[Any] = []
    for v in vs:
        r, _ = load(None, '', cli_args(a, v))
        if isinstance(r, dict):
            good.append(v)
    if len(good) < 2 or isinstance(a, (argparse._StoreTrueAction, argparse._StoreFalseAction)):
        return
    v_file, v_cli = good[0], good[1]
    only_cli, _ = load(None, '', cli_args(a, v_cli))
    if not isinstance(only_cli, dict) or dest not in only_cli:
        return        # the action's dest is not an attribute of Options (nothing comparable)
    only_file_cli, _ = load(None, '', cli_args(a, v_file))
    for fmt in BASE_FORMATS:
        fname, text = file_for(parser, a, v_file, fmt)
        both, _ = load(fname, text, cli_args(a, v_cli))
        res['evals'] += 1
        res['nontrivial'].add(core.h('override', dest, fmt))
        case = {'kind': 'override', 'dest': dest, 'fmt': fmt}
        if not isinstance(both, dict):
            res['violations'].append(core.violation(f'override-fails/{fmt}/{type(a).__name__.strip("_")}', f'{dest}: file {v_file!r} + command line {v_cli!r} -> {both}', case))
            continue
        ok = both.get(dest) == only_cli.get(dest)
        if isinstance(a, argparse._AppendAction) and not ok:
            ok = both.get(dest) == (only_file_cli.get(dest) or []) + (only_cli.get(dest) or [])
        if isinstance(a, argparse._CountAction) and not ok:
            ok = both.get(dest) in (only_cli.get(dest), (only_file_cli.get(dest) or 0) + (only_cli.get(dest) or 0))
        if not ok:
            res['violations'].append(core.violation(f'override-not-cli/{fmt}/{type(a).__name__.strip("_")}',
                                                    f'{dest}: file {v_file!r} + command line {v_cli!r} -> {both.get(dest)!r}; command line alone gives {only_cli.get(dest)!r}', case))
    # accumulation in order on the command line and in each file format
    if isinstance(a, argparse._AppendAction):
        items = [x for x in (['one', 'two', 'three'] if dest not in SPECIAL else [y for v in SPECIAL[dest] for y in v]) ][:3]
        if len(items) >= 2:
            seq, _ = load(None, '', cli_args(a, items))
            res['evals'] += 1
            singles = []
            for it in items:
                r1, _ = load(None, '', cli_args(a, [it]))
                singles += (r1.get(dest) or []) if isinstance(r1, dict) else []
            if isinstance(seq, dict) and seq.get(dest) != singles:
                res['violations'].append(core.violation(f'accumulate-order/cli', f'{dest}: repeated {items} -> {seq.get(dest)!r}, expected {singles!r}', {'kind': 'override', 'dest': dest, 'fmt': 'cli'}))
            for fmt in BASE_FORMATS:
                fname, text = file_for(parser, a, items, fmt)
                gotf, _ = load(fname, text, [])
                res['evals'] += 1
                if isinstance(seq, dict) and (not isinstance(gotf, dict) or gotf.get(dest) != seq.get(dest)):
                    res['violations'].append(core.violation(f'accumulate-order/{fmt}', f'{dest}: list {items} in {fname} -> {gotf.get(dest) if isinstance(gotf, dict) else gotf!r}, command line {seq.get(dest)!r}',
                                                            {'kind': 'override', 'dest': dest, 'fmt': fmt}))


def judge_spellings(dest: str, res: Dict[str, Any]) -> None:
    """One file sets the same option under two accepted spellings of its key (`key`, `--key`, an alias such as add-module): that means what
    the same two options mean, in the same order, on the command line (lists accumulate, a single value: the later one)."""
    import toml
    parser = get_parser()
    a = next(x for x in parser._actions if x.dest == dest)
    if isinstance(a, (argparse._StoreTrueAction, argparse._StoreFalseAction, argparse._CountAction)):
        return
    keys = list(parser.get_possible_config_keys(a))
    good = []
    for v in values(a):
        if isinstance(v, list) and not v:
            continue
        r, _ = load(None, '', cli_args(a, v))
        if isinstance(r, dict):
            good.append(v)
    if len(good) < 2:
        return
    v1, v2 = good[0], good[1]
    for k1, k2 in itertools.permutations(keys, 2):
        o1 = k1 if k1.startswith('--') else '--' + k1
        o2 = k2 if k2.startswith('--') else '--' + k2

        def argv(o: str, v: Any) -> List[str]:
            return [o + '=' + i for i in v] if isinstance(v, list) else [o + '=' + v]
        cli, _ = load(None, '', argv(o1, v1) + argv(o2, v2))
        if not isinstance(cli, dict) or dest not in cli:
            continue
        for fmt in BASE_FORMATS:
            fname, section = FORMATS[fmt]
            if fmt == 'toml':
                text = f'[{section}]\n' + toml.dumps({k1: v1}) + toml.dumps({k2: v2})
            else:
                def val(v: Any) -> str:
                    return (repr(v) if isinstance(v, list) or v != v.strip() or v == '' or v[:1] in '["\'' or '#' in v or ';' in v else v).replace('%', '%%')
                text = f'[{section}]\n{k1} = {val(v1)}\n{k2} = {val(v2)}\n'
            got, _ = load(fname, text, [])
            res['evals'] += 1
            res['nontrivial'].add(core.h('spellings', dest, k1, k2, fmt))
            case = {'kind': 'spellings', 'dest': dest}
            if not isinstance(got, dict):
                res['violations'].append(core.violation(f'two-spellings-rejected/{fmt}/{type(a).__name__.strip("_")}', f'{dest}: {fname} with {k1!r} then {k2!r} -> {got}; file:\n{text}', case))
            elif got.get(dest) != cli.get(dest):
                res['violations'].append(core.violation(f'two-spellings-differ/{fmt}/{type(a).__name__.strip("_")}',
                                                        f'{dest}: {fname} with {k1!r} = {v1!r} then {k2!r} = {v2!r} -> {got.get(dest)!r}, the command line {o1} {o2} gives {cli.get(dest)!r}', case))


UNKNOWN_KEYS = ['no-such-option', 'nosuchoption', 'project_name', 'Project-Name', 'PROJECT-NAME', 'DOCFORMAT', 'Verbose', 'html-outputs', 'privacyy',
                'tool', 'sourcepath', 'source-path', 'docformat.x', 'x y', 'ünï', 'Html-Output', 'WARNINGS-AS-ERRORS']


def judge_unknown(fmt: str, res: Dict[str, Any]) -> None:
    defaults, _ = load(None, '', [])
    fname, section = FORMATS[fmt]
    import toml
    for key in UNKNOWN_KEYS:
        if fmt == 'toml':
            text = f'[{section}]\n' + toml.dumps({key: 'zzz', 'project-name': 'known'})
        else:
            if key.strip() != key or key.startswith('--') and False:
                pass
            text = f'[{section}]\n{key} = zzz\nproject-name = known\n'
        if fmt != 'toml' and key.lower() != key:
            continue      # configparser lower-cases keys: a case variant IS the known key in the INI formats
        got, warns = load(fname, text, [])
        res['evals'] += 1
        res['nontrivial'].add(core.h('unknown', fmt, key))
        case = {'kind': 'unknown', 'fmt': fmt, 'key': key}
        known_alias = key.strip().lower().replace('_', '-').lstrip('-') in ('project-name',) and fmt != 'toml'
        keyclass = 'case-variant' if key.lower() != key and key.lower().strip() in ('project-name', 'docformat', 'verbose') else ('other')
        if not isinstance(got, dict):
            res['violations'].append(core.violation(f'unknown-key-aborts/{fmt}/{keyclass}', f'{fname} with unknown key {key!r}: {got} instead of a warning; file:\n{text}', case))
            continue
        changed = {k: (defaults[k], got[k]) for k in defaults if defaults[k] != got[k] and k != 'projectname'}
        if got.get('projectname') != 'known':
            res['violations'].append(core.violation(f'unknown-key-drops-known/{fmt}/{keyclass}', f'{fname} with unknown key {key!r}: the known key next to it was not applied', case))
        if changed and not known_alias:
            res['violations'].append(core.violation(f'unknown-key-applied/{fmt}/{keyclass}', f'{fname}: unknown key {key!r} changed {changed}', case))
        accepted_as = key.strip().lower() if fmt != 'toml' else key
        is_really_unknown = accepted_as.replace('_', '-') not in ('project-name', 'docformat', 'verbose', 'help', 'version', 'config') or fmt == 'toml' and key != accepted_as.lower()
        if is_really_unknown and not changed and not any('No such config option' in w or key.strip() in w for w in warns):
            res['violations'].append(core.violation(f'unknown-key-not-warned/{fmt}/{keyclass}', f'{fname}: unknown key {key!r} gave no warning ({warns})', case))


def judge_unknown_two_files(res: Dict[str, Any]) -> None:
    """the same unknown key in two (three) of the files read in one run: warned about, never applied, never fatal - like in one file"""
    import toml
    defaults, _ = load(None, '', [])
    for key in ['no-such-option', 'not_an_option', 'html-out', 'project', 'privac', 'doc-format', 'x']:
        for combo in [('toml', 'setupcfg'), ('toml', 'ini'), ('setupcfg', 'ini'), ('toml', 'setupcfg', 'ini')]:
            files = {}
            for fmt in combo:
                fname, section = FORMATS[fmt]
                files[fname] = (f'[{section}]\n' + toml.dumps({key: 'zzz', 'project-name': 'known'})) if fmt == 'toml' else f'[{section}]\n{key} = zzz\nproject-name = known\n'
            got, warns = load(files, '', [])
            res['evals'] += 1
            res['nontrivial'].add(core.h('unknown2', key, combo))
            case = {'kind': 'unknown2', 'key': key, 'combo': list(combo)}
            label = '+'.join(combo)
            if not isinstance(got, dict):
                res['violations'].append(core.violation(f'unknown-key-in-several-files-aborts/{len(combo)}-files', f'unknown key {key!r} in {label}: {got} instead of a warning', case))
                continue
            changed = {k: (defaults[k], got[k]) for k in defaults if defaults[k] != got[k] and k != 'projectname'}
            if changed:
                res['violations'].append(core.violation(f'unknown-key-in-several-files-applied/{len(combo)}-files', f'unknown key {key!r} in {label} changed {changed}', case))
            if got.get('projectname') != 'known':
                res['violations'].append(core.violation(f'unknown-key-in-several-files-drops-known/{len(combo)}-files', f'unknown key {key!r} in {label}: the known key next to it was not applied', case))


# ---------------------------------------------------------------- quoting

def py_quote(s: str, q: str) -> str:
    return q + s.replace('\\', '\\\\').replace(q, '\\' + q).replace('\n', '\\n') + q


def py_triple(s: str, q3: str, physical: bool) -> Optional[str]:
    body = s.replace('\\', '\\\\').replace(q3[0], '\\' + q3[0])
    if not physical:
        return q3 + body.replace('\n', '\\n') + q3
    # physical multi-line: only where configparser itself keeps the text
    lines = s.split('\n')
    if len(lines) < 2 or any((not l) or l != l.strip() or l[0] in '#;[' for l in lines):
        return None
    return q3 + body + q3


def ini_value(v: str) -> str:
    return v.replace('\n', '\n    ')


def minimise(s: str, fails: Any) -> str:
    cur = s
    changed = True
    while changed and len(cur) > 1:
        changed = False
        for i in range(len(cur)):
            cand = cur[:i] + cur[i + 1:]
            if fails(cand):
                cur = cand
                changed = True
                break
    # characters that are only filler are normalised to 'a'
    for i in range(len(cur)):
        if cur[i] not in 'a\n':
            cand = cur[:i] + 'a' + cur[i + 1:]
            if fails(cand):
                cur = cand
    return cur


def sig_of(fmt: str, form: str, pct: str, cls: str, m: str) -> str:
    core_ = ''.join(ch for ch in m if ch not in 'a\n') or ('empty' if not m else 'plain')
    if core_ and set(core_) == {'%'}:
        core_ = '%' if cls.startswith('exc') else '%%'       # any run of percent signs: one root cause (interpolation is on)
    tail = '' if '%' in core_ else '/' + form
    return f'quoting/{fmt}/{pct}/{cls}/{core_.encode("unicode_escape").decode()!r}{tail}'.replace(' ', '<sp>')


def judge_quoting(prefix: Tuple[str, ...], n: int, res: Dict[str, Any]) -> None:
    from pydoctor._configparser import IniConfigParser, TomlConfigParser
    import toml
    ini = IniConfigParser(['pydoctor'], split_ml_text_to_list=True)
    tml = TomlConfigParser(['tool.pydoctor'])

    def read_ini(lit: str) -> Any:
        text = '[pydoctor]\nproject-name = ' + ini_value(lit) + '\n'
        try:
            return ini.parse(io.StringIO(text)).get('project-name', '<missing>')
        except Exception as e:  # noqa
            return ('EXC', type(e).__name__)

    def read_toml(text: str) -> Any:
        try:
            return tml.parse(io.StringIO(text)).get('project-name', '<missing>')
        except Exception as e:  # noqa
            return ('EXC', type(e).__name__)

    def forms(s: str) -> Dict[str, Optional[str]]:
        return {'sq': py_quote(s, "'"), 'dq': py_quote(s, '"'), 'tsq': py_triple(s, "'''", False), 'tdq': py_triple(s, '"""', False),
                'tsq-ml': py_triple(s, "'''", True), 'tdq-ml': py_triple(s, '"""', True)}

    def classify(got: Any) -> str:
        return 'exc:' + got[1] if isinstance(got, tuple) else ('missing' if got == '<missing>' else ('list' if isinstance(got, list) else 'different'))

    for L in range(len(prefix), n + 1):
        for t in itertools.product(A, repeat=L - len(prefix)):
            s = ''.join(prefix + t)
            interesting = any(c in s for c in "'\"\\#;%[],\n")
            for fn, lit in forms(s).items():
                if lit is None:
                    continue
                for pct in ('raw', 'escaped'):
                    if pct == 'escaped' and '%' not in s:
                        continue
                    v = lit.replace('%', '%%') if pct == 'escaped' else lit
                    res['evals'] += 1
                    got = read_ini(v)
                    if interesting:
                        res['nontrivial'].add(core.h('ini', s, fn, pct))
                    if got != s:
                        cls = classify(got)

                        def fails(c: str, fn: str = fn, pct: str = pct, cls: str = cls) -> bool:
                            l2 = forms(c).get(fn)
                            if l2 is None:
                                return False
                            g2 = read_ini(l2.replace('%', '%%') if pct == 'escaped' else l2)
                            return g2 != c and classify(g2) == cls
                        m = minimise(s, fails)
                        res['violations'].append(core.violation(sig_of('ini', fn, pct, cls, m),
                                                                f'INI value {v!r} (string {s!r} written {fn}) reads back as {got!r}', {'kind': 'quote', 's': s, 'form': fn, 'pct': pct, 'fmt': 'ini'}))
            for tf in ('basic', 'literal'):
                if tf == 'basic':
                    text = '[tool.pydoctor]\n' + toml.dumps({'project-name': s})
                else:
                    if "'" in s or '\n' in s:
                        continue
                    text = f"[tool.pydoctor]\nproject-name = '{s}'\n"
                res['evals'] += 1
                got = read_toml(text)
                if interesting:
                    res['nontrivial'].add(core.h('toml', s, tf))
                if got != s:
                    cls = classify(got)

                    def failst(c: str, tf: str = tf, cls: str = cls) -> bool:
                        if tf == 'literal' and ("'" in c or '\n' in c):
                            return False
                        tx = '[tool.pydoctor]\n' + toml.dumps({'project-name': c}) if tf == 'basic' else f"[tool.pydoctor]\nproject-name = '{c}'\n"
                        g2 = read_toml(tx)
                        return g2 != c and classify(g2) == cls
                    m = minimise(s, failst)
                    res['violations'].append(core.violation(sig_of('toml', tf, 'raw', cls, m),
                                                            f'TOML {text!r} (string {s!r}) reads back as {got!r}', {'kind': 'quote', 's': s, 'form': tf, 'pct': 'raw', 'fmt': 'toml'}))
    if len(res['samples']) < 1:
        res['samples'].append({'quoting_prefix': ''.join(prefix), 'max_len': n, 'forms': ['sq', 'dq', 'tsq', 'tdq', 'tsq-ml', 'tdq-ml', 'toml-basic', 'toml-literal']})


# ---------------------------------------------------------------- histories of config reads in one process, files side by side
# op: (files present in the directory, the command line that says the same)
TOML_RICH = ('[tool.pydoctor]\nproject-name = "Proj" # the name\nprivacy = [\n  "HIDDEN:a.*", # hide these\n  \'PUBLIC:a.b\',\n]\n'
             "html-viewsource-base = 'C:\\cache\\new'\nproject-url = 'lit # not a comment'\n")
TOML_RICH_CLI = ['--project-name=Proj', '--privacy=HIDDEN:a.*', '--privacy=PUBLIC:a.b', '--html-viewsource-base=C:\\cache\\new', '--project-url=lit # not a comment']
HOPS: Dict[str, Tuple[Dict[str, str], List[str]]] = {
    'toml-rich': ({'pyproject.toml': TOML_RICH}, TOML_RICH_CLI),
    'setupcfg': ({'setup.cfg': '[tool:pydoctor]\nproject-name = "Caf\u00e9 API"\ndocformat = restructuredtext\n'}, ['--project-name=Caf\u00e9 API', '--docformat=restructuredtext']),
    'ini': ({'pydoctor.ini': '[pydoctor]\nproject-name = Ini Name\nprivacy =\n    HIDDEN:x\n    PUBLIC:y\n'}, ['--project-name=Ini Name', '--privacy=HIDDEN:x', '--privacy=PUBLIC:y']),
    'toml+foreign-setupcfg': ({'pyproject.toml': TOML_RICH, 'setup.cfg': '[metadata]\nname = other\n\n[flake8]\nmax-line-length = 100\n'}, TOML_RICH_CLI),
    'toml+setupcfg-disjoint': ({'pyproject.toml': TOML_RICH, 'setup.cfg': '[tool:pydoctor]\ndocformat = google\n'}, TOML_RICH_CLI + ['--docformat=google']),
    'toml+ini-disjoint': ({'pyproject.toml': '[tool.pydoctor]\ndocformat = "numpy" # fmt\n', 'pydoctor.ini': '[pydoctor]\nproject-name = Side\n'}, ['--docformat=numpy', '--project-name=Side']),
    # [DEFAULT] sections: configparser's own defaults mechanism applies inside ONE file; a file's [DEFAULT] says nothing about another file or a later read
    'setupcfg-with-DEFAULT': ({'setup.cfg': '[DEFAULT]\nhtml-output = build/apidocs\n\n[tool:pydoctor]\nproject-name = WithDefault\n'}, ['--html-output=build/apidocs', '--project-name=WithDefault']),
    'ini-only-DEFAULT+setupcfg': ({'pydoctor.ini': '[DEFAULT]\nproject-name = Shared Name\n', 'setup.cfg': '[tool:pydoctor]\ndocformat = numpy\n'}, ['--docformat=numpy']),
    # a file with an INI name written in the syntax INI and TOML share, holding a % that is no valid INI interpolation: the TOML reading is the fallback
    'ini-toml-syntax-percent': ({'pydoctor.ini': '[pydoctor]\nproject-name = "100% Python"\nproject-url = "http://x/a%20b"\n'}, ['--project-name=100% Python', '--project-url=http://x/a%20b']),
    'toml-foreign-only': ({'pyproject.toml': '[tool.black]\nline-length = 100\n\n[project]\nname = "x" # c\n', 'setup.cfg': '[metadata]\nname = x\n'}, []),
}


def judge_history(hist: Sequence[str], res: Dict[str, Any]) -> None:
    """The reads of `hist` happen one after the other in this process; each must mean what its command line means."""
    res['evals'] += 1
    res['traces'] += 1
    res['nontrivial'].add(core.h('history', tuple(hist)))
    for i, op in enumerate(hist):
        files, argv = HOPS[op]
        got, warns = load(files, '', [])
        want, _ = load(None, '', argv)
        res['outcomes'].add(('history', op, got == want))
        if got != want:
            d = {k: (want[k], got[k]) for k in want if want[k] != got.get(k)} if isinstance(got, dict) and isinstance(want, dict) else (want if not isinstance(want, dict) else 'ok', got if not isinstance(got, dict) else 'ok')
            earlier = [h for h in hist[:i]]
            alone, _ = load(files, '', [])
            # attribute to the history only when the same read alone (fresh state is not reachable in-process: shortest history) behaves
            sig = f'config-read-differs/{op}' + (f'/after:{"+".join(earlier)}' if earlier and judge_alone(op) else '')
            res['violations'].append(core.violation(sig, f'history {list(hist)}: read #{i + 1} ({op}) gives {d} vs the command line {argv}', {'kind': 'history', 'hist': list(hist)}))
            return


_alone: Dict[str, bool] = {}


def judge_alone(op: str) -> bool:
    """does this read agree with its command line in a fresh interpreter?"""
    if op not in _alone:
        import subprocess, sys, json
        code = ('import json,sys\nfrom mc.props import c20\nfiles, argv = c20.HOPS[sys.argv[1]]\n'
                'print(json.dumps(c20.load(files, "", [])[0] == c20.load(None, "", argv)[0]))')
        r = subprocess.run([sys.executable, '-c', code, op], capture_output=True, text=True, env=os.environ)
        _alone[op] = r.stdout.strip().endswith('true')
    return _alone[op]


def jobs(tier: str) -> Iterable[Tuple[str, Any]]:
    parser = get_parser()
    dests = [a.dest for a in parser._actions if a.option_strings and a.dest not in ('help', 'version', 'config')]
    for d in dests:
        yield ('options', ('option', d))
    for d in dests:
        yield ('override-accumulate', ('override', d))
    for d in dests:
        yield ('two-spellings-one-file', ('spellings', d))
    for fmt in BASE_FORMATS:
        yield ('unknown-keys', ('unknown', fmt))
    yield ('unknown-keys', ('unknown2',))
    for first in HOPS:
        yield ('read-histories', ('history', first))
    n = 3 if tier == 'quick' else 4
    yield (f'quoting<={n}', ('quote', (), 1))
    for c in A:
        if n == 3:
            yield (f'quoting<={n}', ('quote', (c,), n))
        else:
            for c2 in A:
                yield (f'quoting<={n}', ('quote', (c, c2), n))
    if n == 4:
        for c in A:
            yield ('quoting<=4', ('quote', (c,), 1))


def run_job(job: Any, tier: str) -> Dict[str, Any]:
    res = core.result()
    if job[0] == 'option':
        judge_option(job[1], res)
    elif job[0] == 'override':
        judge_override(job[1], res)
    elif job[0] == 'spellings':
        judge_spellings(job[1], res)
    elif job[0] == 'unknown':
        judge_unknown(job[1], res)
    elif job[0] == 'unknown2':
        judge_unknown_two_files(res)
    elif job[0] == 'history':
        depth = 3 if tier == 'quick' else 4
        for L in range(1, depth + 1):
            for rest in itertools.product(list(HOPS), repeat=L - 1):
                judge_history([job[1], *rest], res)
    else:
        _, prefix, n = job
        if prefix == ():
            judge_quoting((), n if n <= 1 else 0, res)
        elif len(prefix) == 1 and n == 1:
            judge_quoting(prefix, 1, res)
        else:
            judge_quoting(tuple(prefix), n, res)
    return res


def replay(case: Dict[str, Any]) -> List[Dict[str, Any]]:
    res = core.result()
    if case['kind'] == 'option':
        judge_option(case['dest'], res)
        res['violations'] = [v for v in res['violations'] if v['case'].get('value') == case['value'] and v['case'].get('fmt') == case['fmt']] or res['violations']
    elif case['kind'] == 'override':
        judge_override(case['dest'], res)
    elif case['kind'] == 'unknown':
        judge_unknown(case['fmt'], res)
        res['violations'] = [v for v in res['violations'] if v['case'].get('key') == case['key']]
    elif case['kind'] == 'history':
        judge_history(case['hist'], res)
    elif case['kind'] == 'unknown2':
        judge_unknown_two_files(res)
        res['violations'] = [v for v in res['violations'] if v['case'] == case]
    elif case['kind'] == 'spellings':
        judge_spellings(case['dest'], res)
    else:
        s = case['s']
        judge_quoting(tuple(s), len(s), res)
        res['violations'] = [v for v in res['violations'] if v['case']['s'] == s and v['case']['form'] == case['form'] and v['case']['pct'] == case['pct']]
    return res['violations']
