"""C04 - a name resolves to what Python would bind it to, or not at all.

Skeleton: two root packages (pa with sub-modules b, c and sub-package s with d; qa with e); every module defines
classes/functions that carry a globally unique "ID:<name>" docstring.  A consumer scope (module, package
__init__, sub-package __init__, other root, a class body in each, a nested class body) receives one (quick) or two
(thorough) import/alias statements from a template alphabet.  The project is imported by CPython (statements CPython
cannot import are filtered out) and analysed by pydoctor from the same files.  For every name bound in the scope and
every dotted extension (<= 3 parts) CPython can evaluate to an ID-carrying object:
  soundness    - if resolveName(path) returns an object, its ID is the ID of the object CPython evaluates path to;
  completeness - names imported directly from the defining module, and paths through a module alias, must resolve.
"""
from __future__ import annotations

import importlib
import itertools
import sys
import types
from typing import Any, Dict, Iterable, List, Optional, Sequence, Tuple

from mc import core, pd

ID = 'C04'
LEVEL = 'exploration'
RULE = ('import/alias statement templates x consumer scopes, each validated by a real CPython import, then every bound name and dotted path <= 3 '
        'is resolved by Documentable.resolveName and compared by ID docstring; a case is non-trivial when CPython imports it and at least one '
        'ID-carrying path is checked; distinct = distinct (scope, statements)')
ASSUMPTIONS = [
    'CPython import semantics are the oracle; identity is carried by unique ID docstrings',
    'acyclic projects, each name bound once per scope; __all__-triggered moves are C07, not generated here',
    'completeness is only demanded for names imported directly from the defining module and for paths through a module alias',
]
FLOOR = {'quick': 150, 'thorough': 2000}
SPACE = {'quick': '56 statement templates x 9 consumer scopes (singles)', 'thorough': 'all ordered pairs of statements x 9 consumer scopes'}
JOB_TIMEOUT = 1500


def skeleton(tag: str) -> Tuple[str, str, Dict[str, str]]:
    pa, qa = f'pa{tag}', f'qa{tag}'
    files = {
        f'{pa}/__init__.py': f'"ID:{pa}"\nfrom .b import Kb as Rb\nclass Ka:\n    "ID:Ka"\n',
        f'{pa}/b.py': f'"ID:{pa}.b"\nclass Kb:\n    "ID:Kb"\n    class Nb:\n        "ID:Nb"\n        def mn(self): "ID:mn"\n    def mb(self): "ID:mb"\ndef fb(): "ID:fb"\nvb = 1\n__all__=["Kb","fb"]\n',
        f'{pa}/c.py': (f'"ID:{pa}.c"\nclass Kc:\n    "ID:Kc"\n    def mc(self): "ID:mc"\ndef fc(): "ID:fc"\n_hc = 1\n'
                       'class Base0:\n    "ID:Base0"\n    def render(self): "ID:Base0.render"\n    def only_base(self): "ID:Base0.only_base"\n'
                       'class Left0(Base0):\n    "ID:Left0"\nclass Right0(Base0):\n    "ID:Right0"\n    def render(self): "ID:Right0.render"\n'
                       'class Widget0(Left0, Right0):\n    "ID:Widget0"\nclass Page0(Widget0):\n    "ID:Page0"\n'),
        f'{pa}/emp.py': f'"ID:{pa}.emp"\n__all__ = []\nfrom . import c as mb\nclass He:\n    "ID:He"\ndef fe(): "ID:fe"\n',
        f'{pa}/und.py': (f'"ID:{pa}.und"\n__all__ = ["Pub", "_make", "_Eng"]\nclass Pub:\n    "ID:Pub"\ndef _make(): "ID:_make"\n'
                         'class _Eng:\n    "ID:_Eng"\n    def start(self): "ID:_Eng.start"\ndef hidden(): "ID:hidden"\n'),
        f'{pa}/s/__init__.py': f'"ID:{pa}.s"\nclass Ks:\n    "ID:Ks"\n',
        f'{pa}/s/d.py': f'"ID:{pa}.s.d"\nclass Kd:\n    "ID:Kd"\ndef fd(): "ID:fd"\n',
        f'{pa}/s/u.py': f'"ID:{pa}.s.u"\n',
        # a sub-package whose __init__ binds a function under the name of the sub-module that defines it, and a name it merely imports;
        # a module that sorts after every consumer and only imports what it offers
        f'{pa}/w/__init__.py': f'"ID:{pa}.w"\nfrom .run import run\nfrom ..c import Kc as Frame\n',
        f'{pa}/w/run.py': f'"ID:{pa}.w.run"\ndef run(): "ID:run"\ndef other(): "ID:other"\n',
        f'{pa}/w2/__init__.py': f'"ID:{pa}.w2"\nfrom .go import *\n',
        f'{pa}/w2/go.py': f'"ID:{pa}.w2.go"\ndef go(): "ID:go"\ndef other2(): "ID:other2"\n',
        f'{pa}/zlate.py': f'"ID:{pa}.zlate"\nfrom .c import Kc as Late0\nfrom .w import run as late_run\n',
        # a third root whose name extends the first root's name; it re-exports (moves) a class that consumers import from where it is defined
        f'{pa}2/__init__.py': f'"ID:{pa}2"\nfrom .core import Eng\n__all__ = ["Eng"]\n',
        f'{pa}2/core.py': f'"ID:{pa}2.core"\nclass Eng:\n    "ID:Eng"\n    class Part:\n        "ID:Eng.Part"\ndef stays(): "ID:stays"\n',
        f'{qa}/__init__.py': f'"ID:{qa}"\n',
        f'{qa}/e.py': f'"ID:{qa}.e"\nclass Ke:\n    "ID:Ke"\n',
        f'{qa}/v.py': f'"ID:{qa}.v"\n',
    }
    return pa, qa, files


def statements(pa: str, qa: str) -> List[str]:
    return [
        f'import {pa}.b', f'import {pa}.b as mb', f'import {pa}.s.d', f'import {pa}.s.d as md', f'import {pa}', f'import {pa} as rootalias',
        f'from {pa} import b', f'from {pa} import b as bb', f'from {pa} import s', f'from {pa}.s import d as dd',
        f'from {pa}.b import Kb', f'from {pa}.b import Kb as X', f'from {pa}.b import Kb, fb as F', f'from {pa}.b import *', f'from {pa}.c import *',
        f'from {pa} import Rb', f'from {pa} import Ka as KA', f'from {pa} import *',
        'from . import d', 'from . import d as reld', 'from .d import Kd', 'from .d import Kd as KD', 'from .d import *', 'from .. import c', 'from ..c import Kc',
        'from ..b import Kb as Y', 'from .. import Rb', 'from ..s.d import fd', 'from . import s', 'from .s import d as sd', 'from .b import Kb as RelKb',
        f'from {qa}.e import Ke', f'import {qa}.e, {pa}.c',
        f'from {pa}.b import Kb\nZ = Kb', f'import {pa}.b\nmm = {pa}.b', f'import {pa}.b\nZ2 = {pa}.b.Kb', f'import {pa}.c as mc0\nZ3 = mc0.Kc\nmc1 = mc0',
        f'from {pa} import b as b0\nZ4 = b0.Kb.Nb',
        # names the defining module exports itself (no move happens: the consumer just binds them), underscore names listed in __all__
        f'from {pa}.b import Kb, fb\n__all__ = ["Kb", "fb"]', f'from {pa}.b import *\n__all__ = ["Kb"]', f'from {pa}.b import Kb as KbAlias\n__all__ = ["KbAlias"]',
        f'from {pa}.und import *', f'from {pa}.und import *\n__all__ = ["Pub", "_make"]', f'from {pa}.und import *\nclass Motor(_Eng):\n    "ID:Motor"', f'import {pa}.und as um0',
        f'from {pa}.und import _make, hidden', f'from {pa}.und import _Eng as E0, Pub',
        # a member inherited by a local subclass whose name is also bound, to something else, in the scope of the subclass
        f'from {pa}.c import Kc\nfrom {pa}.b import fb as mc\nclass Sub0(Kc):\n    "ID:Sub0"', f'from {pa}.c import Right0\nfrom {pa}.b import Kb as render\nclass Sub1(Right0):\n    "ID:Sub1"',
        # a name bound by an import that is also the name of a sub-module / sub-package of the scope's package
        f'from {pa}.c import fc as b', f'from {pa}.c import Kc as s', f'from {pa}.c import fc as d',     # (a LATER import of that sub-module re-binds the name in CPython: not generated, the order of import events is dynamic)
        # through a package that re-binds the name of its own sub-module, and through modules analysed after the consumer
        f'from {pa}.w import run', f'from {pa}.w import run as run0, Frame as Fr0', f'from {pa} import w as w0\nZ6 = w0.run', f'from {pa} import w as w1\nZ7 = w1.Frame',
        f'import {pa}.w\nZ8 = {pa}.w.run', f'from {pa} import zlate as zl\nZ9 = zl.Late0\nZ10 = zl.late_run', f'import {pa}.w.run as wr0\nZ11 = wr0.other', 'from . import w as w9\nZ12 = w9.run',
        # an object its package re-exports (moves), named by where it is defined: found through the alias the move leaves behind (System.find_object)
        f'from {pa}2.core import Eng', f'from {pa}2.core import Eng as E2, stays', f'import {pa}2.core as xc0\nZ13 = xc0.Eng', f'from {pa}2 import Eng as E3', f'import {pa}2\nZ14 = {pa}2.core.Eng',
        # uses of a name that the module AND the enclosing class bind (only importable in the nested-decoy scope)
        # aliases of members reached through a class whose linearisation differs from a depth-first walk of its bases
        f'from {pa}.c import Widget0\nZr0 = Widget0.render\nZo0 = Widget0.only_base', f'from {pa}.c import Page0 as Pg0\nZr1 = Pg0.render', f'import {pa}.c as cm0\nZr2 = cm0.Widget0.render',
        f'from {pa}.b import fb, vb, Kb', f'import {pa}.b as mb2\nZf = mb2.fb\nZv = mb2.vb', f'from {pa}.c import fc as fcc, _hc',
        # a class that binds, by an import or an alias in its own body, a name its base class defines or its module binds as well
        f'from {pa}.c import Right0\nclass Sub2(Right0):\n    "ID:Sub2"\n    from {pa}.b import fb as render\n    from {pa}.b import Kb as only_base\nZs2 = Sub2.render\nZs3 = Sub2.only_base',
        f'from {pa}.c import Right0\nfrom {pa}.b import Kb as Fancy0\nclass Sub3(Right0):\n    "ID:Sub3"\n    render = Fancy0\nclass Sub4(Sub3):\n    "ID:Sub4"\nZs4 = Sub3.render\nZs5 = Sub4.render',
        f'from {pa}.c import Kc as Style0\nfrom {pa}.b import Kb as Fancy1\nclass Btn0:\n    "ID:Btn0"\n    Style0 = Fancy1\nZb0 = Btn0.Style0\nZb1 = Style0',
        'Z15 = Dk', 'Z16 = Df\nclass Mine2(Dk):\n    "ID:Mine2"',
        f'from {pa}.w2 import go', f'from {pa}.w2 import go as go0, other2', f'from {pa} import w2 as w3\nZ17 = w3.go', f'import {pa}.w2\nZ18 = {pa}.w2.go\nZ19 = {pa}.w2.other2', f'from {pa}.w2 import *',
        f'from {pa}.emp import *', f'from {pa}.c import Widget0, Page0 as P0', f'import {pa}.c as dm', f'from {pa}.c import Widget0\nclass Mine(Widget0):\n    "ID:Mine"',
    ]


# consumer scopes: (file to put the statements in, wrapper, dotted name of the scope object inside the module)
def scopes(pa: str, qa: str) -> List[Tuple[str, str, str, str]]:
    return [
        ('mod-u', f'{pa}/s/u.py', f'{pa}.s.u', ''),
        ('cls-u', f'{pa}/s/u.py', f'{pa}.s.u', 'Scope'),
        ('nested-u', f'{pa}/s/u.py', f'{pa}.s.u', 'Outer.Scope'),
        ('init-pa', f'{pa}/__init__.py', f'{pa}', ''),
        ('cls-init-pa', f'{pa}/__init__.py', f'{pa}', 'Scope'),
        ('init-s', f'{pa}/s/__init__.py', f'{pa}.s', ''),
        ('cls-init-s', f'{pa}/s/__init__.py', f'{pa}.s', 'Scope'),
        ('mod-v', f'{qa}/v.py', f'{qa}.v', ''),
        ('cls-v', f'{qa}/v.py', f'{qa}.v', 'Scope'),
        # the enclosing class binds the name Dk too: class scopes do not nest, the nested class body sees the module's Dk
        ('nested-decoy-u', f'{pa}/s/u.py', f'{pa}.s.u', 'Outer.Scope'),
        ('nested3-decoy-u', f'{pa}/s/u.py', f'{pa}.s.u', 'Outer.Mid.Scope'),
    ]


def place(stmts: Sequence[str], scope_path: str, decoy: Optional[Tuple[str, str]] = None) -> str:
    body = '\n'.join(stmts) + '\n'
    if not scope_path:
        return body
    parts = scope_path.split('.')
    out = (decoy[0] + '\n') if decoy else ''
    ind = ''
    for i, p in enumerate(parts):
        out += f'{ind}class {p}:\n'
        ind += '    '
        out += f'{ind}"scope class"\n'
        if decoy and i == 0:
            out += f'{ind}{decoy[1]}\n'
    out += ''.join(ind + l + '\n' for l in body.splitlines())
    return out


def ident(v: Any) -> Optional[str]:
    d = getattr(v, '__doc__', None)
    if isinstance(v, (type, types.FunctionType, types.ModuleType)) and isinstance(d, str) and d.startswith('ID:'):
        return d
    return None


def run_case(tag: str, scope_idx: int, stmt_idx: Sequence[int], res: Dict[str, Any]) -> None:
    pa, qa, files = skeleton(tag)
    sname, relfile, modname, scope_path = scopes(pa, qa)[scope_idx]
    sts = [statements(pa, qa)[i] for i in stmt_idx]
    generic = [statements('PA', 'QA')[i] for i in stmt_idx]
    decoy = (f'from {pa}.c import Kc as Dk, fc as Df', f'from {pa}.b import Kb as Dk, fb as Df') if sname in ('nested-decoy-u', 'nested3-decoy-u') else None
    files[relfile] = files[relfile] + place(sts, scope_path, decoy)
    case = {'kind': 'case', 'scope': scope_idx, 'stmts': list(stmt_idx)}
    with pd.scratch('c04') as d:
        pd.write_tree(d, files)
        sys.path.insert(0, str(d))
        try:
            try:
                um = importlib.import_module(modname)
            except Exception:  # noqa
                core.bump(res, 'filtered_cpython_cannot_import')
                return
            # each name bound once per scope
            s = pd.build_files(d, [pa, pa + '2', qa])
            res['evals'] += 1
            scope_py: Any = um
            for p in (scope_path.split('.') if scope_path else []):
                scope_py = getattr(scope_py, p)
            scope_pd = s.allobjects.get(modname + ('.' + scope_path if scope_path else ''))
            if scope_pd is None:
                res['violations'].append(core.violation(f'scope-missing/{sname}', f'scope object not documented for {generic}', case))
                return
            checked = 0

            def check(path: str, val: Any, direct_must: bool) -> None:
                nonlocal checked
                idp = ident(val)
                if not idp:
                    return
                checked += 1
                r = scope_pd.resolveName(path)
                if r is None:
                    # the name may be recorded under the place the object was defined at before a re-export moved it
                    try:
                        r = s.find_object(scope_pd.expandName(path))
                    except LookupError:
                        r = None
                if r is not None:
                    got = r.docstring
                    if got != idp:
                        res['violations'].append(core.violation(
                            f'wrong-object/{sname}/{"+".join(g.split()[0] + ("-rel" if " ." in g else "") for g in generic)}',
                            f'in scope {sname} after {generic}: {path!r} resolves to {r.fullName()} ({got!r}) but Python binds it to {idp!r}', case))
                elif direct_must:
                    res['violations'].append(core.violation(
                        f'unresolved/{sname}/{"+".join(g.split()[0] + ("-rel" if " ." in g else "") for g in generic)}',
                        f'in scope {sname} after {generic}: {path!r} (Python: {idp!r}) must resolve (imported from its defining module / through a module alias) but does not', case))

            def walk(prefix: str, val: Any, depth: int, via_module_alias: bool, top_direct: bool) -> None:
                check(prefix, val, top_direct if depth == 1 else via_module_alias)
                if val is um:
                    return        # a path that re-enters the consumer's own module is an import cycle of length one: outside the acyclic family
                if depth < 3 and isinstance(val, (type, types.ModuleType)):
                    members = dict(vars(val))
                    if isinstance(val, type):
                        # attribute lookup on a class also finds what it inherits, along the MRO
                        for klass in val.__mro__[1:-1]:
                            for k, v in vars(klass).items():
                                members.setdefault(k, v)
                    for k, v in list(members.items()):
                        if k.startswith('__') or not ident(v) or v is um:
                            continue
                        # completeness through a module alias: the attribute must be DEFINED in that module
                        defined_here = isinstance(val, types.ModuleType) and getattr(v, '__module__', None) == val.__name__
                        walk(prefix + '.' + k, v, depth + 1, isinstance(val, types.ModuleType) and defined_here, top_direct)
            # (local name, defining module, original name) for names imported directly from the module that defines them
            import ast as _ast
            is_pkg = relfile.endswith('__init__.py')
            pkg = modname if is_pkg else modname.rsplit('.', 1)[0]
            direct_bindings = set()
            for st in sts:
                for node in _ast.walk(_ast.parse(st)):
                    if isinstance(node, _ast.ImportFrom):
                        base = node.module or ''
                        if node.level:
                            parts = pkg.split('.')
                            parts = parts[:len(parts) - (node.level - 1)]
                            base = '.'.join(parts + ([node.module] if node.module else []))
                        for al in node.names:
                            if al.name != '*':
                                direct_bindings.add((al.asname or al.name, base, al.name))
            # a star import from a module that defines __all__ binds exactly those names: the ones defined in that module are direct imports too
            for st in sts:
                for node in _ast.walk(_ast.parse(st)):
                    if isinstance(node, _ast.ImportFrom) and any(al.name == '*' for al in node.names):
                        base = node.module or ''
                        if node.level:
                            parts = pkg.split('.')
                            parts = parts[:len(parts) - (node.level - 1)]
                            base = '.'.join(parts + ([node.module] if node.module else []))
                        pym = sys.modules.get(base)
                        if pym is not None and hasattr(pym, '__all__'):
                            for nm in pym.__all__:
                                direct_bindings.add((nm, base, nm))
            # each name bound once per scope
            targets: List[str] = []
            for st in sts:
                for node in _ast.walk(_ast.parse(st)):
                    if isinstance(node, _ast.ImportFrom):
                        targets += [al.asname or al.name for al in node.names if al.name != '*']
                    elif isinstance(node, _ast.Import):
                        targets += [al.asname or al.name.split('.')[0] for al in node.names]
                    elif isinstance(node, _ast.Assign):
                        targets += [t.id for t in node.targets if isinstance(t, _ast.Name)]
            if len(stmt_idx) > 1 and len(targets) != len(set(targets)):
                core.bump(res, 'filtered_name_bound_twice')
                res['evals'] -= 1
                return
            bound = dict(vars(scope_py))
            for k, v in bound.items():
                if k.startswith('__') or k in ('Scope', 'Outer', 'Mid'):
                    continue
                if modname == pa and k in ('Rb', 'Ka', 'b', 's', 'c') and not scope_path and not any(k in st for st in sts):
                    continue      # pre-existing content of the package __init__
                # "imported directly from the defining module": a class/function whose __module__ is the module named in a from-import of this case
                direct = False
                if isinstance(v, (type, types.FunctionType)):
                    direct = (k, getattr(v, '__module__', None), getattr(v, '__name__', None)) in direct_bindings
                elif isinstance(v, types.ModuleType):
                    direct = True      # a module alias itself
                walk(k, v, 1, False, direct)
            # attributes that do not exist: a path that continues THROUGH a function or a variable denotes nothing in Python (AttributeError)
            probes = ['Kb', 'Kc', 'fb', 'fc', 'Ka', 'Kd', 'mb', 'mc']
            for k, v in bound.items():
                if k.startswith('__') or k in ('Scope', 'Outer', 'Mid'):
                    continue
                if isinstance(v, types.FunctionType) or (not isinstance(v, (type, types.ModuleType)) and not callable(v)):
                    for pr in probes:
                        if hasattr(v, pr):
                            continue
                        r = scope_pd.resolveName(f'{k}.{pr}')
                        if r is not None and isinstance(r.docstring, str) and r.docstring.startswith('ID:'):
                            res['violations'].append(core.violation(
                                f'resolves-nonexistent-attribute/{"function" if isinstance(v, types.FunctionType) else "variable"}',
                                f'in scope {sname} after {generic}: {k + "." + pr!r} resolves to {r.fullName()} although {k} is a {type(v).__name__} without such an attribute', case))
                            break
            # names pydoctor binds in this scope through imports although Python binds nothing there
            own_map = getattr(scope_pd, '_localNameToFullName_map', {})
            visible = set(bound) | (set(vars(um)) if scope_path else set())
            # judged only where Python's answer is static: star imports from modules that define __all__
            star_sources = {}
            for st in sts:
                for node in _ast.walk(_ast.parse(st)):
                    if isinstance(node, _ast.ImportFrom) and any(al.name == '*' for al in node.names):
                        base = node.module or ''
                        if node.level:
                            parts = pkg.split('.')
                            parts = parts[:len(parts) - (node.level - 1)]
                            base = '.'.join(parts + ([node.module] if node.module else []))
                        pym = sys.modules.get(base)
                        if pym is not None and hasattr(pym, '__all__'):
                            star_sources[base] = set(pym.__all__)
            for k in sorted(own_map):
                if k in visible or k.startswith('_'):
                    continue
                src_mod = own_map[k].rsplit('.', 1)[0] if '.' in own_map[k] else ''
                if src_mod not in star_sources or k in star_sources[src_mod]:
                    continue
                r = scope_pd.resolveName(k)
                if r is not None and isinstance(r.docstring, str) and r.docstring.startswith('ID:'):
                    res['violations'].append(core.violation(
                        f'resolves-unbound-name/{sname}/{"+".join(g.split()[0] + ("-star" if "*" in g else "") for g in generic)}',
                        f'in scope {sname} after {generic}: {k!r} resolves to {r.fullName()} although Python binds no such name there', case))
            if checked:
                res['nontrivial'].add(core.h(scope_idx, tuple(stmt_idx)))
            if len(res['samples']) < 2 and checked > 2:
                res['samples'].append({'scope': sname, 'statements': generic, 'paths_checked': checked})
            core.bump(res, 'paths_checked', checked)
        finally:
            sys.path.remove(str(d))
            for k in [k for k in sys.modules if k.split('.')[0] in (pa, pa + '2', qa)]:
                del sys.modules[k]
            importlib.invalidate_caches()


def jobs(tier: str) -> Iterable[Tuple[str, Any]]:
    n = len(statements('a', 'b'))
    ns = len(scopes('a', 'b'))
    for sc in range(ns):
        yield ('singles', ('single', sc))
    if tier == 'thorough':
        for sc in range(ns):
            for i in range(n):
                yield ('pairs', ('pair', sc, i))


def run_job(job: Any, tier: str) -> Dict[str, Any]:
    res = core.result()
    n = len(statements('a', 'b'))
    if job[0] == 'single':
        for i in range(n):
            run_case(f'{job[1]}x{i}', job[1], [i], res)
    else:
        _, sc, i = job
        # a name that shadows a sub-module is judged alone: any other import of that sub-module re-binds it dynamically
        shadow = {k for k, st in enumerate(statements('PA', 'QA')) if st.endswith((' as b', ' as s', ' as d'))}
        for j in range(n):
            if j != i and not ({i, j} & shadow):
                run_case(f'{sc}x{i}x{j}', sc, [i, j], res)
    return res


def replay(case: Dict[str, Any]) -> List[Dict[str, Any]]:
    res = core.result()
    run_case('rp' + 'x'.join(map(str, [case['scope']] + case['stmts'])), case['scope'], case['stmts'], res)
    return res['violations']
