"""C16 - warnings point at the right place and every reported problem is counted.

Problems (unresolvable cross-reference, markup error, unknown field, documented parameter that does not exist) are planted at
known physical lines: owner {module, class, function, method, attribute} x docformat x layout {text on the opening line | below;
0/1/2 leading blank lines; whitespace-only leading line; trailing blanks after the quotes; nesting 0/1/2; raw string; decorator}
x position {first / second line of first paragraph, second paragraph, list item, field body} x vertical offset {0, 1, 3}.
Each module holds exactly one problem, 20 modules per driver run (attribution by file name).  Oracle: every line reported for
the file satisfies block_start <= n <= problem_line (epytext, reST) or lies inside the docstring (google, numpy); the same case moved
down by k reports n + k; exit status: with -W 3 iff something was reported, without 2 iff a markup error / unparsable displayed
expression exists, else 0.
"""
from __future__ import annotations

import itertools
import re
from typing import Any, Dict, Iterable, List, Optional, Sequence, Tuple

from mc import core, pd

ID = 'C16'
LEVEL = 'exploration'
RULE = ('problem kind x owner x docformat x layout x position x offset, one module per case, 20 modules per full driver run with -W; '
        'non-trivial = the planted problem was reported at all (so the line oracle applies); distinct = distinct generated module sources; '
        'exit-status cases are separate single-problem runs with and without -W')
ASSUMPTIONS = [
    'ground truth is the physical line of the planted text in the generated source; block starts are known by construction',
    'message wording and order are not judged; for google/numpy only "inside the docstring" is demanded',
]
FLOOR = {'quick': 1500, 'thorough': 8000}
SPACE = {'quick': 'offsets {0,3}, nesting {0,1}: ~6 000 modules; 60 exit-status runs', 'thorough': 'offsets {0,1,3}, nesting {0,1,2}, all layouts: ~25 000 modules'}
JOB_TIMEOUT = 2300

PROB = {
    'epytext': {'xref': 'L{nopeX}', 'markup': 'B{unclosedX', 'field': '@fooX: bar', 'param': '@param zzX: nothing', 'retonly': '@return: the L{zzX} thing'},
    'restructuredtext': {'xref': '`nopeX`', 'markup': ':bogusX:`role`', 'field': ':fooX: bar', 'param': ':param zzX: nothing',
                         # consolidated fields: a bullet list / a definition list of parameters, one of which does not exist
                         'consparam': ':Parameters:\n    - `a`: the a\n    - `zzX`: nothing', 'consdefparam': ':Parameters:\n    a : int\n        the a\n    zzX : int\n        nothing',
                         'retonly': ':return: the `zzX` thing'},
    'google': {'xref': '`nopeX`', 'param': 'Args:\n    zzX: nothing'},
    'numpy': {'xref': '`nopeX`', 'param': 'Parameters\n----------\nzzX: int\n    nothing', 'typexref': 'Parameters\n----------\na: zzX\n    the a', 'rtypexref': 'Returns\n-------\nzzX\n    the result'},
    # --process-types: the names in type fields are cross-references of their own (google and numpy always work that way)
    'epytext+pt': {'typexref': '@param a: the a\n@type a: zzX', 'rtypexref': '@return: the result\n@rtype: zzX'},
    'restructuredtext+pt': {'typexref': ':param a: the a\n:type a: zzX', 'rtypexref': ':return: the result\n:rtype: zzX'},
}
PROB['google'].update({'typexref': 'Args:\n    a (zzX): the a', 'rtypexref': 'Returns:\n    zzX: the result'})
POSITIONS = ['p1l1', 'p1l2', 'p2', 'li', 'fb', 'sections', 'after-linesep', 'directive-body', 'directive-arg', 'directive-body-line2']
OWNERS = ['module', 'class', 'function', 'method', 'attribute', 'inherited', 'reexported', 'classfield', 'classfield+inline', 'typefield+inline', 'ivar-two-sites', 'attr-redefined', 'classtypefield', 'modvarfield', 'modtypefield', 'class-redefined', 'function-redefined', 'class-redefined-both-bad', 'inherited-rendered-first', 'doc-assigned-class', 'property']
# (text on the opening line, leading lines below the quotes)
LAYOUTS: List[Tuple[bool, List[str]]] = [(True, []), (False, []), (False, ['']), (False, ['', '']), (False, ['WS']), (False, ['TRAIL'])]


def body_for(fmt: str, kind: str, pos: str) -> Optional[Tuple[List[str], int, int]]:
    """returns (body lines, index of the line with the problem, index of the start of its block) or None if not applicable"""
    p = PROB[fmt].get(kind)
    if p is None:
        return None
    p = p.replace('X', '1')
    fmt = fmt.split('+')[0]
    if kind == 'retonly':
        # the docstring consists of the field alone (what a property's docstring often is)
        if pos != 'p1l1':
            return None
        return [p], 0, 0
    if kind in ('field', 'param', 'typexref', 'rtypexref', 'consparam', 'consdefparam'):
        if pos != 'p1l1':
            return None
        pl = p.split('\n')
        body = ['Intro para.', ''] + pl
        # the marker line
        idx = next(i for i, l in enumerate(body) if ('foo1' in l or 'zz1' in l))
        start = 2
        return body, idx, (idx if fmt in ('epytext', 'restructuredtext') else start)
    li_ind = '  ' if fmt == 'epytext' else ''
    if pos == 'p1l1':
        return ['Para one ' + p + ' end', 'second line.', '', 'Para two.'], 0, 0
    if pos == 'p1l2':
        return ['Para one', 'second line ' + p + ' end.', '', 'Para two.'], 1, 0
    if pos == 'p2':
        return ['Para one.', '', 'Para two ' + p + ' end.'], 2, 2
    if pos == 'li':
        if fmt in ('google', 'numpy'):
            return None
        return ['Para one.', '', f'{li_ind}- item one', f'{li_ind}- item two ' + p + ' end', '', 'After.'], 3, 3
    if pos.startswith('directive'):
        # reST version directives (also reached from google / numpy): problem in the inline argument, in the first and in the second line of the body
        if fmt == 'epytext':
            return None
        if pos == 'directive-arg':
            return ['Para one.', '', '.. versionchanged:: 1.2 now ' + p + ' end', '', 'After.'], 2, 2
        if pos == 'directive-body':
            return ['Para one.', '', '.. deprecated:: 1.0', '   use ' + p + ' instead', '', 'After.'], 3, 2
        return ['Para one.', '', '.. note::', '   first line of the note', '   second line ' + p + ' end', '', 'After.'], 4, 2
    if pos == 'after-linesep':
        # characters that some text APIs treat as line boundaries (U+2028, U+2029, NEL, FS/GS/RS, VT, FF) but that do not end a physical source line
        return ['Para one with odd \u2028 separators \u2029 and \x85 and \x1c \x1d \x1e here.', '', 'Para two ' + p + ' end.'], 2, 2
    if pos == 'sections':
        # the problem sits in the last of several sections, after typed entries (which the napoleon formats expand into several fields)
        if fmt == 'google':
            return ['Para one.', '', 'Args:', '    a (int): first', '    b (str): second', '    c (float): third', '', 'Returns:', '    int: value ' + p + ' end'], 8, 0
        if fmt == 'numpy':
            return ['Para one.', '', 'Parameters', '----------', 'a : int', '    first', 'b : str', '    second', '', 'Returns', '-------', 'int', '    value ' + p + ' end'], 12, 0
        return None
    if pos == 'fb':
        if fmt in ('google', 'numpy'):
            return None
        tag = '@param a:' if fmt == 'epytext' else ':param a:'
        return ['Para one.', '', f'{tag} body', '    continued ' + p + ' end'], 3, 2
    return None


def module_source(owner: str, fmt: str, kind: str, pos: str, layout: Tuple[bool, List[str]], nest: int, raw: bool, deco: bool, k: int) -> Optional[Tuple[str, int, int, Tuple[int, int]]]:
    b = body_for(fmt, kind, pos)
    if b is None:
        return None
    body, pidx, sidx = b
    ATTRS = ('attribute', 'typefield+inline', 'ivar-two-sites', 'attr-redefined')
    if owner in ('class-redefined', 'function-redefined', 'class-redefined-both-bad') and (nest or raw or layout[1] not in ([], ['']) or kind == 'param' or pos == 'fb'):
        return None
    fmt = fmt.split('+')[0]
    if kind in ('param', 'consparam', 'consdefparam') and owner in ('module', 'class', 'property') + ATTRS:
        return None
    if kind == 'retonly' and owner not in ('function', 'method', 'property'):
        return None
    if owner == 'property' and (kind in ('typexref', 'rtypexref') or pos == 'fb'):
        return None
    if kind in ('typexref', 'rtypexref', 'consparam', 'consdefparam') and owner not in ('function', 'method', 'inherited', 'reexported', 'function-redefined', 'inherited-rendered-first'):
        return None
    if pos == 'fb' and owner in ('module', 'class') + ATTRS:
        return None
    if owner in ATTRS[1:] and fmt in ('google', 'numpy'):
        return None
    if owner in ('inherited', 'inherited-rendered-first', 'reexported', 'classfield', 'classfield+inline') + ATTRS[1:] and (nest or raw or layout[1] not in ([], [''])):
        return None          # these owners vary the location of the object, not the layout of the literal
    if owner in ('classtypefield', 'modvarfield', 'modtypefield'):
        # the problem sits in the body of a field of the class / module docstring that documents (the type of) the variable q
        if kind != 'xref' or pos != 'p2' or fmt in ('google', 'numpy') or nest or raw or layout[1] not in ([], ['']):
            return None
        p_ = PROB[fmt]['xref'].replace('X', '1')
        tagname = {'classtypefield': 'type', 'modvarfield': 'var', 'modtypefield': 'type'}[owner]
        tag = f'@{tagname} q:' if fmt == 'epytext' else f':{tagname} q:'
        body, pidx, sidx = ['Para one.', '', f'{tag} the q {p_} end'], 2, 2
    if owner.startswith('classfield'):
        # the problem sits in the body of an @ivar field of the class docstring, which documents the attribute q
        if kind != 'xref' or pos != 'p2' or fmt in ('google', 'numpy'):
            return None
        p_ = PROB[fmt]['xref'].replace('X', '1')
        tag = '@ivar q:' if fmt == 'epytext' else ':ivar q:'
        body, pidx, sidx = ['Para one.', '', f'{tag} the q {p_} end'], 2, 2
    first_on_open, lead = layout
    q = ('r' if raw else '') + '"""'

    def doc(ind: str) -> Tuple[List[str], int]:
        L: List[str] = []
        if first_on_open:
            L.append(ind + q + body[0])
            rest = body[1:]
            off = 0
        else:
            opening = ind + q
            leadlines = []
            for x in lead:
                if x == 'TRAIL':
                    opening += '  '
                elif x == 'WS':
                    leadlines.append(ind + '    ')
                else:
                    leadlines.append('')
            L.append(opening)
            L += leadlines
            rest = body
            off = len(L)
        L += [(ind + l if l else '') for l in rest]
        L.append(ind + '"""')
        return L, (0 if first_on_open else off)
    lines: List[str] = [''] * k
    ind = '    ' * nest
    pre = [('    ' * i + f'class N{i}:') for i in range(nest)]
    if owner in ('modvarfield', 'modtypefield'):
        d, off = doc('')
        base = len(lines)
        lines += d + ['q = 1']
    elif owner == 'module':
        if nest:
            return None
        d, off = doc('')
        base = len(lines)
        lines += d + ['x = 1']
    elif owner in ('class', 'classfield', 'classfield+inline', 'classtypefield'):
        d, off = doc(ind + '    ')
        lines += pre + [ind + 'class K:']
        base = len(lines)
        lines += d + [ind + '    def __init__(self, a): pass']
        if owner in ('classfield', 'classtypefield'):
            lines += [ind + '    q = 1']
        elif owner == 'classfield+inline':
            lines += [ind + '    q = 1', ind + '    """inline docstring of q"""']
    elif owner == 'function':
        d, off = doc(ind + '    ')
        lines += pre + ([ind + ('@staticmethod' if nest else '@deco')] if deco else []) + [ind + ('def f(a):' if (not nest or deco) else 'def f(self, a):')]
        base = len(lines)
        lines += d + [ind + '    pass']
    elif owner == 'property':
        d, off = doc(ind + '        ')
        lines += pre + [ind + 'class K:', ind + '    "class docstring, fine"', ind + '    x = 1', ind + '    @property', ind + '    def p(self):']
        base = len(lines)
        lines += d + [ind + '        return 1']
    elif owner in ('method', 'inherited', 'inherited-rendered-first'):
        d, off = doc(ind + '        ')
        lines += pre + [ind + 'class K:', ind + '    def m(self, a):']
        base = len(lines)
        lines += d + [ind + '        pass']
        if owner == 'inherited':
            # the docstring is shown again on an overriding method without docstring, here and in a companion module
            lines += ['class Sub(K):', '    def m(self, a):', '        pass']
    elif owner == 'class-redefined':
        # the name is defined twice: the documentation shown is the second definition's, whose problems must be reported
        d, off = doc('    ')
        lines += ['class K:', '    "first definition"', '    def m(self): pass', 'class K:']
        base = len(lines)
        lines += d + ['    def m(self): pass']
    elif owner == 'class-redefined-both-bad':
        # both definitions have a faulty docstring: the first one's report must not swallow the second one's
        if 'markup' not in PROB[fmt]:
            return None
        d, off = doc('    ')
        bad0 = PROB[fmt]['markup'].replace('X', '0')
        lines += ['class K:', f'    """First definition {bad0} end."""', '    def m(self): pass', 'class K:']
        base = len(lines)
        lines += d + ['    def m(self): pass']
    elif owner in ('doc-assigned-class', 'doc-assigned-module'):
        # the docstring is assigned after the definition, in the same module: the text at fault is the assigned string literal
        if nest or raw or kind in ('param', 'typexref', 'rtypexref', 'field'):
            return None
        d, off = doc('')
        if owner == 'doc-assigned-class':
            lines += ['class K:', '    "first docstring, fine"', '    def m(self): pass', 'x = 1']
            d[0] = 'K.__doc__ = ' + d[0]
        else:
            lines += ['"module docstring, fine"', 'x = 1']
            d[0] = '__doc__ = ' + d[0]
        base = len(lines)
        lines += d
    elif owner == 'function-redefined':
        d, off = doc('    ')
        lines += ['def f(a):', '    "first definition"', 'def f(a):']
        base = len(lines)
        lines += d + ['    pass']
    elif owner == 'typefield+inline':
        # the type of q comes from a field of the class docstring (an earlier line record), its documentation from its own inline docstring
        d, off = doc(ind + '    ')
        tag = '@type q: C{int}' if fmt == 'epytext' else ':type q: int'
        lines += pre + [ind + 'class K:', ind + '    """', ind + '    Class doc.', '', ind + '    ' + tag, ind + '    """', ind + '    q = 1']
        base = len(lines)
        lines += d
    elif owner == 'ivar-two-sites':
        # an instance variable documented at two assignment sites: the docstring shown is the last one
        d, off = doc(ind + '        ')
        lines += pre + [ind + 'class K:', ind + '    def __init__(self):', ind + '        self.q = 1', ind + '        """first docstring of q"""', ind + '    def other(self):', ind + '        self.q = 2']
        base = len(lines)
        lines += d
    elif owner == 'attr-redefined':
        d, off = doc(ind)
        lines += pre + [ind + 'v = 0', ind + '"""first docstring of v"""', ind + 'other = 2', ind + 'v = 1']
        base = len(lines)
        lines += d
    elif owner == 'reexported':
        d, off = doc('    ')
        lines += ['def REEXPORTED(a):']
        base = len(lines)
        lines += d + ['    pass']
    else:
        d, off = doc(ind)
        lines += pre + [ind + 'v = 1']
        base = len(lines)
        lines += d
    # context shared by every case: annotated module-level objects (their annotations are rendered through the module's own linker)
    lines += ['def zz_ctx(a: int = 1) -> str:', '    pass', 'zz_var: int = 0']
    src = '\n'.join(lines) + '\n'
    # physical 1-based lines
    first_body_line = base + 1 + (0 if first_on_open else off)
    problem_line = first_body_line + pidx
    block_start = first_body_line + sidx
    extent = (base + 1, base + len(d))
    return src, problem_line, block_start, extent


def cases(tier: str) -> Iterable[Tuple[Any, ...]]:
    offsets = (0, 3) if tier == 'quick' else (0, 1, 3)
    nests = (0, 1) if tier == 'quick' else (0, 1, 2)
    for fmt in PROB:
        for kind in PROB[fmt]:
            for owner in OWNERS:
                for pos in POSITIONS:
                    for li, layout in enumerate(LAYOUTS):
                        for nest in nests:
                            for raw in (False, True):
                                for deco in ((False, True) if owner == 'function' else (False,)):
                                    if tier == 'quick' and raw and (nest or li in (2, 3)):
                                        continue
                                    ok = module_source(owner, fmt, kind, pos, layout, nest, raw, deco, 0)
                                    if ok is None:
                                        continue
                                    yield (fmt, kind, owner, pos, li, nest, raw, deco, offsets)


def run_batch(fmt: str, batch: Sequence[Tuple[Any, ...]], res: Dict[str, Any]) -> None:
    files: Dict[str, str] = {'pk/__init__.py': ''}
    meta: Dict[str, Tuple[Any, ...]] = {}
    reexports: List[str] = []
    n = 0
    for (f, kind, owner, pos, li, nest, raw, deco, offsets) in batch:
        for k in offsets:
            ms = module_source(owner, f, kind, pos, LAYOUTS[li], nest, raw, deco, k)
            assert ms is not None
            src, pl, bs, ext = ms
            name = f'm{n:03d}'
            n += 1
            if owner == 'reexported':
                src = src.replace('REEXPORTED', f'f_{name}')
                files['pk/__init__.py'] += f'from .{name} import f_{name}\n'
                reexports.append(f'f_{name}')
            if owner == 'inherited':
                files[f'pk/x{name}.py'] = f'from .{name} import K\nclass Other(K):\n    def m(self, a):\n        pass\n'
            if owner == 'inherited-rendered-first':
                # the inheriting class lives in a module whose page is written BEFORE the page of the defining class
                files[f'pk/a{name}.py'] = f'from .{name} import K\nclass Early(K):\n    def m(self, a):\n        pass\n'
            files[f'pk/{name}.py'] = src
            meta[name] = (kind, owner, pos, li, nest, raw, deco, k, pl, bs, ext, src)
    if reexports:
        files['pk/__init__.py'] += '__all__ = ' + repr(reexports) + '\n'
    pseudo = fmt
    with pd.cli_run(files, ['--docformat', fmt.split('+')[0], '-W'] + (['--process-types'] if fmt.endswith('+pt') else []), roots=['pk']) as r:
        if r.exc or r.status not in (0, 2, 3):
            res['violations'].append(core.violation(f'run-failed/{r.exc_type}@{r.exc_site}', f'driver failed: {r.exc_type} {r.status}', {'kind': 'batch', 'fmt': fmt, 'batch': [list(b) for b in batch]}))
            return
        rep: Dict[str, List[Tuple[str, str]]] = {}
        for line in r.lines():
            m = re.match(r'<R>/pk/(m\d+)\.py:(\d+|\?\?\?): (.*)', line)
            if m:
                rep.setdefault(m.group(1), []).append((m.group(2), m.group(3)))
                continue
            m = re.match(r'<R>/pk/([xa](m\d+)|__init__)\.py:(\d+|\?\?\?): (.*)', line)
            if m:
                # a file that contains no docstring at fault: the companion module of an inherited docstring or the re-exporting __init__
                which = 'inheriting-module' if m.group(2) else 're-exporting-module'
                res['violations'].append(core.violation(f'wrong-file/{fmt}/{which}', f'a problem is reported against {m.group(1)}.py, which contains no docstring at fault: {line}',
                                                        {'kind': 'batch', 'fmt': fmt, 'batch': [list(b) for b in batch]}))
        anyline = bool(rep)
        if (r.status == 3) != anyline:
            res['violations'].append(core.violation('status/with-W', f'-W run: status {r.status} but {"some" if anyline else "no"} problem lines were printed',
                                                    {'kind': 'batch', 'fmt': fmt, 'batch': [list(b) for b in batch]}))
    by_case: Dict[Tuple[Any, ...], Dict[int, List[int]]] = {}
    for name, (kind, owner, pos, li, nest, raw, deco, k, pl, bs, ext, src) in meta.items():
        res['evals'] += 1
        got = rep.get(name, [])
        if owner == 'class-redefined-both-bad':
            # the file holds a second, deliberate problem in the first definition (line k + 2): it is judged by the other owners, not here
            got = [(ln, msg) for ln, msg in got if ln != str(k + 2)]
        case = {'kind': 'module', 'fmt': fmt, 'pkind': kind, 'owner': owner, 'pos': pos, 'layout': li, 'nest': nest, 'raw': raw, 'deco': deco, 'k': k}
        label = f'{fmt}/{kind}/{owner}'
        laydesc = ['open', 'below', 'lead1', 'lead2', 'ws-line', 'trailing-blanks'][li]
        if not got:
            res['violations'].append(core.violation(f'problem-not-reported/{label}', f'{kind} planted at line {pl} of a {owner} docstring ({fmt}, layout {laydesc}, position {pos}) is not reported:\n{src}', case))
            continue
        res['nontrivial'].add(core.h(src))
        nums: List[int] = []
        for ln, msg in got:
            if not ln.isdigit():
                res['violations'].append(core.violation(f'line-unknown/{label}', f'{kind} in {owner} ({fmt}): reported without a line number: {msg}', case))
                continue
            nline = int(ln)
            nums.append(nline)
            lo, hi = (bs, pl) if fmt.split('+')[0] in ('epytext', 'restructuredtext') else ext
            if not (lo <= nline <= hi):
                rel = 'before' if nline < lo else 'after'
                # google / numpy: only "inside the docstring" is demanded, so owner and layout of the literal do not select different behaviour
                wsig = (f'wrong-line/{fmt}/{kind}/{rel}/after-linesep' if pos == 'after-linesep' else
                        f'wrong-line/{fmt}/{kind}/{rel}/{pos}' if pos.startswith('directive') else
                        f'wrong-line/{fmt}/{kind}/{rel}-the-docstring/{pos}' if fmt in ('google', 'numpy')
                        else f'wrong-line/{label}/{rel}/{laydesc}' + ('/' + pos if pos in ('li', 'fb') else ''))
                res['violations'].append(core.violation(wsig,
                                                        f'{kind} planted at line {pl} (block starts at {bs}) of a {owner} docstring ({fmt}, layout {laydesc}, position {pos}, nest {nest}, raw {raw}): reported at {nline}: {msg}\n{src}', case))
        by_case.setdefault((kind, owner, pos, li, nest, raw, deco), {})[k] = sorted(nums)
        res['outcomes'].add((fmt, kind, len(got)))
    for key, byk in by_case.items():
        if 0 in byk:
            for k, nums in byk.items():
                if k and [x + k for x in byk[0]] != nums:
                    res['violations'].append(core.violation(f'shift/{fmt}/{key[0]}/{key[1]}', f'case {key} ({fmt}): lines {byk[0]} at offset 0 but {nums} at offset {k}',
                                                            {'kind': 'shift', 'fmt': fmt, 'key': list(key), 'k': k}))
    if len(res['samples']) < 2 and meta:
        name = sorted(meta)[len(meta) // 2]
        res['samples'].append({'docformat': fmt, 'source': meta[name][-1], 'problem_line': meta[name][8], 'block_start': meta[name][9], 'reported': rep.get(name)})


# ---- exit statuses (single-problem runs)

# markup the parser only WARNS about (it recovers and goes on): still a docstring that "could not be parsed" as written - reported, and counted
WARN_DOCS = {
    'epytext': {'warn:malformed-field': 'Text.\n\n@param a b c', 'warn:field-space': 'Text.\n\n@ param a: x', 'warn:indentation': 'Text\n  - item\n continued oddly'},
    'restructuredtext': {'warn:emphasis': 'Text *unclosed emphasis here.', 'warn:strong': 'Text **unclosed strong.', 'warn:short-underline': 'Title\n==\n\ntext', 'warn:list-end': '- item\ntext after'},
    'google': {'warn:emphasis': 'Text *unclosed emphasis.', 'warn:list-end': 'Text.\n\n- item\ntext after'},
    'numpy': {'warn:strong': 'Text **unclosed.', 'warn:short-underline': 'Text.\n\nTitle\n==\n\ntext'},
}


def status_cases() -> Iterable[Tuple[str, str, str]]:
    for fmt in WARN_DOCS:
        for kind in WARN_DOCS[fmt]:
            yield (fmt, kind, '')
        yield (fmt, 'clean', '')
        if 'markup' in PROB[fmt]:
            for shape in ('class', 'class-in-if', 'function', 'method'):
                yield (fmt, 'superseded:' + shape, '')
        for kind in PROB[fmt]:
            if kind in ('xref', 'markup', 'field', 'param'):
                yield (fmt, kind, '')
        yield (fmt, 'markup+xref', '') if 'markup' in PROB[fmt] else (fmt, 'clean2', '')


def run_status(fmt: str, kind: str, res: Dict[str, Any]) -> None:
    if kind in ('clean', 'clean2'):
        src = 'def f(a):\n    """Fine docstring."""\n'
        fatal = False
        any_problem = False
    elif kind == 'bad-annotation':
        src = 'def f(a: "(") -> int:\n    """Fine."""\n'
        fatal = True
        any_problem = True
    elif kind.startswith('warn:'):
        src = 'def f(a):\n    """\n' + ''.join('    ' + l + '\n' for l in WARN_DOCS[fmt][kind].split('\n')) + '    """\n'
        fatal = True        # reported as a bad docstring: counted like one
        any_problem = True
    elif kind.startswith('superseded:'):
        # the faulty docstring belongs to a definition that a later one of the same name supersedes: reported all the same, hence counted
        bad = PROB[fmt]['markup'].replace('X', '7')
        shape = kind.split(':')[1]
        if shape == 'class':
            src = f'class K:\n    """First {bad} end."""\n    def m(self): pass\nclass K:\n    """Second, fine."""\n'
        elif shape == 'class-in-if':
            src = f'if True:\n    class K:\n        """First {bad} end."""\nelse:\n    pass\nif True:\n    class K:\n        """Second, fine."""\n'
        elif shape == 'function':
            src = f'def f(a):\n    """First {bad} end."""\ndef f(a):\n    """Second, fine."""\n'
        else:
            src = f'class C:\n    def m(self):\n        """First {bad} end."""\n    def m(self):\n        """Second, fine."""\n'
        fatal = True
        any_problem = False      # whether it is reported at all is not this case's question: IF it is reported it must be counted
    elif kind == 'markup+xref':
        b = body_for(fmt, 'markup', 'p2')
        assert b
        src = 'def f(a):\n    """\n' + ''.join('    ' + l + '\n' for l in b[0]) + '\n    ' + PROB[fmt]['xref'].replace('X', '2') + '\n    """\n'
        fatal = True
        any_problem = True
    else:
        ms = module_source('function', fmt, kind, 'p1l1' if kind in ('field', 'param') else 'p2', LAYOUTS[1], 0, False, False, 0)
        assert ms
        src = ms[0]
        fatal = kind == 'markup'
        any_problem = True
    for W in (True, False):
        res['evals'] += 1
        with pd.cli_run({'pk/__init__.py': '', 'pk/m.py': src}, ['--docformat', fmt] + (['-W'] if W else []), roots=['pk']) as r:
            lines = [l for l in r.lines() if re.match(r'<R>/pk/m\.py:', l)]
            case = {'kind': 'status', 'fmt': fmt, 'skind': kind}
            if r.exc:
                res['violations'].append(core.violation(f'run-failed/{r.exc_type}@{r.exc_site}', 'driver failed', case))
                continue
            if any_problem and not lines:
                res['violations'].append(core.violation(f'problem-not-reported/{fmt}/{kind}/status-run', f'{kind} ({fmt}) not reported', case))
            exp = (3 if lines else 0) if W else (2 if fatal else 0)
            if kind.startswith('superseded:') and not W:
                exp = 2 if any('bad docstring' in l for l in lines) else 0
            if W and fatal and not lines and not kind.startswith('superseded:'):
                exp = 2
            if r.status != exp:
                res['violations'].append(core.violation(f'status/{"with-W" if W else "without-W"}/{kind}', f'{fmt} {kind}: status {r.status}, expected {exp} ({len(lines)} problem lines, fatal={fatal})', case))
            res['nontrivial'].add(core.h('status', fmt, kind, W))


def jobs(tier: str) -> Iterable[Tuple[str, Any]]:
    allc: Dict[str, List[Tuple[Any, ...]]] = {}
    for c in cases(tier):
        allc.setdefault(c[0], []).append(c)
    per = 10 if tier == 'quick' else 7
    for fmt, cs in allc.items():
        for i in range(0, len(cs), per * 8):
            yield ('lines', ('batch', fmt, tier, i, i + per * 8, per))
    yield ('exit-statuses', ('status',))


def run_job(job: Any, tier: str) -> Dict[str, Any]:
    res = core.result()
    if job[0] == 'batch':
        _, fmt, t, lo, hi, per = job
        cs = [c for c in cases(t) if c[0] == fmt][lo:hi]
        for i in range(0, len(cs), per):
            run_batch(fmt, cs[i:i + per], res)
    else:
        for fmt, kind, _ in status_cases():
            run_status(fmt, kind, res)
    return res


def replay(case: Dict[str, Any]) -> List[Dict[str, Any]]:
    res = core.result()
    if case['kind'] == 'module':
        c = (case['fmt'], case['pkind'], case['owner'], case['pos'], case['layout'], case['nest'], case['raw'], case['deco'], (0, case['k']) if case['k'] else (0,))
        run_batch(case['fmt'], [c], res)
    elif case['kind'] == 'shift':
        key = case['key']
        c = (case['fmt'], key[0], key[1], key[2], key[3], key[4], key[5], key[6], (0, case['k']))
        run_batch(case['fmt'], [c], res)
    elif case['kind'] == 'status':
        run_status(case['fmt'], case['skind'], res)
    elif case['kind'] == 'batch':
        run_batch(case['fmt'], [tuple(b[:8]) + (tuple(b[8]),) for b in case['batch']], res)
    return res['violations']
