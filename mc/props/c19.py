"""C19 - visitor extensions see a balanced, ordered walk whatever the main visitor prunes.

Part 1 (walk protocol): every ordered rooted tree up to N nodes x every assignment of a
pruning action {none, SkipChildren, SkipSiblings, SkipNode, SkipDeparture} to each node
(raised by the MAIN visitor in visit) x every set of extension timings (all 16 subsets of
{BEFORE, AFTER, INNER, OUTTER} + the four two-of-a-kind sets), for walkabout() and walk().
Oracle: invariants read off the property statement + an executable reading of the
documented contract (reference event list).  The explicit state graph of the walk protocol
(state = stack of currently entered (visitor, node, action) frames) is accumulated.

Part 2 (real builder): for every module of the statement alphabet x placements the
ASTBuilder's scope stack is empty after processModuleAST.
"""
from __future__ import annotations

import itertools
from typing import Any, Dict, Iterable, Iterator, List, Optional, Sequence, Tuple

from mc import core, pd, alphabet

ID = 'C19'
LEVEL = 'model_checking'
RULE = ('every ordered tree <= N nodes x every pruning action per node x every extension timing set, executed by the real '
        'Visitor.walkabout/walk; a walk is non-trivial when at least one pruning action fires on a visited node and at least one '
        'extension is registered; all cases are distinct by construction; builder part: every alphabet module x placement')
ASSUMPTIONS = [
    'pruning exceptions are raised by the main visitor inside visit_*() only (the statement does not cover extensions or depart_*() raising)',
    'the reference event list is an executable reading of the docstrings of pydoctor/visitor.py',
]
FLOOR = {'quick': 5000, 'thorough': 50000}
SPACE = {'quick': 'trees<=4 nodes (9 shapes) x 6^n actions x 20 timing sets x {walkabout, walk}; builder: alphabet x 6 placements, builder at rest AND the events seen by a recording extension of each timing obey stack discipline',
         'thorough': 'trees<=5 nodes (23 shapes) x 5^n actions x 20 timing sets x {walkabout, walk}; builder: alphabet x 6 placements + all ordered pairs of the collision subset'}

ACTS = [None, 'SkipChildren', 'SkipSiblings', 'SkipNode', 'SkipDeparture', 'depart:SkipSiblings']      # the last one is raised from the main visitor's depart method
TIMINGS = ['BEFORE', 'AFTER', 'INNER', 'OUTTER']


def trees(n: int) -> Iterator[tuple]:
    """ordered rooted trees with n nodes as nested tuples"""
    if n == 1:
        yield ()
        return

    def forests(m: int) -> Iterator[tuple]:
        if m == 0:
            yield ()
            return
        for k in range(1, m + 1):
            for t in trees(k):
                for rest in forests(m - k):
                    yield (t,) + rest
    yield from forests(n - 1)


def timing_sets() -> List[Tuple[str, ...]]:
    out: List[Tuple[str, ...]] = []
    for r in range(0, 5):
        out.extend(itertools.combinations(TIMINGS, r))
    out.extend((t, t) for t in TIMINGS)
    return out


class N:
    __slots__ = ('name', 'ch', 'act', 'depth')

    def __init__(self, name: str, depth: int) -> None:
        self.name, self.ch, self.act, self.depth = name, [], None, depth


def build(t: tuple, counter: Iterator[int], depth: int = 0) -> N:
    node = N(f'n{next(counter)}', depth)
    for c in t:
        node.ch.append(build(c, counter, depth + 1))
    return node


def nodes(n: N) -> Iterator[N]:
    yield n
    for c in n.ch:
        yield from nodes(c)


def reference(root: N, tags: Sequence[Tuple[str, str]], departures: bool) -> List[Tuple[str, str, str]]:
    """The documented contract as an event list.  tags = [(tag, timing)] in registration order."""
    ev: List[Tuple[str, str, str]] = []

    def enter(n: N) -> None:
        for w in ('BEFORE', 'OUTTER'):
            for tag, tw in tags:
                if tw == w:
                    ev.append((tag, '+', n.name))
        ev.append(('main', '+', n.name))
        for w in ('AFTER', 'INNER'):
            for tag, tw in tags:
                if tw == w:
                    ev.append((tag, '+', n.name))

    def leave(n: N, main: bool) -> None:
        for w in ('BEFORE', 'INNER'):
            for tag, tw in tags:
                if tw == w:
                    ev.append((tag, '-', n.name))
        if main:
            ev.append(('main', '-', n.name))
        for w in ('AFTER', 'OUTTER'):
            for tag, tw in tags:
                if tw == w:
                    ev.append((tag, '-', n.name))

    def walk(n: N) -> bool:
        enter(n)
        a = n.act
        if a not in ('SkipChildren', 'SkipNode'):
            for c in n.ch:
                if walk(c):
                    break
        if departures:
            leave(n, a not in ('SkipNode', 'SkipDeparture'))
        return a == 'SkipSiblings' or (a == 'depart:SkipSiblings' and departures)
    walk(root)
    return ev


def execute(tree: tuple, acts: Sequence[Optional[str]], ts: Sequence[str], method: str):
    from pydoctor import visitor
    root = build(tree, itertools.count())
    allnodes = list(nodes(root))
    for node, a in zip(allnodes, acts):
        node.act = a
    log: List[Tuple[str, str, str]] = []

    class Main(visitor.Visitor):  # type: ignore
        def unknown_visit(s, ob: N) -> None:
            log.append(('main', '+', ob.name))
            if ob.act and not ob.act.startswith('depart:'):
                raise getattr(s, ob.act)()

        def unknown_departure(s, ob: N) -> None:
            log.append(('main', '-', ob.name))
            if ob.act and ob.act.startswith('depart:'):
                raise getattr(s, ob.act.split(':')[1])()

        @classmethod
        def get_children(cls, ob: N) -> List[N]:
            return ob.ch

    tags: List[Tuple[str, str]] = []
    exts = []
    for i, w in enumerate(ts):
        tag = f'{w}{i}'
        tags.append((tag, w))

        def mk(tag: str, w: str):
            class E(visitor.VisitorExt):  # type: ignore
                when = getattr(visitor.When, w)

                def unknown_visit(s, ob: N) -> None:
                    log.append((tag, '+', ob.name))

                def unknown_departure(s, ob: N) -> None:
                    log.append((tag, '-', ob.name))
            return E
        exts.append(mk(tag, w))
    v = Main(visitor.ExtList(*exts))
    exc = None
    try:
        getattr(v, method)(root)
    except Exception as e:  # noqa
        exc = type(e).__name__
    return root, allnodes, tags, log, exc


def judge(tree, acts, ts, method) -> Tuple[List[Dict[str, Any]], List[Tuple[Any, Any, Any]], bool]:
    root, allnodes, tags, log, exc = execute(tree, acts, ts, method)
    departures = method == 'walkabout'
    problems: List[str] = []
    if exc:
        problems.append('escaped:' + exc)
    parent = {}
    for n in allnodes:
        for c in n.ch:
            parent[c.name] = n.name
    # invariants from the statement
    for tag in ['main'] + [t for t, _ in tags]:
        entered = [e[2] for e in log if e[0] == tag and e[1] == '+']
        left = [e[2] for e in log if e[0] == tag and e[1] == '-']
        if len(entered) != len(set(entered)):
            problems.append('enter-twice')
        if departures and tag != 'main' and sorted(entered) != sorted(left):
            problems.append('ext-unbalanced')
        if tag == 'main' and not set(left) <= set(entered):
            problems.append('main-leave-without-enter')
        # nesting like the tree (per visitor)
        stack: List[str] = []
        seen: set = set()
        for e in log:
            if e[0] != tag:
                continue
            p = parent.get(e[2])
            if e[1] == '+':
                if not departures:
                    # walk(): no leave events exist; entering must follow the tree top-down
                    if p is not None and p not in seen:
                        problems.append('bad-nesting')
                elif tag == 'main':
                    # the main visitor legitimately never leaves nodes whose departure it skipped
                    if p is not None and p not in stack:
                        problems.append('bad-nesting')
                    while stack and stack[-1] != p:
                        stack.pop()
                else:
                    if (stack[-1] if stack else None) != p:
                        problems.append('bad-nesting')
                stack.append(e[2]); seen.add(e[2])
            else:
                if tag == 'main':
                    while stack and stack[-1] != e[2]:
                        stack.pop()
                if not stack or stack[-1] != e[2]:
                    problems.append('bad-nesting')
                else:
                    stack.pop()
        if departures and tag != 'main' and stack:
            problems.append('ext-unbalanced')
    # relative order of main and extensions on each node
    pos = {(e[0], e[1], e[2]): i for i, e in enumerate(log)}
    for n in allnodes:
        m_in = pos.get(('main', '+', n.name)); m_out = pos.get(('main', '-', n.name))
        for tag, w in tags:
            x_in = pos.get((tag, '+', n.name)); x_out = pos.get((tag, '-', n.name))
            if (m_in is None) != (x_in is None):
                problems.append('ext-visits-other-nodes-than-main')
                continue
            if m_in is None:
                continue
            if (w in ('BEFORE', 'OUTTER')) != (x_in < m_in):
                problems.append('order-visit')
            if m_out is not None and x_out is not None and (w in ('BEFORE', 'INNER')) != (x_out < m_out):
                problems.append('order-depart')
    ref = reference(root, tags, departures)
    if log != ref and not problems:
        problems.append('differs-from-contract')
    elif log != ref:
        problems.append('differs-from-contract')
    vs = []
    if problems:
        visited = {e[2] for e in ref if e[0] == 'main'}
        fired = sorted({n.act for n in allnodes if n.act and n.name in visited})
        key = sorted(set(problems))
        sig = f'{method}/{"+".join(key)}/{"+".join(fired) or "none"}'
        case = {'kind': 'walk', 'tree': repr(tree), 'acts': list(acts), 'timings': list(ts), 'method': method}
        vs.append(core.violation(sig, f'{method} on tree {tree} acts {list(acts)} timings {list(ts)}: {key}; events {log} vs contract {ref}'[:1500], case))
    # protocol state graph
    trans = []
    st: Tuple[Any, ...] = ()
    amap = {n.name: (n.depth, n.act) for n in allnodes}
    for e in log:
        fr = (e[0].rstrip('0123456789'), amap[e[2]])
        if e[1] == '+':
            st2 = st + (fr,)
        else:
            l = list(st)
            for i in range(len(l) - 1, -1, -1):
                if l[i] == fr:
                    del l[i]
                    break
            st2 = tuple(l)
        trans.append((st, (e[0].rstrip('0123456789'), e[1]), st2))
        st = st2
    visited = {e[2] for e in log if e[0] == 'main' and e[1] == '+'}
    nontrivial = bool(ts) and any(n.act and n.name in visited for n in allnodes)
    return vs, trans, nontrivial


# ------------------------------------------------------------------ histories: one visitor, several walks, extensions registered in between

def subsets() -> List[Tuple[str, ...]]:
    out: List[Tuple[str, ...]] = []
    for r in range(0, 5):
        out.extend(itertools.combinations(TIMINGS, r))
    return out


def judge_history(tree: tuple, acts: Sequence[Optional[str]], stages: Sequence[Tuple[Sequence[str], str]]) -> Tuple[List[Dict[str, Any]], List[Any]]:
    """stages = [(timings registered just before this walk, walk method)]: the SAME visitor object walks the same tree once per stage.
    Oracle: every walk obeys the contract for all the extensions registered so far, in registration order."""
    from pydoctor import visitor
    root = build(tree, itertools.count())
    allnodes = list(nodes(root))
    for node, a in zip(allnodes, acts):
        node.act = a
    log: List[Tuple[str, str, str]] = []

    class Main(visitor.Visitor):  # type: ignore
        def unknown_visit(s, ob: N) -> None:
            log.append(('main', '+', ob.name))
            if ob.act and not ob.act.startswith('depart:'):
                raise getattr(s, ob.act)()

        def unknown_departure(s, ob: N) -> None:
            log.append(('main', '-', ob.name))
            if ob.act and ob.act.startswith('depart:'):
                raise getattr(s, ob.act.split(':')[1])()

        @classmethod
        def get_children(cls, ob: N) -> List[N]:
            return ob.ch

    def mk(tag: str, w: str):
        class E(visitor.VisitorExt):  # type: ignore
            when = getattr(visitor.When, w)

            def unknown_visit(s, ob: N) -> None:
                log.append((tag, '+', ob.name))

            def unknown_departure(s, ob: N) -> None:
                log.append((tag, '-', ob.name))
        return E
    v = Main(visitor.ExtList())
    tags: List[Tuple[str, str]] = []
    vs: List[Dict[str, Any]] = []
    outcomes = []
    for k, (ts, method) in enumerate(stages):
        for w in ts:
            tag = f'{w}{len(tags)}'
            tags.append((tag, w))
            v.extensions.add(mk(tag, w))
        del log[:]
        exc = None
        try:
            getattr(v, method)(root)
        except Exception as e:  # noqa
            exc = type(e).__name__
        ref = reference(root, tags, method == 'walkabout')
        outcomes.append((k, len(log), exc))
        if exc or log != ref:
            late = [t for t, _ in tags[len(tags) - len(ts):]] if k else []
            what = 'escaped:' + exc if exc else ('late-extension-events' if any(e[0] in late for e in set(log) ^ set(ref)) else 'differs-from-contract')
            case = {'kind': 'history', 'tree': repr(tree), 'acts': list(acts), 'stages': [[list(t), m] for t, m in stages]}
            vs.append(core.violation(f'history/walk{k + 1}:{method}/{what}', f'walk {k + 1} ({method}) of one visitor on tree {tree} acts {list(acts)} stages {stages}: events {log} vs contract {ref}'[:1500], case))
            break
    return vs, outcomes


# ------------------------------------------------------------------ builder part

COLLISION = ['def', 'class', 'assign', 'prop', 'overload', 'if-else', 'main', 'try', 'imp-star', 'doc-assign', 'all-odd', 'self-attr', 'base-cycle', 'defdef', 'ann']


def builder_case(src: str) -> Optional[str]:
    """Returns a problem description or None."""
    from pydoctor import model, astbuilder
    captured: List[Any] = []

    class B(astbuilder.ASTBuilder):  # type: ignore
        def __init__(self, system: Any) -> None:
            super().__init__(system)
            captured.append(self)

    gave_up: List[str] = []

    class Sys(model.System):  # type: ignore
        defaultBuilder = B

        def msg(self, section: str, msg: str, *a: Any, **k: Any) -> None:
            if 'too many nested constructs' in msg:
                gave_up.append(msg)
            k['thresh'] = 100          # silent
            super().msg(section, msg, *a[1:], **k) if a else super().msg(section, msg, **k)

    s = pd.new_system(systemcls=Sys)
    # one recording extension per timing on the REAL module visitor: what an extension that keeps its own stack of nodes would see
    from pydoctor import extensions, astutils
    logs: Dict[str, List[Tuple[str, int, str]]] = {}
    for when in astutils.NodeVisitorExt.When:
        def mk(when: Any) -> Any:
            log = logs.setdefault(when.name, [])

            class Rec(extensions.ModuleVisitorExt):  # type: ignore
                def unknown_visit(self, node: Any) -> None:
                    log.append(('enter', id(node), type(node).__name__))

                def unknown_departure(self, node: Any) -> None:
                    log.append(('leave', id(node), type(node).__name__))
            Rec.when = when
            return Rec
        s._astbuilder_visitors.append(mk(when))
    b = s.systemBuilder(s)
    b.addModuleString('', 'pk', is_package=True)
    b.addModuleString(src, 'm', 'pk')
    b.addModuleString('x = 1\n', 'm0', 'pk')
    try:
        b.buildModules()
    except RecursionError:
        return None   # not this property's business (C01)
    except Exception as e:  # noqa
        if type(e).__name__ == 'JobTimeout':
            raise
        return f'walk-aborted:{type(e).__name__}@{pd.exc_site(e)} (every extension is left inside the nodes it had entered)'
    if gave_up:
        return None   # the walk was abandoned (tree too deep, reported): an abandoned walk is not a pruned walk (C01's business)
    for bb in captured:
        if bb._stack != [] or bb.current is not None or bb.currentMod is not None:
            return f'stack={[type(o).__name__ for o in bb._stack]} current={bb.current!r} currentMod={bb.currentMod!r}'
    for when, log in logs.items():
        stack: List[Tuple[int, str]] = []
        for ev, nid, tn in log:
            if ev == 'enter':
                stack.append((nid, tn))
            elif not stack or stack[-1][0] != nid:
                return f'ext-events:{when}: leaves {tn} while the innermost entered node is {stack[-1][1] if stack else None}'
            else:
                stack.pop()
        if stack:
            return f'ext-events:{when}: entered and never left: {[t for _, t in stack][:4]}'
    return None


def compilable(src: str) -> bool:
    try:
        compile(src, 'x', 'exec')
        return True
    except (SyntaxError, ValueError, RecursionError, MemoryError):
        return False


# ------------------------------------------------------------------ jobs

def jobs(tier: str) -> Iterable[Tuple[str, Any]]:
    maxn = 4 if tier == 'quick' else 5
    for n in range(1, maxn + 1):
        for ti, t in enumerate(trees(n)):
            for method in ('walkabout', 'walk'):
                if n <= 4:
                    yield (f'walks:trees<={n}', ('walk', n, ti, method, None))
                else:
                    for a0 in range(len(ACTS)):
                        yield (f'walks:trees<={n}', ('walk', n, ti, method, a0))
    for si, s1 in enumerate(subsets()):
        yield ('histories:2-walks', ('history', si, 2))
    if tier == 'thorough':
        for si, s1 in enumerate(subsets()):
            yield ('histories:3-walks', ('history', si, 3))
    names = sorted(alphabet.S)
    for i in range(0, len(names), 8):
        yield ('builder:singles', ('builder', names[i:i + 8]))
    if tier == 'thorough':
        for a in COLLISION:
            yield ('builder:pairs', ('builder-pairs', a))


def run_job(job: Any, tier: str) -> Dict[str, Any]:
    res = core.result()
    if job[0] == 'walk':
        _, n, ti, method, a0 = job
        t = list(trees(n))[ti]
        tsets = timing_sets()
        for acts in itertools.product(ACTS, repeat=n):
            if a0 is not None and acts[0] != ACTS[a0]:
                continue
            for ts in tsets:
                vs, trans, nontrivial = judge(t, acts, ts, method)
                res['evals'] += 1
                res['traces'] += 1
                res['violations'] += vs
                for s1, ev, s2 in trans:
                    res['states'].add(core.h(s1)); res['states'].add(core.h(s2))
                    res['transitions'].add(core.h(s1, ev, s2))
                if nontrivial:
                    res['nontrivial_count'] += 1
                    if len(res['samples']) < 2 and len(ts) >= 2:
                        res['samples'].append({'tree': repr(t), 'actions': list(acts), 'timings': list(ts), 'method': method})
                res['outcomes'].add(core.h(len(trans), bool(vs)))
        core.bump(res, 'walks', res['evals'])
    elif job[0] == 'history':
        _, si, depth = job
        subs = subsets()
        s1 = subs[si]
        later = subs if depth == 2 else [x for x in subs if len(x) <= 1]
        for n in range(1, 4 if depth == 2 else 3):
            for t in trees(n):
                for acts in itertools.product(ACTS, repeat=n):
                    for rest in itertools.product(later, repeat=depth - 1):
                        for methods in itertools.product(('walkabout', 'walk'), repeat=depth):
                            stages = [(s1, methods[0])] + [(r, m) for r, m in zip(rest, methods[1:])]
                            vs, outs = judge_history(t, acts, stages)
                            res['evals'] += 1
                            res['traces'] += len(outs)
                            res['violations'] += vs
                            if any(acts) and any(r for r in rest):
                                res['nontrivial_count'] += 1
                            res['outcomes'].add(core.h(outs))
        core.bump(res, 'histories', res['evals'])
    elif job[0] == 'builder':
        for name in job[1]:
            for pl, fn in alphabet.PLACE.items():
                src = fn(alphabet.S[name])
                if not compilable(src):
                    continue
                res['evals'] += 1
                bad = builder_case(src)
                if bad:
                    res['violations'].append(core.violation(f'builder-stack/{name}@{pl}', f'after walking module [{name}@{pl}] the builder is not back to rest: {bad}',
                                                            {'kind': 'builder', 'src': src}))
                res['nontrivial'].add(core.h(src))
        core.bump(res, 'builder_modules', res['evals'])
    elif job[0] == 'builder-pairs':
        a = job[1]
        for b in COLLISION:
            for pl in ('module', 'class', 'if'):
                src = alphabet.PLACE[pl](alphabet.S[a] + '\n' + alphabet.S[b])
                if not compilable(src):
                    continue
                res['evals'] += 1
                bad = builder_case(src)
                if bad:
                    res['violations'].append(core.violation(f'builder-stack/{a}+{b}@{pl}', f'after walking module [{a}+{b}@{pl}]: {bad}', {'kind': 'builder', 'src': src}))
                res['nontrivial'].add(core.h(src))
        core.bump(res, 'builder_modules', res['evals'])
    return res


def replay(case: Dict[str, Any]) -> List[Dict[str, Any]]:
    if case['kind'] == 'history':
        return judge_history(eval(case['tree']), case['acts'], [(tuple(t), m) for t, m in case['stages']])[0]
    if case['kind'] == 'walk':
        vs, _, _ = judge(eval(case['tree']), case['acts'], case['timings'], case['method'])
        return vs
    bad = builder_case(case['src'])
    return [core.violation('builder-stack/replayed', bad, case)] if bad else []
