"""C07 - a re-exported object is documented once, where exported, and stays reachable.

Family: object kind x re-exporter {package __init__, sibling module} x import form {plain, renamed, star}
x origin variants {no __all__, __all__ without the object, name also bound by a guarded import} x consumer
{imports from the definer, from the re-exporter, through the definer module, through the re-exporter module,
star-import from the definer, star-import from the re-exporter} (thorough: pairs of consumers) x docformat
{epytext, reST}; every program is built under EVERY schedule of its modules.  Oracle: one registry entry for
the object and each member under <re-exporter>.<exported name>, none under the defining module; every reference
(local name, base class, annotation, class header, cross-reference by old / new / local name, member
cross-reference) leads to that object; equal across schedules.  A subset goes through the full driver: one
page at the new address, none at the old one.
"""
from __future__ import annotations

import itertools
import re
from typing import Any, Dict, Iterable, List, Optional, Sequence, Tuple

from mc import core, pd

ID = 'C07'
LEVEL = 'model_checking'
RULE = ('all combinations of kind x re-exporter x import form x origin variant x consumer (thorough: consumer pairs) x docformat, each under every '
        'schedule (all permutations of the sub-modules) on the real System; a case is non-trivial when the object really moved (registered under the '
        're-exporter); distinct_nontrivial counts distinct (program, schedule) executions where it moved; states/transitions = union processing state graph')
ASSUMPTIONS = [
    'each object has at most one re-exporter and is not listed in the origin\'s __all__ (documented not to move)',
    'references are judged through resolveName, Class.baseobjects and the href of rendered links',
]
FLOOR = {'quick': 1000, 'thorough': 5000}
SPACE = {'quick': '4 kinds x 5 re-exporter / definer namings (package, sibling, sibling whose name begins with the object name, object defined in the package __init__) x 3 forms x 4 origin variants x 10 consumers x 2 docformats x 6 schedules + 48 full driver runs',
         'thorough': 'quick + all unordered pairs of consumers (4 modules, 24 schedules)'}

OBJ = {
    'class': 'class O:\n    "doc"\n    def m(self): "m"\n    class N:\n        "n"\n',
    'func': 'def O(): "doc"\n',
    'var': 'O = 1\n"doc"\n',
    # the members of the moved class refer to a sibling of the defining module that is re-exported under ANOTHER name
    'class+sibling': 'class O:\n    "doc"\n    def m(self, x: "T0") -> "T0": "m"\n    class N:\n        "n"\n        def deep(self, y: "T0") -> "T0": "d"\nclass T0:\n    "t"\n',
    'class+sub': 'class O:\n    "doc"\n    def m(self): "m"\nclass OSub(O):\n    "sub"\n',
}
ORIGIN = {
    'plain': '',
    'all-without': '__all__ = ["other"]\nother = 1\n',
    'dupbind': 'try:\n    from ._speedups import O\nexcept ImportError:\n    pass\n',
    # a valid import cycle: the defining module imports the package / re-exporter after its own definitions
    'imports-back': 'import p\nfrom p import rx as _rx0\n',
    # the re-exporter gets the object through an intermediate module that merely imports it; the DEFINING module lists it in its own __all__
    # (the statement's condition is about the module the name is imported FROM: the intermediate one, which has no __all__)
    'via-compat': '__all__ = ["O"]\n',
}
# where the object is defined and what the re-exporting module is called: 'sibling' = defined in p._impl, re-exported by p.rx;
# 'sibling:Ox' = the re-exporter's name begins with the object's name; 'initdef:*' = defined in the package __init__ itself
# ways of writing the __all__ that lists the exported name (Python ends up with the name in __all__ for every one of them)
ALLFORMS = {
    'list': '__all__ = ["{E}"]\n', 'tuple': '__all__ = ("{E}",)\n', 'two-names': 'zz_other = 1\n__all__ = ["zz_other", "{E}"]\n',
    'then-sorted': '__all__ = ["{E}"]\n__all__ = sorted(__all__)\n', 'then-plus-computed': '_more = []\n__all__ = ["{E}"]\n__all__ = __all__ + _more\n',
    'then-list-call': '__all__ = ["{E}"]\n__all__ = list(__all__)\n', 'second-literal-wins': '__all__ = ["zz_gone"]\n__all__ = ["{E}"]\n',
    'append': '__all__ = []\n__all__.append("{E}")\n', 'extend': '__all__ = []\n__all__.extend(["{E}"])\n', 'augmented': '__all__ = []\n__all__ += ["{E}"]\n',
    'annotated': '__all__: list = ["{E}"]\n', 'in-if': 'if True:\n    __all__ = ["{E}"]\n', 'before-import': None,
}
DEF = ['p._impl']
REXES = ('init', 'sibling', 'sibling:Ox', 'initdef:rx', 'initdef:Ox')


def set_naming(rex: str) -> Tuple[str, str]:
    """returns (base re-exporter kind, re-exporter module name) and records the defining module"""
    DEF[0] = 'p' if rex.startswith('initdef') else 'p._impl'
    return ('init' if rex == 'init' else 'sibling'), (rex.split(':')[1] if ':' in rex else 'rx')


CONSUMERS = ['definer', 'reexporter', 'modattr-definer', 'modattr-reexporter', 'star-definer', 'star-reexporter',
             # the dotted name written out at every use (no local alias); the same local name imported from both locations, in both orders
             'dotted-definer', 'dotted-reexporter', 'both-definer-first', 'both-reexporter-first']


def xref(fmt: str, name: str) -> str:
    return 'L{%s}' % name if fmt == 'epytext' else '`%s`' % name


def consumer_src(cname: str, consumer: str, kind: str, target_mod: str, exported: str, new_full: str, fmt: str, suffix: str) -> Tuple[str, str]:
    """returns (source, local name bound to the object)"""
    L = 'L' + suffix
    if consumer == 'definer':
        imp = f'from p._impl import O as {L}\n'
    elif consumer == 'reexporter':
        imp = f'from {target_mod} import {exported} as {L}\n'
    elif consumer == 'modattr-definer':
        imp = f'import p._impl\n{L} = p._impl.O\n'
    elif consumer == 'modattr-reexporter':
        imp = f'import {target_mod}\n{L} = {target_mod}.{exported}\n'
    elif consumer == 'star-definer':
        imp = 'from p._impl import *\n'
        L = 'O'
    elif consumer == 'dotted-definer':
        imp = 'import p._impl\n'
        L = 'p._impl.O'
    elif consumer == 'dotted-reexporter':
        imp = f'import {target_mod}\n'
        L = f'{target_mod}.{exported}'
    elif consumer == 'both-definer-first':
        imp = f'from p._impl import O as {L}\nfrom {target_mod} import {exported} as {L}\n'
    elif consumer == 'both-reexporter-first':
        imp = f'from {target_mod} import {exported} as {L}\nfrom p._impl import O as {L}\n'
    else:
        imp = f'from {target_mod} import *\n'
        L = exported
    body = imp
    if kind.startswith('class'):
        body += f'class D{suffix}({L}):\n    """D"""\n'
    body += f'def g{suffix}(a: {L}) -> {L}:\n    """g"""\n'
    refs = [('local', L), ('old', 'p._impl.O'), ('new', new_full)]
    if kind.startswith('class'):
        refs.append(('member', new_full + '.m'))
    for rname, target in refs:
        body += f'def x{suffix}_{rname}():\n    """see {xref(fmt, target)}"""\n'
    return body, L


def program(kind: str, rex: str, form: str, origin: str, consumers: Sequence[str], fmt: str) -> Tuple[Dict[str, str], str, List[Tuple[str, str, str]]]:
    naming = rex
    rex, rxname = set_naming(naming)
    mods, new_full, cons = _program(kind, rex, form, origin, consumers, fmt)
    if naming.startswith('initdef'):
        # the object lives in the package __init__: the definer module's text becomes the package's
        impl = mods.pop('_impl')
        mods['p'] = impl + mods['p']
        for k in list(mods):
            mods[k] = (mods[k].replace('from ._impl import', 'from p import').replace('from p._impl import', 'from p import').replace('import p._impl\n', 'import p\n')
                       .replace('p._impl.O', 'p.O'))
    if naming.startswith('initdef'):
        cons = [(n, c, L.replace('p._impl.O', 'p.O')) for n, c, L in cons]
    if rxname != 'rx':
        mods[rxname] = mods.pop('rx')
        for k in list(mods):
            mods[k] = mods[k].replace('p.rx', f'p.{rxname}').replace('import rx as', f'import {rxname} as')
        new_full = new_full.replace('p.rx', f'p.{rxname}')
        cons = [(n, c, L.replace('p.rx', f'p.{rxname}')) for n, c, L in cons]
    return mods, new_full, cons


def _program(kind: str, rex: str, form: str, origin: str, consumers: Sequence[str], fmt: str) -> Tuple[Dict[str, str], str, List[Tuple[str, str, str]]]:
    form, _, allform = form.partition('@')
    exported = 'N2' if form == 'as' else 'O'
    imp = {'plain': 'from ._impl import O\n', 'as': 'from ._impl import O as N2\n', 'star': 'from ._impl import *\n'}[form]
    mods = {'p': '', '_impl': OBJ[kind] + ORIGIN[origin], 'rx': ''}
    target_mod = 'p' if rex == 'init' else 'p.rx'
    if form == 'star' and origin == 'all-without':
        # a star import only sees the names of the origin's __all__: the object would not be imported at all
        imp = 'from ._impl import O\n'
    if origin == 'via-compat':
        mods['_compat'] = ('from ._impl import O\n' if form != 'star' else 'from ._impl import *\n') + ('from ._impl import T0\n' if kind == 'class+sibling' else '')
        imp = imp.replace('from ._impl import', 'from ._compat import')
    if kind == 'class+sibling':
        src_mod = '._compat' if origin == 'via-compat' else '._impl'
        imp = imp + f'from {src_mod} import T0 as PubT0\n'
    rex_src = (f'__all__ = ["{exported}"]\n' + imp) if allform == 'before-import' else imp + ALLFORMS[allform or 'list'].replace('{E}', exported)
    if kind == 'class+sibling':
        rex_src = rex_src.replace(f'["{exported}"]', f'["{exported}", "PubT0"]').replace(f'("{exported}",)', f'("{exported}", "PubT0")')
    if rex == 'init':
        mods['p'] = rex_src
    else:
        mods['rx'] = rex_src
    new_full = f'{target_mod}.{exported}'
    cons = []
    for i, c in enumerate(consumers):
        name = f'c{i}'
        src, L = consumer_src(name, c, kind, target_mod, exported, new_full, fmt, str(i))
        mods[name] = src
        cons.append((name, c, L))
    docfmt = '' if fmt == 'epytext' else '__docformat__ = "restructuredtext"\n'
    for k in mods:
        if k != 'p' or mods[k]:
            mods[k] = docfmt + mods[k]
    return mods, new_full, cons


def build(mods: Dict[str, str], order: Sequence[str]) -> Any:
    s = pd.new_system(systemcls=pd.RecordingSystem)
    b = s.systemBuilder(s)
    b.addModuleString(mods['p'], 'p', None, is_package=True)
    for m in order:
        b.addModuleString(mods[m], m, 'p')
    b.buildModules()
    return s


def judge_build(s: Any, kind: str, new_full: str, cons: Sequence[Tuple[str, str, str]], form: str, origin: str) -> List[Tuple[str, str]]:
    """returns [(clause, consumer-type)]"""
    from pydoctor import epydoc2stan, model
    from pydoctor.stanutils import flatten
    from pydoctor.templatewriter.pages import format_signature, format_class_signature
    probs: List[Tuple[str, str]] = []
    O = s.allobjects.get(new_full)
    if O is None:
        return [('not-at-new-location', '-')]
    if any(k == f'{DEF[0]}.O' or k.startswith(f'{DEF[0]}.O.') for k in s.allobjects):
        probs.append(('still-at-old-location', '-'))
    if O.parent is None or O.parent.contents.get(O.name) is not O:
        probs.append(('not-in-contents-of-re-exporter', '-'))
    if 'O' in s.allobjects[DEF[0]].contents:
        probs.append(('still-in-contents-of-definer', '-'))
    members = [k for k in s.allobjects if k.startswith(new_full + '.')]
    if kind.startswith('class'):
        want = {new_full + '.m'} | ({new_full + '.N'} if kind == 'class' else set())
        if not want <= set(members):
            probs.append(('member-not-moved', '-'))
        if kind == 'class+sibling':
            T = s.allobjects.get(new_full.rsplit('.', 1)[0] + '.PubT0')
            if T is None:
                probs.append(('sibling-not-at-new-location', '-'))
            else:
                for mname in ('m', 'N.deep'):
                    mo = s.allobjects.get(f'{new_full}.{mname}')
                    if mo is not None and flatten(format_signature(mo)).count('href="%s"' % T.url) != 2:
                        probs.append(('member-annotation-to-renamed-sibling-unlinked', '-'))
                        break
        if kind == 'class+sub':
            sub = s.allobjects.get(f'{DEF[0]}.OSub')
            if sub is None or sub.baseobjects != [O]:
                probs.append(('in-module-subclass-base-unresolved', '-'))
            elif sub not in O.subclasses:
                probs.append(('in-module-subclass-not-listed', '-'))
    # old qualified name still leads to the object
    try:
        found = s.find_object(f'{DEF[0]}.O')
    except LookupError:
        found = None
    if found is not O:
        probs.append(('old-qualified-name-does-not-lead-to-object', '-'))
    if kind.startswith('class'):
        for member in (['m', 'N', 'N.__doc__'][:2] if kind == 'class' else ['m']):
            try:
                fm = s.find_object(f'{DEF[0]}.O.{member}')
            except LookupError:
                fm = None
            if fm is not s.allobjects.get(f'{new_full}.{member}'):
                probs.append(('old-qualified-name-of-member-does-not-lead-to-it', '-'))
                break
    for cname, ctype, L in cons:
        # imported from both locations: the LAST import binds the name, so the case is judged (and named) like that consumer type
        ctype = {'both-reexporter-first': 'definer', 'both-definer-first': 'reexporter'}.get(ctype, ctype) + ('/after-both-imports' if ctype.startswith('both') else '')
        c = s.allobjects[f'p.{cname}']
        if c.resolveName(L) is not O:
            probs.append(('local-name-unresolved', ctype))
        suffix = cname[1:]
        if kind.startswith('class'):
            D = s.allobjects[f'p.{cname}.D{suffix}']
            if D.baseobjects != [O]:
                probs.append(('base-unresolved', ctype))
            elif D not in O.subclasses:
                probs.append(('subclass-not-listed', ctype))
            hs = flatten(format_class_signature(D))
            if f'href="{O.url}"' not in hs:
                probs.append(('class-header-unlinked', ctype))
        g = s.allobjects[f'p.{cname}.g{suffix}']
        hg = flatten(format_signature(g))
        if hg.count('href="%s"' % O.url) != 2:
            probs.append(('annotation-unlinked', ctype))
        for rname in ('local', 'old', 'new', 'member'):
            x = s.allobjects.get(f'p.{cname}.x{suffix}_{rname}')
            if x is None:
                continue
            hd = flatten(epydoc2stan.format_docstring(x))
            hrefs = re.findall(r'href="([^"]+)"', hd)
            want = O.url if rname != 'member' else s.allobjects[new_full + '.m'].url
            if hrefs != [want]:
                probs.append((f'xref-by-{rname}-name-unlinked', ctype))
    return probs


def judge_program(kind: str, rex: str, form: str, origin: str, consumers: Sequence[str], fmt: str, res: Dict[str, Any]) -> None:
    mods, new_full, cons = program(kind, rex, form, origin, consumers, fmt)
    subs = [m for m in mods if m != 'p']
    per_order: Dict[Tuple[str, ...], Tuple[Tuple[str, str], ...]] = {}
    case0 = {'kind': 'program', 'okind': kind, 'rex': rex, 'form': form, 'origin': origin, 'consumers': list(consumers), 'fmt': fmt}
    for order in itertools.permutations(subs):
        try:
            s = build(mods, order)
        except Exception as e:  # noqa
            per_order[order] = ((f'CRASH-{type(e).__name__}@{pd.exc_site(e)}', '-'),)
            continue
        res['evals'] += 1
        res['traces'] += 1
        st, tr = pd.processing_graph(s.trace)
        res['states'].update(core.h(x) for x in st)
        res['transitions'].update(core.h(x) for x in tr)
        probs = judge_build(s, kind, new_full, cons, form, origin)
        per_order[order] = tuple(sorted(set(probs)))
        if new_full in s.allobjects:
            res['nontrivial'].add(core.h(kind, rex, form, origin, tuple(consumers), fmt, order))
    allp = sorted({p for v in per_order.values() for p in v})
    res['outcomes'].add(core.h(allp))
    for clause, ctype in allp:
        orders_bad = [o for o, v in per_order.items() if (clause, ctype) in v]
        dep = '' if len(orders_bad) == len(per_order) else '/some-schedules'
        # which dimensions matter is part of the signature only where they select a different code path
        sig = f'{clause}/{ctype}{dep}' + (f'/all:{form.partition("@")[2]}' if '@' in form else '')
        res['violations'].append(core.violation(sig, f'{kind} re-exported by {rex} ({form}, origin {origin}), consumers {list(consumers)}, {fmt}: {clause} '
                                                     f'for consumer type {ctype} under {len(orders_bad)}/{len(per_order)} schedules (e.g. {list(orders_bad[0])})', dict(case0)))
    if len(res['samples']) < 2 and len(consumers) >= 1:
        res['samples'].append({'kind': kind, 're-exporter': rex, 'form': form, 'origin': origin, 'consumers': list(consumers), 'docformat': fmt,
                               'schedules': len(per_order), 'sources': mods})


def judge_cli(kind: str, rex: str, form: str, consumer: str, res: Dict[str, Any]) -> None:
    mods, new_full, cons = program(kind, rex, form, 'plain', [consumer], 'epytext')
    files = {'p/__init__.py': mods['p']}
    for k, v in mods.items():
        if k != 'p':
            files[f'p/{k}.py'] = v
    res['evals'] += 1
    case = {'kind': 'cli', 'okind': kind, 'rex': rex, 'form': form, 'consumer': consumer}
    with pd.cli_run(files, ['-q'], roots=['p'], keep_system=True) as r:
        if r.exc or r.status not in (0, 2, 3):
            res['violations'].append(core.violation(f'cli-run-failed/{r.exc_type}', f'driver failed: {r.exc_type} {r.status}', case))
            return
        pages = set(r.pages())
        s = r.system
        O = s.allobjects.get(new_full) if s else None
        if O is None:
            res['violations'].append(core.violation('cli/not-at-new-location/-', 'object not registered at the new location in the full run', case))
            return
        res['nontrivial'].add(core.h('cli', kind, rex, form, consumer))
        if kind.startswith('class'):
            if O.url not in pages:
                res['violations'].append(core.violation('cli/page-missing-at-new-address/-', f'{O.url} was not written; pages {sorted(pages)[:12]}', case))
            if f'{DEF[0]}.O.html' in pages:
                res['violations'].append(core.violation('cli/page-at-old-address/-', f'{DEF[0]}.O.html was written', case))
        else:
            page = (r.out / O.page_object.url).read_text(encoding='utf-8')
            if f'id="{O.fullName()}"' not in page and f'name="{O.fullName()}"' not in page:
                res['violations'].append(core.violation('cli/anchor-missing-at-new-address/-', f'no anchor for {O.fullName()} on {O.page_object.url}', case))
            old = (r.out / (f'{DEF[0]}.html' if DEF[0] != 'p' else 'index.html'))
            if old.exists() and (f'id="{DEF[0]}.O"' in old.read_text(encoding='utf-8')):
                res['violations'].append(core.violation('cli/anchor-at-old-address/-', f'the page of {DEF[0]} still documents O', case))
        # in-process model of the full run == in-memory build (binds the two seams together)
        mem = build(mods, [m for m in sorted(mods) if m != 'p'])
        if sorted(mem.allobjects) != sorted(s.allobjects):
            res['violations'].append(core.violation('cli/disk-vs-memory/-', f'registry differs between file build and in-memory build: {sorted(set(mem.allobjects) ^ set(s.allobjects))}', case))


def jobs(tier: str) -> Iterable[Tuple[str, Any]]:
    for kind in OBJ:
        for rex in REXES:
            for form in ('plain', 'as', 'star'):
                yield ('one-consumer', ('single', kind, rex, form))
    for kind in ('class', 'func', 'var'):
        for rex in REXES:
            yield ('full-runs', ('cli', kind, rex))
    for af in ALLFORMS:
        if af != 'list':
            yield ('spellings-of-__all__', ('allforms', af))
    if tier == 'thorough':
        for kind in OBJ:
            for rex in ('init', 'sibling'):
                for form in ('plain', 'as', 'star'):
                    for origin in ORIGIN:
                        yield ('two-consumers', ('pairs', kind, rex, form, origin))


def run_job(job: Any, tier: str) -> Dict[str, Any]:
    res = core.result()
    if job[0] == 'single':
        _, kind, rex, form = job
        for origin in ORIGIN:
            if rex.startswith('initdef') and origin in ('imports-back', 'dupbind', 'via-compat'):
                continue        # written for a separate defining module
            for consumer in CONSUMERS:
                if consumer == 'star-definer' and origin == 'all-without':
                    continue        # CPython would not bind the name in the consumer at all
                for fmt in ('epytext', 'restructuredtext'):
                    judge_program(kind, rex, form, origin, [consumer], fmt, res)
    elif job[0] == 'allforms':
        for kind in ('class', 'func', 'var'):
            for rex in ('init', 'sibling'):
                for form in ('plain', 'as', 'star'):
                    for consumer in ('definer', 'reexporter', 'dotted-definer'):
                        # differential: how __all__ is written must not matter - whatever is (not) right with the plain list literal is judged there
                        base = core.result()
                        judge_program(kind, rex, form, 'plain', [consumer], 'epytext', base)
                        basesigs = {v['sig'] for v in base['violations']}
                        tmp = core.result()
                        judge_program(kind, rex, f'{form}@{job[1]}', 'plain', [consumer], 'epytext', tmp)
                        for k in ('evals', 'traces'):
                            res[k] += tmp[k]
                        for k in ('states', 'transitions', 'nontrivial', 'outcomes'):
                            res[k] |= tmp[k]
                        res['violations'] += [v for v in tmp['violations'] if v['sig'].rsplit('/all:', 1)[0] not in basesigs]
    elif job[0] == 'pairs':
        _, kind, rex, form, origin = job
        for c1, c2 in itertools.combinations(CONSUMERS, 2):
            if 'star-definer' in (c1, c2) and origin == 'all-without':
                continue
            judge_program(kind, rex, form, origin, [c1, c2], 'epytext', res)
    else:
        _, kind, rex = job
        for form in ('plain', 'as', 'star'):
            for consumer in ('reexporter', 'definer', 'star-reexporter', 'modattr-reexporter'):
                judge_cli(kind, rex, form, consumer, res)
    return res


def replay(case: Dict[str, Any]) -> List[Dict[str, Any]]:
    res = core.result()
    if case['kind'] == 'program':
        judge_program(case['okind'], case['rex'], case['form'], case['origin'], case['consumers'], case['fmt'], res)
    else:
        judge_cli(case['okind'], case['rex'], case['form'], case['consumer'], res)
    return res['violations']
