"""C14 - a displayed signature is the signature that was written.

Space: every valid layout of up to 4 (thorough 5) parameters over kind {positional-only,
positional-or-keyword, *args, keyword-only, **kwargs} x default {no, yes} x annotation {no, yes}
(5 449 layouts <= 4) x return {none, -> int, -> None} x context {function, method, classmethod,
staticmethod, async function}; overload groups (three overloads + implementation, each with its own
layout); expression dimension: default alphabet x annotation alphabet on 1-2 parameter signatures.
Oracle: the rendered signature text is parsed back by CPython (`def f<text>: pass`) and compared with
the source: same names, order, kinds (so the / and * separators), defaults on the same parameters,
default/annotation ASTs equal after unquoting string annotations and the documented respellings.
"""
from __future__ import annotations

import ast
import itertools
from typing import Any, Dict, Iterable, Iterator, List, Optional, Sequence, Tuple

from mc import core, pd
from mc.props import c15

ID = 'C14'
LEVEL = 'exploration'
RULE = ('all valid parameter layouts <= N over 5 kinds x default x annotation, x return form x context, rendered by the real '
        'format_signature/format_function_def/format_overloads from generated modules and parsed back by CPython; a case is '
        'non-trivial when the layout has a separator (/ or bare *), a default or an annotation; cases are distinct by construction')
ASSUMPTIONS = [
    'CPython ast.parse is the oracle for the read-back signature',
    'default/annotation expressions are compared with the C15 normalisation (set([...]), quotes, numbers by value); string annotations are compared unquoted, except inside Literal[...]',
]
FLOOR = {'quick': 20000, 'thorough': 100000}
SPACE = {'quick': '5 449 layouts <= 4 params x 3 return forms x 5 contexts; 5 449 overload groups; 18 defaults x 28 annotations x 3 shapes',
         'thorough': 'quick + all layouts of 5 params x {function, method}'}

KINDS = ['po', 'pk', 'va', 'ko', 'vk']


def render(ps: Sequence[Tuple[str, int, int]], dflt: str = '1', ann: str = 'int') -> Optional[str]:
    po = [p for p in ps if p[0] == 'po']; pk = [p for p in ps if p[0] == 'pk']; va = [p for p in ps if p[0] == 'va']
    ko = [p for p in ps if p[0] == 'ko']; vk = [p for p in ps if p[0] == 'vk']
    if [p[0] for p in ps] != [p[0] for p in po + pk + va + ko + vk]:
        return None
    if len(va) > 1 or len(vk) > 1:
        return None
    i = 0
    parts: List[str] = []

    def one(p: Tuple[str, int, int]) -> str:
        nonlocal i
        s = f'p{i}'
        i += 1
        if p[2]:
            s += f': {ann}'
        if p[1]:
            s += f' = {dflt}' if p[2] else f'={dflt}'
        return s
    for p in po:
        parts.append(one(p))
    if po:
        parts.append('/')
    for p in pk:
        parts.append(one(p))
    if va:
        parts.append('*' + one(va[0]))
    elif ko:
        parts.append('*')
    for p in ko:
        parts.append(one(p))
    if vk:
        parts.append('**' + one(vk[0]))
    return ', '.join(parts)


_layout_cache: Dict[int, List[str]] = {}


def layouts(n: int) -> List[str]:
    """all valid layouts with exactly n parameters"""
    if n in _layout_cache:
        return _layout_cache[n]
    out = []
    for ps in itertools.product(itertools.product(KINDS, [0, 1], [0, 1]), repeat=n):
        t = render(ps)
        if t is None:
            continue
        try:
            ast.parse(f'def f({t}): pass')
        except SyntaxError:
            continue
        out.append(t)
    _layout_cache[n] = out
    return out


def layouts_upto(n: int) -> List[str]:
    out: List[str] = []
    for k in range(n + 1):
        out += layouts(k)
    return out


# ---------------------------------------------------------------- oracle

class _Unstring(ast.NodeTransformer):
    def visit_Subscript(self, node: ast.Subscript) -> Any:
        value = self.visit(node.value)
        lit = (isinstance(value, ast.Name) and value.id == 'Literal') or (isinstance(value, ast.Attribute) and value.attr == 'Literal')
        ann = (isinstance(value, ast.Name) and value.id == 'Annotated') or (isinstance(value, ast.Attribute) and value.attr == 'Annotated')
        if ann and isinstance(node.slice, ast.Tuple) and node.slice.elts:
            # typing: only the first argument of Annotated is a type, the metadata are ordinary values
            sl: Any = ast.Tuple(elts=[self.visit(node.slice.elts[0])] + list(node.slice.elts[1:]), ctx=node.slice.ctx)
        else:
            sl = node.slice if lit else self.visit(node.slice)
        return ast.Subscript(value=value, slice=sl, ctx=node.ctx)

    def visit_Constant(self, node: ast.Constant) -> Any:
        if isinstance(node.value, str):
            return self.visit(ast.parse(node.value, mode='eval').body)
        return node


def norm_expr(e: Optional[ast.expr], unstring: bool = False) -> Optional[str]:
    if e is None:
        return None
    e = ast.parse(ast.unparse(e), mode='eval').body
    if unstring:
        e = ast.fix_missing_locations(_Unstring().visit(e))
    return c15.norm(e)


def argsdump(a: ast.arguments, unstring: bool) -> Dict[str, Any]:
    def one(x: ast.arg) -> Tuple[str, Optional[str]]:
        return (x.arg, norm_expr(x.annotation, unstring))
    return dict(posonly=[one(x) for x in a.posonlyargs], args=[one(x) for x in a.args], vararg=one(a.vararg) if a.vararg else None,
                kwonly=[one(x) for x in a.kwonlyargs], kwarg=one(a.kwarg) if a.kwarg else None,
                defaults=[norm_expr(d) for d in a.defaults], kw_defaults=[norm_expr(d) if d else None for d in a.kw_defaults])


def compare(src_sig: str, ret: str, text: str, where: str, case: Dict[str, Any], res: Dict[str, Any], expr_sig: Optional[str] = None) -> None:
    """src_sig: text between the parentheses in the source; ret: ' -> X' or ''; text: rendered '(…) -> X'."""
    orig = ast.parse(f'def f({src_sig}){ret}: pass').body[0]
    try:
        back = ast.parse(f'def f{text.strip()}: pass').body[0]
    except SyntaxError:
        sig = f'{where}/unparsable' + (f'/{expr_sig}' if expr_sig else '')
        res['violations'].append(core.violation(sig, f'source ({src_sig}){ret} is displayed as {text!r}, which is not a Python signature', case))
        return
    assert isinstance(orig, ast.FunctionDef) and isinstance(back, ast.FunctionDef)
    o, b = argsdump(orig.args, True), argsdump(back.args, False)
    if o != b:
        diff = [k for k in o if o[k] != b[k]]
        names_o = [[x[0] for x in o[k]] if isinstance(o[k], list) and k not in ('defaults', 'kw_defaults') else None for k in ('posonly', 'args', 'kwonly')]
        names_b = [[x[0] for x in b[k]] if isinstance(b[k], list) and k not in ('defaults', 'kw_defaults') else None for k in ('posonly', 'args', 'kwonly')]
        if names_o != names_b or (o['vararg'] is None) != (b['vararg'] is None) or (o['kwarg'] is None) != (b['kwarg'] is None):
            clause = 'kinds-or-names'
        elif [d is None for d in o['kw_defaults']] != [d is None for d in b['kw_defaults']] or len(o['defaults']) != len(b['defaults']):
            clause = 'default-positions'
        elif any(k in ('defaults', 'kw_defaults') for k in diff):
            clause = 'default-value'
        else:
            clause = 'annotation'
        sig = f'{where}/{clause}' + (f'/{expr_sig}' if expr_sig else '')
        res['violations'].append(core.violation(sig, f'source ({src_sig}){ret} is displayed as {text!r}: differs in {diff}', case))
        return
    er = None if ret in ('', ' -> None') else norm_expr(ast.parse(ret[4:], mode='eval').body, True)
    if er == norm_expr(ast.parse('None', mode='eval').body):
        er = None           # "-> 'None'" is "-> None": documented as omitted
    gr = norm_expr(back.returns) if back.returns else None
    if er != gr:
        res['violations'].append(core.violation(f'{where}/returns', f'source ({src_sig}){ret} is displayed as {text!r}: return annotation shown {gr}, expected {er}', case))


# ---------------------------------------------------------------- contexts

CONTEXTS = ['func', 'method', 'classmethod', 'staticmethod', 'async']
RETS = ['', ' -> int', ' -> None']


def module_for(part: Sequence[str], ctx: str, ret: str, base: int) -> Tuple[str, List[str]]:
    names = []
    if ctx in ('func', 'async'):
        kw = 'async def' if ctx == 'async' else 'def'
        src = '\n'.join(f'{kw} f{base + i}({t}){ret}: pass' for i, t in enumerate(part))
        names = [f'm.f{base + i}' for i in range(len(part))]
    else:
        deco = {'method': '', 'classmethod': '    @classmethod\n', 'staticmethod': '    @staticmethod\n'}[ctx]
        src = 'class K:\n' + '\n'.join(f'{deco}    def f{base + i}({t}){ret}: pass' for i, t in enumerate(part))
        names = [f'm.K.f{base + i}' for i in range(len(part))]
    return src + '\n', names


def text_of(stan: Any) -> str:
    from pydoctor.stanutils import flatten_text
    return flatten_text(stan)  # type: ignore


def run_layouts(part: Sequence[str], ctx: str, ret: str, base: int, res: Dict[str, Any]) -> None:
    from pydoctor.templatewriter.pages import format_signature, format_function_def
    src, names = module_for(part, ctx, ret, base)
    s = pd.build_mem([pd.Mod('m', src)])
    for t, full in zip(part, names):
        fn = s.allobjects[full]
        res['evals'] += 1
        case = {'kind': 'layout', 'sig': t, 'ctx': ctx, 'ret': ret}
        text = text_of(format_signature(fn))
        compare(t, ret, text, f'layout:{ctx}', case, res)
        # the whole "def" line
        line = text_of(format_function_def(fn.name, fn.is_async, fn))
        want_kw = 'async def' if ctx == 'async' else 'def'
        if not (line.startswith(f'{want_kw} {fn.name}(') and line.rstrip().endswith(':') and text.strip() in line):
            res['violations'].append(core.violation(f'layout:{ctx}/def-line', f'definition line for ({t}) is {line!r}', case))
        if any(x in t for x in ('/', '*', '=', ':')):
            res['nontrivial_count'] += 1
    if part and len(res['samples']) < 2:
        i = len(part) // 2
        res['samples'].append({'source': f'def f({part[i]}){ret}', 'context': ctx, 'displayed': text_of(format_signature(s.allobjects[names[i]]))})


def run_overloads(part: Sequence[str], allsigs: Sequence[str], base: int, res: Dict[str, Any]) -> None:
    from pydoctor.templatewriter.pages import format_overloads, format_function_def
    n = len(allsigs)
    groups = []
    L = ['from typing import overload']
    for i, t in enumerate(part):
        k = base + i
        trio = [(allsigs[k % n], ' -> int'), (allsigs[(k * 7 + 1) % n], ' -> str'), (allsigs[(k * 13 + 5) % n], '')]
        groups.append(trio)
        for sg, ret in trio:
            L.append(f'@overload\ndef g{k}({sg}){ret}: ...')
        L.append(f'def g{k}(*args, **kw): pass')
    s = pd.build_mem([pd.Mod('m', '\n'.join(L) + '\n')])
    for i, trio in enumerate(groups):
        k = base + i
        fn = s.allobjects[f'm.g{k}']
        res['evals'] += 1
        case = {'kind': 'overloads', 'sigs': [list(x) for x in trio]}
        if len(fn.overloads) != 3:
            res['violations'].append(core.violation('overloads/count', f'{len(fn.overloads)} overloads recorded for 3 written: {trio}', case))
            continue
        for ov, (sg, ret) in zip(fn.overloads, trio):
            line = text_of(format_function_def(fn.name, fn.is_async, ov))
            pre = f'def g{k}'
            if not line.startswith(pre) or not line.rstrip().endswith(':'):
                res['violations'].append(core.violation('overloads/def-line', f'overload line {line!r}', case))
                continue
            compare(sg, ret, line[len(pre):].rstrip()[:-1], 'overloads', case, res)
        alltext = text_of(list(format_overloads(fn)))
        if alltext.count(f'def g{k}(') != 3:
            res['violations'].append(core.violation('overloads/listing', f'format_overloads shows {alltext!r}', case))
        if text_of(format_function_def(fn.name, fn.is_async, fn)) != '':
            res['violations'].append(core.violation('overloads/primary-shown', 'the implementation signature is shown next to its overloads', case))
        res['nontrivial_count'] += 1
    if groups and len(res['samples']) < 2:
        res['samples'].append({'overload_group': [f'({a}){b}' for a, b in groups[0]]})


DEFAULTS = ['(a + b)[0]', '(a or b)[0]', '(-a)[1]', '2 ** (a + b)[1]', '(a, b)[0]', '(lambda: 0)()', '(a if b else c).d', '(yield_ := 1)', '[*a, *b]', '{**a}', 'f(*a, **k)', 'a[1:2, ::3]', '1', '-1', "'s'", 'None', 'a.b', '(1, 2)', '(1,)', '[x]', '{}', 'x or y', 'lambda x, y=1: 0', 'f(a, k=1)', 'a - (b - c)', '(0.0, 0)', '0 + 0.0',
            "b\"it's\"", '{1, 2}', '-(a + b) * c']
PRELUDE = 'import mycompat as mc0\nfrom mycompat import Literal, Annotated\n'       # the typing forms come from a project-local compatibility module
ANNOTS = ["mc0.Literal['r', 'w']", "Optional[mc0.Literal['ok', 'err']]", "mc0.Annotated[float, 'meters', 'positive']", '"A | B"', '"a - b"', '~"A | B"', 'int', 'None', "'None'", 'Optional[None]', "'int'", "'List[int]'", "List['A']", "Literal['a']", 'Optional["B"]', 'a.B', 'Callable[[int], str]', 'int | None', '"a.B"',
          'Tuple[int, ...]', "'Dict[str, \"A\"]'", 'C & "A | B"', '"A | B" & C', 'Tuple[()]', "Literal['A | B']", "typing.Literal['x', 1]", "'A' | 'B'",
          "Annotated[int, 'meta']", "Annotated['List[int]', 'not valid python', 3]", "t.Annotated[int, 'a | b']", "Optional[Annotated['A', 'unit']]", "'Callable[..., \"A\"]'",
          # Literal reached through any spelling: module aliases, nesting, inside a string annotation
          "t.Literal['r', 'w']", "Optional[te.Literal['r']]", "'t.Literal[\"r\", \"w\"]'", "x.y.Literal['int']", "Literal[Literal['a'], 'b']", "List[Literal['List[int]']]",
          "Dict['K', t.Literal['K']]", 'int | "str | None"', '2 * "n + 1"', '-"x + y"', '1 - "a - b"', '"a - b" - 1', 'A["B | C"] | "D"', '("a", "b")', 'x["y"].z', "'Optional[typing_extensions.Literal[\"A\"]]'"]


def attribute(vs: List[Dict[str, Any]], dsig: Optional[str], a: str) -> None:
    """attribute a deviation to the expression at fault (shared with C15) so that distinct root causes stay distinct"""
    for v in vs:
        if v['sig'].endswith(('default-value', 'unparsable')) and dsig:
            v['sig'] += '/' + dsig
        elif v['sig'].endswith(('annotation', 'returns', 'unparsable')):
            v['sig'] += '/annotation:' + core.h(a)[:6]


def default_sig(d: str) -> Optional[str]:
    dnode = ast.parse(ast.unparse(ast.parse(d, mode='eval').body), mode='eval').body
    dv = c15.verdict(dnode)
    return c15.signature(dnode, dv[0]) if dv else None


OV_STACKS = [('@overload', ''), ('@overload\n    @staticmethod', 'static'), ('@staticmethod\n    @overload', 'static'), ('@overload\n    @classmethod', 'cls'), ('@classmethod\n    @overload', 'cls'),
             ('@overload\n    @deco', ''), ('@deco\n    @overload', ''), ('@typing.overload', ''), ('@t.overload\n    @deco(1)', ''), ('@overload\n    @deco\n    @staticmethod', 'static')]


def run_overload_stacks(res: Dict[str, Any]) -> None:
    """overloads of methods under every decorator stack: each written overload signature is displayed, the implementation's is not"""
    from pydoctor.templatewriter.pages import format_function_def
    sigs = [('x: int', ' -> int'), ('x: str, *, flag: bool = ...', ' -> str')]
    L = ['import typing\nimport typing as t\nfrom typing import overload\ndef deco(*a):\n    return a[0] if a and callable(a[0]) else (lambda f: f)\nclass K:']
    for i, (stack, kind) in enumerate(OV_STACKS):
        first = {'': 'self, ', 'static': '', 'cls': 'cls, '}[kind]
        for sg, ret in sigs:
            L.append(f'    {stack}\n    def m{i}({first}{sg}){ret}: ...')
        impl_deco = {'': '', 'static': '    @staticmethod\n', 'cls': '    @classmethod\n'}[kind]
        L.append(f'{impl_deco}    def m{i}({first}x, **kw): pass')
    s = pd.build_mem([pd.Mod('m', '\n'.join(L) + '\n')])
    for i, (stack, kind) in enumerate(OV_STACKS):
        fn = s.allobjects[f'm.K.m{i}']
        res['evals'] += 1
        res['nontrivial_count'] += 1
        label = stack.replace('\n    ', '+').replace('@', '')
        case = {'kind': 'ovstack', 'i': i}
        first = {'': 'self, ', 'static': '', 'cls': 'cls, '}[kind]
        if len(fn.overloads) != len(sigs):
            res['violations'].append(core.violation(f'overload-stacks/count/{label}', f'{len(fn.overloads)} overloads recorded for {len(sigs)} written under {stack!r}', case))
            continue
        for ov, (sg, ret) in zip(fn.overloads, sigs):
            line = text_of(format_function_def(fn.name, fn.is_async, ov))
            pre = f'def m{i}'
            before = len(res['violations'])
            compare(first + sg, ret, line[len(pre):].rstrip()[:-1], 'overload-stacks', case, res)
            for v in res['violations'][before:]:
                v['sig'] += '/' + label


SCOPES_OV = ['module', 'class A', 'class B', 'nested A.N', 'plain-in-class C']


def run_overload_scopes(res: Dict[str, Any]) -> None:
    """the same function name in several scopes of one module - overloaded at module level, in two classes, in a nested class, plain in a third class -
    for every order of the scopes and every subset of >= 2 scopes: each definition displays its own overloads (or its own signature), nobody else's"""
    from pydoctor.templatewriter.pages import format_function_def, format_signature
    import itertools as it

    def block(scope: str, tag: str) -> Tuple[str, str, List[Tuple[str, str]]]:
        sigs = [(f'x: int, {tag}: int = 1', ' -> int'), (f'x: str, {tag}: str = ...', ' -> str')]
        if scope == 'module':
            src = ''.join(f'@overload\ndef f({sg}){ret}: ...\n' for sg, ret in sigs) + f'def f(x, {tag}=None): pass\n'
            return 'm.f', src, sigs
        if scope.startswith('class'):
            cn = scope.split()[1]
            sigs = [('self, ' + sg, ret) for sg, ret in sigs]
            src = f'class {cn}:\n' + ''.join(f'    @overload\n    def f({sg}){ret}: ...\n' for sg, ret in sigs) + f'    def f(self, x, {tag}=None): pass\n'
            return f'm.{cn}.f', src, sigs
        if scope.startswith('nested'):
            sigs = [('self, ' + sg, ret) for sg, ret in sigs]
            src = 'class A2:\n    class N:\n' + ''.join(f'        @overload\n        def f({sg}){ret}: ...\n' for sg, ret in sigs) + f'        def f(self, x, {tag}=None): pass\n'
            return 'm.A2.N.f', src, sigs
        src = f'class C:\n    def f(self, only_{tag}: bytes) -> bytes: pass\n'
        return 'm.C.f', src, [(f'self, only_{tag}: bytes', ' -> bytes')]
    for r in range(2, len(SCOPES_OV) + 1):
        for combo in it.permutations(SCOPES_OV, r):
            blocks = [block(sc, f't{i}') for i, sc in enumerate(combo)]
            src = 'from typing import overload\n' + ''.join(b[1] for b in blocks)
            s = pd.build_mem([pd.Mod('m', src)])
            res['evals'] += 1
            res['nontrivial_count'] += 1
            case = {'kind': 'ovscopes', 'scopes': list(combo)}
            for (full, _, sigs), sc in zip(blocks, combo):
                fn = s.allobjects.get(full)
                which = sc.split()[0] + '-after-' + '+'.join(x.split()[0] for x in combo[:combo.index(sc)]) if combo.index(sc) else sc.split()[0] + '-first'
                if fn is None:
                    res['violations'].append(core.violation(f'overload-scopes/missing/{sc.split()[0]}', f'{full} not documented in\n{src}', case))
                    continue
                if sc.startswith('plain'):
                    shown = [text_of(format_signature(fn))]
                    pre = ''
                    if fn.overloads:
                        res['violations'].append(core.violation(f'overload-scopes/foreign-overloads/{sc.split()[0]}', f'{full} shows {len(fn.overloads)} overloads it does not have, in\n{src}', case))
                        continue
                else:
                    if len(fn.overloads) != len(sigs):
                        res['violations'].append(core.violation(f'overload-scopes/count/{sc.split()[0]}', f'{full}: {len(fn.overloads)} overloads recorded for {len(sigs)} written ({which}), in\n{src}', case))
                        continue
                    shown = [text_of(format_function_def(fn.name, fn.is_async, ov))[len('def f'):].rstrip()[:-1] for ov in fn.overloads]
                for line, (sg, ret) in zip(shown, sigs):
                    before = len(res['violations'])
                    compare(sg, ret, line, 'overload-scopes', case, res)
                    for v in res['violations'][before:]:
                        v['sig'] += '/' + sc.split()[0]


FALLBACK_DEFAULTS = ["'\\n'.join", "'\\n'.join(H)", "f'Hello\\n{N}'", "f'{S}\\n'", "lambda: 'a long string with a newline\\n and more text following here'",
                     "x == 'a long string with a newline\\n and more text following here'", "[f'{S}\\n{S}', 1]", "(f'x\\n{y}', 2)", "g(f'x\\n{y}')", "'a\\nb' if c else d", "[c for c in 'a\\nb']",
                     "'\\n'.join(str(i) for i in range(3))", "f'{a}' f'\\n{b}'"]


def run_fallback_defaults(res: Dict[str, Any]) -> None:
    """defaults displayed through the source-code fallback whose text holds a line break: shown whole and meaning the same, or cut AND marked as cut"""
    from pydoctor.templatewriter.pages import format_signature
    from pydoctor.stanutils import flatten
    rows = []
    for d in FALLBACK_DEFAULTS:
        rows.append((d, f'p={d}'))
        rows.append((d, f'a, *, q: int = {d}'))
        rows.append((d, f'p={d}, r=1'))
    src = '\n'.join(f'def f{i}({t}): pass' for i, (_, t) in enumerate(rows)) + '\n'
    s = pd.build_mem([pd.Mod('m', src)])
    for i, (d, t) in enumerate(rows):
        res['evals'] += 1
        res['nontrivial_count'] += 1
        stan = format_signature(s.allobjects[f'm.f{i}'])
        html = flatten(stan)
        text = text_of(stan)
        case = {'kind': 'fallback-default', 'default': d, 'sig': t}
        marked = 'variable-ellipsis' in html
        if marked:
            continue        # cut and visibly marked: accepted by the statement
        before = len(res['violations'])
        compare(t, '', text, 'fallback-defaults', case, res)
        for v in res['violations'][before:]:
            v['sig'] += '/unmarked'


def run_exprs(di: int, res: Dict[str, Any]) -> None:
    from pydoctor.templatewriter.pages import format_signature
    d = DEFAULTS[di]
    rows = []
    for ai, a in enumerate(ANNOTS):
        rows.append((f'p: {a} = {d}', ''))
        rows.append((f'p={d}, *, q: {a}', f' -> {a}'))
        rows.append((f'p, /, q: {a} = {d}, **k: {a}', ''))
    src = PRELUDE + '\n'.join(f'def f{i}({t}){ret}: pass' for i, (t, ret) in enumerate(rows)) + '\n'
    s = pd.build_mem([pd.Mod('m', src)])
    dsig = default_sig(d)
    for i, (t, ret) in enumerate(rows):
        fn = s.allobjects[f'm.f{i}']
        res['evals'] += 1
        res['nontrivial_count'] += 1
        a = ANNOTS[i // 3]
        case = {'kind': 'expr', 'sig': t, 'ret': ret, 'default': d, 'annotation': a}
        text = text_of(format_signature(fn))
        before = len(res['violations'])
        compare(t, ret, text, 'exprs', case, res)
        attribute(res['violations'][before:], dsig, a)
    if len(res['samples']) < 2:
        res['samples'].append({'source': f'def f({rows[4][0]}){rows[4][1]}', 'displayed': text_of(format_signature(s.allobjects['m.f4']))})


def run_annotation_pairs(ai: int, res: Dict[str, Any]) -> None:
    """every ordered pair of annotations in ONE signature (the same strings recur, nested in one place and alone in another): each is displayed like on its own"""
    from pydoctor.templatewriter.pages import format_signature
    a1 = ANNOTS[ai]
    rows = [(f'p: {a1}, q: {a2}', f' -> {a1}') for a2 in ANNOTS] + [(f'p: {a2}, *, q: {a1} = 1', f' -> {a2}') for a2 in ANNOTS]
    src = PRELUDE + '\n'.join(f'def f{i}({t}){ret}: pass' for i, (t, ret) in enumerate(rows)) + '\n'
    s = pd.build_mem([pd.Mod('m', src)])
    for i, (t, ret) in enumerate(rows):
        fn = s.allobjects[f'm.f{i}']
        res['evals'] += 1
        res['nontrivial_count'] += 1
        a2 = ANNOTS[i % len(ANNOTS)]
        case = {'kind': 'annpair', 'a1': ai, 'sig': t, 'ret': ret}
        text = text_of(format_signature(fn))
        before = len(res['violations'])
        compare(t, ret, text, 'annotation-pairs', case, res)
        # attribute to the annotation that is wrong also on its own (known single-annotation findings keep their signature), else to the pair
        for v in res['violations'][before:]:
            if v['sig'].endswith(('annotation', 'returns', 'unparsable')):
                alone = [a for a in (a1, a2) if any(k.endswith('/annotation:' + core.h(a)[:6]) for k in KNOWN_SINGLE)]
                v['sig'] += '/annotation:' + core.h(alone[0])[:6] if alone else '/in-a-pair'


KNOWN_SINGLE: set = set()


def run_depth2(pi: int, res: Dict[str, Any]) -> None:
    """every depth-2 expression tree of the C15 form alphabet under parent form pi, as the default of a plain and of an annotated keyword-only parameter"""
    from pydoctor.templatewriter.pages import format_signature
    pname, par, pb = c15.FORMS[pi]
    exprs: List[Tuple[str, str]] = []
    for pos in range(par):
        for cname, car, cb in c15.FORMS:
            args = ['a'] * par
            args[pos] = cb(*['b', 'c', 'd'][:car])
            src = pb(*args)
            try:
                canon = ast.unparse(ast.parse(src, mode='eval').body)
                ast.parse(f'def f(p={canon}, *, q=({canon})): pass')
            except (SyntaxError, ValueError):
                continue
            if 'yield' in canon or 'await' in canon or ':=' in canon:
                continue
            exprs.append((f'{pname}.{pos}<-{cname}', canon))
    if not exprs:
        return
    rows = [(f'p={e}, *, q: int = ({e})', '') for _, e in exprs]
    src = '\n'.join(f'def f{i}({t}){ret}: pass' for i, (t, ret) in enumerate(rows)) + '\n'
    s = pd.build_mem([pd.Mod('m', src)])
    for i, ((origin, e), (t, ret)) in enumerate(zip(exprs, rows)):
        fn = s.allobjects[f'm.f{i}']
        res['evals'] += 1
        res['nontrivial_count'] += 1
        case = {'kind': 'expr', 'sig': t, 'ret': ret, 'default': e, 'annotation': e, 'where': 'depth2', 'origin': origin}
        text = text_of(format_signature(fn))
        before = len(res['violations'])
        compare(t, ret, text, 'depth2', case, res)
        dsig = default_sig(e)
        for v in res['violations'][before:]:
            v['sig'] += '/' + (dsig or origin.split('<-')[0])


# ---------------------------------------------------------------- jobs

def jobs(tier: str) -> Iterable[Tuple[str, Any]]:
    n4 = 5449
    for ctx in CONTEXTS:
        for ret in range(len(RETS)):
            for start in range(0, n4, 700):
                yield ('layouts<=4', ('layouts', 4, start, 700, ctx, ret))
    for start in range(0, n4, 400):
        yield ('overloads', ('overloads', start, 400))
    for di in range(len(DEFAULTS)):
        yield ('exprs', ('exprs', di))
    for pi in range(len(c15.FORMS)):
        yield ('depth2-exprs', ('depth2', pi))
    yield ('overload-decorator-stacks', ('ovstacks',))
    yield ('overloads-same-name-in-several-scopes', ('ovscopes',))
    yield ('defaults-through-source-fallback', ('fallback',))
    for ai in range(len(ANNOTS)):
        yield ('annotation-pairs', ('annpairs', ai))
    if tier == 'thorough':
        for k in KINDS:
            for d in (0, 1):
                for a in (0, 1):
                    for ctx in ('func', 'method'):
                        yield ('layouts=5', ('layouts5', k, d, a, ctx))


def run_job(job: Any, tier: str) -> Dict[str, Any]:
    res = core.result()
    if job[0] == 'layouts':
        _, n, start, count, ctx, ret = job
        sigs = layouts_upto(n)
        part = sigs[start:start + count]
        for c0 in range(0, len(part), 100):
            run_layouts(part[c0:c0 + 100], ctx, RETS[ret], start + c0, res)
    elif job[0] == 'layouts5':
        _, k0, d0, a0, ctx = job
        part = []
        for rest in itertools.product(itertools.product(KINDS, [0, 1], [0, 1]), repeat=4):
            t = render(((k0, d0, a0),) + rest)
            if t is None:
                continue
            try:
                ast.parse(f'def f({t}): pass')
            except SyntaxError:
                continue
            part.append(t)
        for c0 in range(0, len(part), 100):
            run_layouts(part[c0:c0 + 100], ctx, '', c0, res)
    elif job[0] == 'overloads':
        _, start, count = job
        sigs = layouts_upto(4)
        part = sigs[start:start + count]
        for c0 in range(0, len(part), 50):
            run_overloads(part[c0:c0 + 50], sigs, start + c0, res)
    elif job[0] == 'exprs':
        run_exprs(job[1], res)
    elif job[0] == 'depth2':
        run_depth2(job[1], res)
    elif job[0] == 'ovstacks':
        run_overload_stacks(res)
    elif job[0] == 'ovscopes':
        run_overload_scopes(res)
    elif job[0] == 'fallback':
        run_fallback_defaults(res)
    elif job[0] == 'annpairs':
        run_annotation_pairs(job[1], res)
    return res


def replay(case: Dict[str, Any]) -> List[Dict[str, Any]]:
    res = core.result()
    if case['kind'] == 'ovstack':
        run_overload_stacks(res)
        return [v for v in res['violations'] if v['case'] == case]
    if case['kind'] == 'fallback-default':
        run_fallback_defaults(res)
        return [v for v in res['violations'] if v['case'] == case]
    if case['kind'] == 'ovscopes':
        run_overload_scopes(res)
        return [v for v in res['violations'] if v['case'] == case]
    if case['kind'] == 'annpair':
        run_annotation_pairs(case['a1'], res)
        return [v for v in res['violations'] if v['case'] == case]
    if case['kind'] == 'layout':
        run_layouts([case['sig']], case['ctx'], case['ret'], 0, res)
    elif case['kind'] == 'overloads':
        from pydoctor.templatewriter.pages import format_function_def
        trio = [tuple(x) for x in case['sigs']]
        L = ['from typing import overload'] + [f'@overload\ndef g0({sg}){ret}: ...' for sg, ret in trio] + ['def g0(*args, **kw): pass']
        s = pd.build_mem([pd.Mod('m', '\n'.join(L) + '\n')])
        fn = s.allobjects['m.g0']
        if len(fn.overloads) != 3:
            return [core.violation('overloads/count', 'overload count', case)]
        for ov, (sg, ret) in zip(fn.overloads, trio):
            line = text_of(format_function_def(fn.name, fn.is_async, ov))
            compare(sg, ret, line[len('def g0'):].rstrip()[:-1], 'overloads', case, res)
    else:
        from pydoctor.templatewriter.pages import format_signature
        s = pd.build_mem([pd.Mod('m', f'def f0({case["sig"]}){case["ret"]}: pass\n')])
        if case.get('where') == 'depth2':
            compare(case['sig'], case['ret'], text_of(format_signature(s.allobjects['m.f0'])), 'depth2', case, res)
            for v in res['violations']:
                v['sig'] += '/' + (default_sig(case['default']) or case['origin'].split('<-')[0])
        else:
            compare(case['sig'], case['ret'], text_of(format_signature(s.allobjects['m.f0'])), 'exprs', case, res)
            attribute(res['violations'], default_sig(case['default']) if case.get('default') else None, case.get('annotation', ''))
    return res['violations']
