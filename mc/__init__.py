"""Bounded-exhaustive exploration ("model checking") machinery for the pydoctor properties."""
