from __future__ import annotations
import argparse, os, sys


def main() -> int:
    ap = argparse.ArgumentParser(prog='check')
    ap.add_argument('prop', nargs='?')
    ap.add_argument('--tier', choices=['quick', 'thorough'], default=None)
    ap.add_argument('--replay', default=None)
    ap.add_argument('--workers', type=int, default=int(os.environ.get('VERIF_WORKERS', '16')))
    ap.add_argument('--only', default=None, help='run only the jobs with this bound label (debugging; no vacuity floor)')
    ap.add_argument('--selftest', action='store_true')
    a = ap.parse_args()
    import pydoctor
    repo = os.path.realpath(os.environ.get('VERIF_REPO', '/repo'))
    if not os.path.realpath(pydoctor.__file__).startswith(repo + os.sep):
        print(f'HARNESS-ERROR pydoctor imported from {pydoctor.__file__}, expected under {repo}')
        return 2
    if a.selftest:
        from mc import selftest
        return selftest.main()
    if not a.prop:
        ap.error('property id required')
    prop = a.prop.upper()
    # one scratch root per run: workers killed at a cap or at an early stop cannot clean up after themselves, the front end does
    import shutil, tempfile
    base = os.environ.get('VERIF_SCRATCH')
    if not (base and os.path.isdir(base)):
        base = '/dev/shm' if os.path.isdir('/dev/shm') and os.access('/dev/shm', os.W_OK) else tempfile.gettempdir()
    root = tempfile.mkdtemp(prefix='vf-', dir=base)
    os.environ['VERIF_SCRATCH'] = root
    me = os.getpid()
    try:
        from mc import core
        if a.replay:
            return core.run_replay(prop, a.replay)
        tier = a.tier or os.environ.get('VERIF_TIER') or 'quick'
        if tier not in ('quick', 'thorough'):
            tier = 'quick'
        return core.run_check(prop, tier, workers=a.workers, only_label=a.only)
    finally:
        if os.getpid() == me:
            shutil.rmtree(root, ignore_errors=True)


if __name__ == '__main__':
    sys.exit(main())
