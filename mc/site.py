"""Shared project family, full-run helper, link crawler and listing extractor for C11, C12, C17 (and C10)."""
from __future__ import annotations

import json
import os
import re
import xml.parsers.expat as expat
from html.parser import HTMLParser
from typing import Any, Dict, Iterable, Iterator, List, Optional, Sequence, Set, Tuple
from urllib.parse import unquote, urldefrag

from mc import pd

BASE: Dict[str, str] = {
    'pk/__init__.py': '"""Package."""\n',
    'pk/a.py': '"""Mod a."""\nclass A:\n    """A doc."""\n    def meth(self):\n        """meth doc."""\n    X = 1\n',
    'pk/b.py': '"""Mod b."""\nfrom .a import A\n',
    'pk/sub/__init__.py': '"""Sub."""\n',
    'pk/sub/deep.py': '"""Deep."""\n',
}

# feature -> {file: appended source, '__args__': extra argv, '__roots__': extra roots, '__files__': extra files}
F: Dict[str, Dict[str, Any]] = {
    'subclass':      {'pk/b.py': 'class B(A):\n    """B doc."""\n    def meth(self): pass\n    X = 2\n'},
    'subsub':        {'pk/sub/deep.py': 'from ..a import A\nclass D(A):\n    def other(self): "other L{A.meth}"\n'},
    'inh-xref':      {'pk/a.py': 'class A2(A):\n    def meth(self): pass\n', 'pk/b.py': 'class B2(A):\n    def meth(self): pass\n'},
    'inh-doc-xref':  {'pk/a.py': 'class Ax:\n    def m2(self, x):\n        """Doc with L{Ax.sib} and L{sib} and L{A}.\n\n        @param x: see L{sib}\n        @return: L{Ax.sib}\n        """\n    def sib(self): pass\n',
                      'pk/b.py': 'from .a import Ax\nclass Bx(Ax):\n    def m2(self, x): pass\n'},
    'summary-xref':  {'pk/a.py': 'def fs():\n    """Summary L{A.meth} and L{pk.b}. More."""\n'},
    'xrefs':         {'pk/b.py': 'def fx():\n    """L{A} L{A.meth} L{A.X} L{pk.a} L{pk} L{pk.sub.deep} L{fx}"""\n'},
    'annot':         {'pk/b.py': 'def fa(x: A, y: "A" = A.X) -> "A": pass\nV: A = A()\n'},
    'generic-base':  {'pk/a.py': 'from typing import Generic, TypeVar\nT = TypeVar("T")\n"""type var"""\nclass Box(Generic[T], A):\n    def get(self) -> T: pass\n'},
    'const':         {'pk/b.py': 'from typing import Final\nCONST: Final = [A, A.meth, A.X]\n'},
    'ctor':          {'pk/a.py': 'class K:\n    def __init__(self, a: int): pass\n    @classmethod\n    def make(cls) -> "K": pass\n'},
    'nested':        {'pk/a.py': 'class O:\n    class M:\n        class I:\n            def deep(self): "L{O.M}"\n'},
    'reexport':      {'pk/__init__.py': 'from .a import A\n__all__=["A"]\n'},
    'dup':           {'pk/a.py': 'def A(): "dup"\n'},
    'dup-sub':       {'pk/a.py': 'class Dd:\n    "first"\nclass Dd2(Dd): pass\ndef Dd(): "second"\n'},
    'private':       {'pk/a.py': 'class _P(A):\n    def _pm(self): pass\n'},
    'private-mod':   {'__files__': {'pk/_impl.py': '"""Impl."""\nclass Q:\n    def qm(self): "L{Q}"\n'}, 'pk/b.py': 'from ._impl import Q\nclass QB(Q): pass\n'},
    # members inherited and not overridden, two levels down: what the "Inherited from" tables of the subclasses list
    'inherit-no-override': {'pk/a.py': 'class Base2:\n    "base2"\n    def zzsecretmeth(self): "secret doc"\n    zzsecretattr = 1\n    "attr doc"\n    def shown(self): "s"\n',
                            'pk/b.py': 'from .a import Base2\nclass Child2(Base2):\n    "c2"\n    def own(self): pass\nclass Grand2(Child2):\n    "g2"\n'},
    'hidden-base':   {'pk/a.py': 'class H(A):\n    def meth(self): pass\n', 'pk/b.py': 'from .a import H\nclass HB(H):\n    def meth(self): "L{H}"\n',
                      '__args__': ['--privacy', 'HIDDEN:pk.a.H']},
    'hidden-mod':    {'__files__': {'pk/hid.py': '"""Hid."""\nclass HM:\n    def hm(self): pass\n'}, 'pk/b.py': 'from .hid import HM\nclass HMB(HM):\n    def hm(self): "L{HM.hm}"\n',
                      '__args__': ['--privacy', 'HIDDEN:pk.hid']},
    'hidden-member': {'pk/a.py': 'class Hm(A):\n    def meth(self): "over"\n    def vis(self): "L{Hm.meth}"\n', 'pk/b.py': 'from .a import Hm\nclass Hm2(Hm):\n    def meth(self): pass\n',
                      '__args__': ['--privacy', 'HIDDEN:pk.a.Hm.meth']},
    'zope':          {'pk/a.py': 'from zope.interface import Interface, implementer\nclass IF(Interface):\n    def im(): "im doc"\n@implementer(IF)\nclass Z:\n    def im(self): pass\n'},
    'property':      {'pk/a.py': 'class Pr:\n    @property\n    def p(self) -> A: "p"\n    @p.setter\n    def p(self, v): pass\n'},
    'overload':      {'pk/b.py': 'from typing import overload\n@overload\ndef ov(x: int) -> A: ...\n@overload\ndef ov(x: str) -> A: ...\ndef ov(x): pass\n'},
    'sections':      {'pk/a.py': 'def fsec():\n    """\n    Intro.\n\n    Title\n    =====\n\n    Text.\n    """\n'},
    'deprecated':    {'pk/b.py': 'from twisted.python.deprecate import deprecated\nfrom incremental import Version\n@deprecated(Version("pk",1,2,3), replacement="pk.a.A")\ndef old(): pass\n'},
    'ivar':          {'pk/a.py': 'class Iv:\n    """\n    @ivar q: doc L{A}\n    @type q: L{A}\n    """\n'},
    'same-name':     {'__files__': {'pk/pk.py': '"""Inner pk."""\nclass InPk:\n    pass\n'}, 'pk/__init__.py': 'version = "1"\n"""the version"""\ndef rootfn(): "L{version}"\n'},
    'odd-names':     {'pk/a.py': 'class Ünï:\n    def mé(self): "L{Ünï}"\nclass Y(Ünï): pass\n'},
    # the same top-level name given twice, from two source trees: the later one wins; what only the earlier one had must not leave dead links
    'dup-root-package': {'__files__': {'old/dup/__init__.py': '"""Old."""\nclass InOld:\n    "o"\n', 'old/dup/legacy.py': '"""Legacy."""\nclass Adapter:\n    "a"\n    def run(self): "L{Adapter}"\ndef lf(): "f"\n',
                                       'old/dup/shared.py': 'def s(): "old"\n', 'new/dup/__init__.py': '"""New."""\nclass InNew:\n    "n"\n', 'new/dup/shared.py': 'def s(): "new"\nclass NewK:\n    "k"\n    def m(self): "L{NewK}"\n'},
                         '__roots__': ['old/dup', 'new/dup']},
    'dup-root-module': {'__files__': {'m1/dupm.py': '"""First."""\nclass OnlyFirst:\n    "f"\n    def m(self): "L{OnlyFirst}"\n', 'm2/dupm.py': '"""Second."""\nclass OnlySecond:\n    "s"\n'},
                        '__roots__': ['m1/dupm.py', 'm2/dupm.py']},
    'two-roots':     {'__files__': {'other/__init__.py': '"""Other root."""\nfrom pk.a import A\nclass OA(A):\n    def meth(self): "L{pk.a.A}"\n', 'other/m.py': 'def om(): "L{other}"\n'},
                      '__roots__': ['other']},
    'mod-sections':  {'__files__': {'pk/secmod.py': '"""\nIntro.\n\nUsage\n=====\n\nText.\n\nDetails\n-------\n\nMore.\n"""\nclass SecK:\n    """K doc."""\n    class SecIn:\n        "in"\ndef secf(): "L{SecK}"\n'}},
    'pkg-sections':  {'__files__': {'pk/secpkg/__init__.py': '"""\nIntro.\n\nOverview\n========\n\nText.\n\nNotes\n=====\n\nMore.\n"""\nclass PkK:\n    "k"\n', 'pk/secpkg/child.py': '"""Child."""\nclass ChK:\n    "c"\n',
                                    'pk/secpkg/inner/__init__.py': '"""Inner.\n\nInnerTitle\n==========\n\nText.\n"""\n', 'pk/secpkg/inner/leaf.py': '"leaf"\n'}},
    'class-sections': {'pk/a.py': 'class SecC:\n    """\n    Intro.\n\n    Howto\n    =====\n\n    Text.\n    """\n    class SecN:\n        """\n        N.\n\n        NTitle\n        ======\n\n        Text.\n        """\n        def nm(self): "nm"\n    def cm(self): "cm"\n'},
    'main-mod':      {'__files__': {'pk/__main__.py': '"""Entry point."""\ndef main(): "L{main}"\nclass Cli:\n    def run(self): pass\n', 'pk/sub/__main__.py': '"""Sub entry."""\n'}},
    'under-names':   {'pk/a.py': '_u = 1\n"""u doc"""\ndef __halfdunder(): "h"\nclass __Mangled:\n    def pub(self): "p"\ndef __pub__(): "dunder"\nclass _U2:\n    class In:\n        "in"\n',
                      '__files__': {'pk/_privpkg/__init__.py': '"""Private package."""\n', 'pk/_privpkg/pubchild.py': '"""Public child of a private package."""\nclass PC:\n    "pc"\n'}},
    'cycle-late-base': {'__files__': {'pk/cyc1.py': '"""c1"""\nfrom .cyc2 import Derived0\nclass Base0:\n    "base"\n    def bm(self): "L{Derived0}"\nclass Other0(Derived0):\n    "o"\n',
                                      'pk/cyc2.py': '"""c2"""\nfrom .cyc1 import Base0\nclass Derived0(Base0):\n    "d"\n    def bm(self): pass\nclass Leaf0(Derived0):\n    "l"\n'}},
    'same-short-names': {'__files__': {'pk/client.py': '"""cl"""\nclass Options:\n    "o"\nclass Extended(Options):\n    class Meta:\n        "m"\n    class Inner(Options):\n        "i"\n',
                                       'pk/server.py': '"""sv"""\nclass Options:\n    "o"\nclass Extended(Options):\n    class Meta:\n        "m"\n    class Inner(Options):\n        "i"\ndef Meta(): "f"\n'}},
    'reexport-func-default': {'__files__': {'pk/rx2/__init__.py': '"""rx2"""\nfrom ._impl import moved, MovedK\n__all__ = ["moved", "MovedK"]\n',
                                            'pk/rx2/_impl.py': '"""impl"""\ndef helper(): "h"\ndef moved(a=helper, b: "helper" = 1):\n    "see L{pk.rx2._impl.helper} and L{helper} and L{moved}"\n'
                                                               'class MovedK:\n    "k L{helper}"\n    def m(self, x=helper): "L{helper} L{MovedK.m}"\n'}},
    'reexport-default-const': {'__files__': {'pk/rx3/__init__.py': '"""rx3"""\nfrom ._b import func, Kd, CONST\n__all__ = ["func", "Kd"]\n',
                                             'pk/rx3/_b.py': '"""b"""\nCONST = 1\n"""doc"""\nclass Helper:\n    "h"\ndef func(a=CONST, b: Helper = Helper()) -> Helper:\n    "doc"\n'
                                                             'class Kd(Helper):\n    "k"\n    attr: Helper = CONST\n    def m(self, x=CONST, y: "Helper" = None): "m"\n'}},
    'reexport-onto-module-name': {'__files__': {'pk/pfoo/__init__.py': '"""pfoo"""\nfrom .foo import foo\n__all__ = ["foo"]\n', 'pk/pfoo/foo.py': '"""foo mod"""\ndef foo(): "f"\nclass Other:\n    "o"\n    def om(self): "L{foo}"\n'}},
    'rst-internal-targets': {'__files__': {'pk/rstmod.py': '__docformat__ = "restructuredtext"\n"""rst"""\ndef rf():\n    """\n    Summary, see more_ and [1]_.\n\n    .. _more:\n\n    Details here [#]_ and |sub|.\n\n'
                                                           '    .. [1] footnote text\n    .. [#] auto footnote\n    .. |sub| replace:: substituted\n    """\nclass RK:\n    """\n    Class summary with target_.\n\n    .. _target:\n\n    Body.\n    """\n'}},
    'many-mods':     {'__files__': {f'pk/many/m{i:02d}.py': f'"""m{i}."""\n' for i in range(52)} | {'pk/many/__init__.py': '"""Many."""\n'}},
}
NAMES = list(F)
CONFIGS: List[List[str]] = [[], ['--sidebar-expand-depth', '1'], ['--sidebar-expand-depth', '2'], ['--sidebar-expand-depth', '3'], ['--no-sidebar'],
                            ['--theme', 'readthedocs'], ['--theme', 'base'], ['--sidebar-toc-depth', '0'], ['--html-viewsource-base', 'http://x/src', '--project-url', 'http://x/']]


def project(feats: Sequence[str]) -> Tuple[Dict[str, str], List[str], List[str]]:
    files = dict(BASE)
    args: List[str] = []
    roots = ['pk']
    for f in feats:
        for k, v in F[f].items():
            if k == '__args__':
                args += v
            elif k == '__roots__':
                roots += [r for r in v if r not in roots]
            elif k == '__files__':
                for fk, fv in v.items():
                    files[fk] = files.get(fk, '') + fv
            else:
                files[k] = files[k] + v
    return files, args, roots


VOID = {'area', 'base', 'br', 'col', 'embed', 'hr', 'img', 'input', 'link', 'meta', 'param', 'source', 'track', 'wbr'}


class Pg(HTMLParser):
    def __init__(self) -> None:
        super().__init__(convert_charrefs=True)
        self.links: List[Tuple[str, str, str, str]] = []
        self.where: Dict[Tuple[str, str, str, str], str] = {}      # link -> 'sidebar' | 'main' (first occurrence)
        self.anchors: Set[str] = set()
        self._stack: List[Tuple[str, bool]] = []

    def handle_starttag(self, tag: str, attrs: List[Tuple[str, Optional[str]]]) -> None:
        a = dict(attrs)
        in_sidebar = (bool(self._stack) and self._stack[-1][1]) or 'sidebar' in (a.get('class') or '').lower()
        if tag not in VOID:
            self._stack.append((tag, in_sidebar))
        for k in ('href', 'src'):
            if a.get(k) is not None:
                link = (tag, a.get('class') or '', k, a[k] or '')
                self.links.append(link)
                self.where.setdefault(link, 'sidebar' if in_sidebar else 'main')
        for k in ('id', 'name'):
            if a.get(k) is not None and tag != 'meta':
                self.anchors.add(a[k] or '')

    def handle_startendtag(self, tag: str, attrs: List[Tuple[str, Optional[str]]]) -> None:
        self.handle_starttag(tag, attrs)
        if tag not in VOID and self._stack:
            self._stack.pop()

    def handle_endtag(self, tag: str) -> None:
        for i in range(len(self._stack) - 1, -1, -1):
            if self._stack[i][0] == tag:
                del self._stack[i:]
                break


SUMMARY_PAGES = ('nameIndex.html', 'classIndex.html', 'moduleIndex.html', 'undoccedSummary.html', 'all-documents.html', 'index.html')
_dup = re.compile(r' \d+(\.|$)')


def parse_pages(out: str) -> Dict[str, Pg]:
    pages: Dict[str, Pg] = {}
    for f in os.listdir(out):
        if f.endswith('.html'):
            p = Pg()
            p.feed(open(os.path.join(out, f), encoding='utf-8').read())
            pages[f] = p
    return pages


def unreachable_through_contents(o: Any) -> bool:
    """the object, or a container of it, was replaced in its parent's contents by another object of the same name (e.g. a module shadowed by a
    function re-exported under the module's own name): the writer, which walks contents, never reaches it"""
    while o.parent is not None:
        if o.parent.contents.get(o.name) is not o:
            return True
        o = o.parent
    return False


def crawl(out: str, system: Any, pages: Optional[Dict[str, Pg]] = None) -> List[Tuple[Tuple[str, ...], str]]:
    """returns [(signature tuple, human description)]"""
    pages = pages or parse_pages(out)
    byurl: Dict[str, Any] = {}
    for k, o in system.allobjects.items():
        try:
            byurl[unquote(o.url)] = o
        except Exception:  # noqa
            pass
    sigs: List[Tuple[Tuple[str, ...], str]] = []
    for f, p in pages.items():
        for tag, cls, k, u in p.links:
            if re.match(r'^[a-zA-Z][a-zA-Z0-9+.-]*:', u) or u.startswith('//'):
                continue
            path, frag = urldefrag(u)
            path = unquote(path)
            frag = unquote(frag)
            tf = f if path == '' else path
            full = tf + ('#' + frag if frag else '')
            clause = None
            if not os.path.exists(os.path.join(out, tf)):
                clause = 'dead-file'
            elif frag and tf.endswith('.html') and tf in pages and frag not in pages[tf].anchors:
                clause = 'dead-anchor'
            if clause:
                o = byurl.get(full)
                cat = 'no-object' if o is None else ('hidden-target' if not o.isVisible else ('superseded-duplicate' if _dup.search(o.fullName()) else 'visible'))
                if cat == 'visible' and unreachable_through_contents(o):
                    cat = 'inside-replaced-module'
                if o is None and tf == 'classIndex.html' and frag in system.allobjects:
                    # an entry of the class hierarchy: say whether the class hangs below a superseded duplicate definition (known finding) or not
                    target = system.allobjects[frag]
                    try:
                        anc = [b for b in target.mro(True) if not isinstance(b, str)]
                    except Exception:  # noqa
                        anc = [target]
                    cat = 'hierarchy-entry-below-superseded-class' if any(_dup.search(b.fullName()) for b in anc) else 'hierarchy-entry'
                srcpage = 'summary' if f in SUMMARY_PAGES and f != 'index.html' else 'object-page'
                producer = f'{tag}.{cls.split()[0] if cls else ""}'
                hint = ''
                if cat in ('no-object', 'visible', 'hierarchy-entry', 'hierarchy-entry-below-superseded-class'):
                    hint = 'toc-entry' if frag.startswith('rst-toc-entry') else ('same-page-fragment' if path == '' else 'other-page')
                    if hint == 'same-page-fragment':
                        # where the link stands (sidebar table of contents / page body) and whether the anchor exists on another page
                        # (a piece of a docstring shown away from the rest of it, e.g. its summary) or nowhere
                        hint += '@' + p.where.get((tag, cls, k, u), 'main') + ('/anchor-on-another-page' if any(frag in q.anchors for q in pages.values()) else '/anchor-nowhere')
                sigs.append(((clause, producer, cat, srcpage, hint), f'{f}: {k}={u!r} -> {clause} ({cat})'))
    # all-documents url fields
    ad = os.path.join(out, 'all-documents.html')
    if os.path.exists(ad):
        for url in re.findall(r'<div class="url">(.*?)</div>', open(ad, encoding='utf-8').read(), flags=re.S):
            u = unquote(re.sub(r'<[^>]+>', '', url).strip())
            path, frag = urldefrag(u)
            if not os.path.exists(os.path.join(out, path)):
                sigs.append((('dead-file', 'all-documents.url', 'url', 'summary', ''), f'all-documents url {u!r}: no such file'))
            elif frag and path in pages and frag not in pages[path].anchors:
                o = byurl.get(u)
                cat = 'no-object' if o is None else ('superseded-duplicate' if _dup.search(o.fullName()) else 'visible')
                sigs.append((('dead-anchor', 'all-documents.url', cat, 'summary', ''), f'all-documents url {u!r}: no such anchor'))
    # model -> pages
    from pydoctor import model
    for k, o in system.allobjects.items():
        if not o.isVisible or _dup.search(k):
            continue
        u = unquote(o.url)
        path, frag = urldefrag(u)
        if not os.path.exists(os.path.join(out, path)):
            sigs.append((('visible-object-without-page', 'inside-replaced-module' if unreachable_through_contents(o) else '', type(o).__name__, '', ''), f'{k}: no file {path}'))
        elif frag and frag not in pages[path].anchors:
            sigs.append((('visible-object-without-anchor', '', type(o).__name__, '', ''), f'{k}: no anchor {frag} in {path}'))
        elif not frag and isinstance(o, (model.Module, model.Class)):
            # the page at that address must be the page of THIS object
            txt = open(os.path.join(out, path), encoding='utf-8').read()
            if f'{o.name}' not in txt:
                sigs.append((('page-of-another-object', '', type(o).__name__, '', ''), f'{k}: {path} does not mention it'))
    return sigs


def sigstr(t: Tuple[str, ...]) -> str:
    return '/'.join(x for x in t if x != '' or True).rstrip('/')


# ---------------------------------------------------------------- listings (C12)

MEMBER_DIV = re.compile(r'(base)?(function|method|classmethod|staticmethod|attribute|classvariable|instancevariable|variable|constant|property|typealias|typevariable|schemafield|exception|interface|class)')


def listings(path: str, fname: str) -> List[Tuple[str, str, bool, int]]:
    """(context, resolved target or anchor name, carries the private marker, row identity) for listing entries on this page"""
    raw = open(path, encoding='utf-8').read()
    raw = re.sub(r'^\s*<!DOCTYPE[^>]*>\s*', '', raw)
    out: List[Tuple[str, str, bool, int]] = []
    stack: List[Tuple[str, Dict[str, str]]] = []
    p = expat.ParserCreate()

    def resolve(h: str) -> str:
        pth, frag = urldefrag(h)
        return unquote((pth or fname) + ('#' + frag if frag else ''))

    def start(name: str, attrs: Dict[str, str]) -> None:
        stack.append((name, attrs))
        cls = attrs.get('class', '')
        if name == 'a' and 'internal-link' in cls.split() and 'href' in attrs:
            tgt = resolve(attrs['href'])
            for i in range(len(stack) - 1, -1, -1):
                n, at = stack[i]
                if n == 'tr':
                    tbl = [s for s in stack[:i] if s[0] == 'table']
                    if tbl and 'children' in tbl[-1][1].get('class', '').split():
                        out.append(('table-row', tgt, 'private' in at.get('class', '').split(), id(at)))
                    break
                if n == 'li':
                    ctx = None
                    anc = stack[:i]
                    if any(s[0] == 'div' and 'sidebar' in s[1].get('class', '') for s in anc) or any('itemName' in s[1].get('class', '').split() for s in stack[i:]):
                        ctx = 'sidebar-item'
                    elif fname == 'moduleIndex.html':
                        ctx = 'module-index-item'
                    if ctx:
                        out.append((ctx, tgt, 'private' in at.get('class', '').split(), id(at)))
                    break
        if name == 'a' and 'name' in attrs and len(stack) >= 2 and stack[-2][0] == 'div' and MEMBER_DIV.match(stack[-2][1].get('class', '')):
            out.append(('member-detail', attrs['name'], 'private' in stack[-2][1].get('class', '').split(), id(stack[-2][1])))

    def end(name: str) -> None:
        stack.pop()
    p.StartElementHandler = start
    p.EndElementHandler = end
    p.Parse(raw.encode('utf-8'), True)
    return out


def first_links_per_row(entries: Iterable[Tuple[str, str, bool, int]]) -> Iterator[Tuple[str, str, bool]]:
    seen: Set[int] = set()
    for ctx, tgt, priv, rid in entries:
        if ctx == 'table-row':
            if rid in seen:
                continue       # only the first internal link of a row is the name cell
            seen.add(rid)
        yield ctx, tgt, priv


def run(feats: Sequence[str], extra_args: Sequence[str] = ()) -> Any:
    """context manager: full in-process run of the project; yields pd.Run with .system"""
    files, args, roots = project(feats)
    return pd.cli_run(files, ['-q', *args, *extra_args], roots=roots, keep_system=True)


def traces_of_hidden(out: str, system: Any, target: str, pages: Optional[Dict[str, Pg]] = None) -> List[Tuple[Tuple[str, ...], str]]:
    """Every trace of the hidden object `target` (and everything inside it) in the output tree."""
    pages = pages or parse_pages(out)
    sigs: List[Tuple[Tuple[str, ...], str]] = []
    objs: Dict[str, Any] = {}

    def collect(o: Any) -> None:
        objs[o.fullName()] = o
        for c in o.contents.values():
            collect(c)
    collect(system.allobjects[target])
    from pydoctor import model
    for k, o in objs.items():
        kindname = type(o).__name__
        page = unquote(o.page_object.url)
        if isinstance(o, (model.Module, model.Class)):
            fn = unquote(o.url)
            if os.path.exists(os.path.join(out, fn)) and not (fn == 'index.html'):
                sigs.append((('hidden-page-written', kindname), f'{fn} exists'))
        url = unquote(o.url)
        for f, p in pages.items():
            if k in p.anchors:
                sigs.append((('hidden-id', kindname, 'summary' if f in SUMMARY_PAGES else 'object-page'), f'{f}: id/name {k!r}'))
            for tag, cls, attr, u in p.links:
                if re.match(r'^[a-zA-Z][a-zA-Z0-9+.-]*:', u):
                    continue
                pth, frag = urldefrag(u)
                full = unquote((pth or f) + ('#' + frag if frag else ''))
                if full == url and not (f == unquote(o.page_object.url) and not frag and pth == ''):
                    ctx = 'summary' if f in SUMMARY_PAGES else 'object-page'
                    sigs.append((('hidden-href', f'{tag}.{cls.split()[0] if cls else ""}', kindname, ctx), f'{f}: {attr}={u!r} targets hidden {k}'))
        # generated relationship lists are index entries too (not text written by the author)
        for f in os.listdir(out):
            if not f.endswith('.html'):
                continue
            txt = open(os.path.join(out, f), encoding='utf-8').read()
            for m in re.finditer(r'<(p|div)[^>]*>\s*(Known subclasses|overridden in|Known implementations|Implements interfaces|overrides)(.*?)</\1>', txt, flags=re.S):
                items = [x.strip() for x in re.sub(r'<[^>]+>', '', m.group(3)).replace(':', ' ').split(',')]
                if k in [i.strip() for i in items]:
                    sigs.append((('hidden-in-relationship-list', m.group(2).replace(' ', '-'), kindname), f'{f}: "{m.group(2)}" lists hidden {k}'))
        # a member-table ROW (own or "Inherited from") naming the hidden member, with or without a link: generated, not written by an author
        if not isinstance(o, (model.Module,)):
            for f in os.listdir(out):
                if not f.endswith('.html') or f in SUMMARY_PAGES:
                    continue
                txt = open(os.path.join(out, f), encoding='utf-8').read()
                for m in re.finditer(r'<tr class="[^"]*">(.*?)</tr>', txt, flags=re.S):
                    cells = re.findall(r'<td[^>]*>(.*?)</td>', m.group(1), flags=re.S)
                    if len(cells) >= 2 and re.sub(r'<[^>]+>', '', cells[1]).strip() == o.name:
                        # the same short name may be a visible member of the page's own class: the row is the hidden one's only if no visible
                        # object of that name is documented on / inherited by the page's class
                        page_obj = next((x for x in system.allobjects.values() if unquote(x.url) == f), None)
                        visible_same = False
                        if page_obj is not None and hasattr(page_obj, 'mro'):
                            for kls in page_obj.mro():
                                c = kls.contents.get(o.name)
                                if c is not None:
                                    visible_same = c.isVisible and c is not o
                                    break
                        elif page_obj is not None:
                            c = page_obj.contents.get(o.name)
                            visible_same = c is not None and c.isVisible and c is not o
                        first_definer_is_hidden = page_obj is not None and hasattr(page_obj, 'mro') and next((kls.contents[o.name] for kls in page_obj.mro() if o.name in kls.contents), None) is o
                        if not visible_same and (first_definer_is_hidden or (page_obj is not None and page_obj.contents.get(o.name) is o)):
                            sigs.append((('hidden-member-table-row', kindname), f'{f}: a member table has a row for hidden {k}'))
        # an index ROW without a link is a row all the same: modules in the module index and on the start page
        if isinstance(o, model.Module):
            for f in ('moduleIndex.html', 'index.html'):
                pth = os.path.join(out, f)
                if os.path.exists(pth):
                    txt = open(pth, encoding='utf-8').read()
                    for m in re.finditer(r'<li[^>]*>\s*(?:<[^>]+>\s*)*<code[^>]*>(.*?)</code>', txt, flags=re.S):
                        if re.sub(r'<[^>]+>', '', m.group(1)).strip() == k:
                            sigs.append((('hidden-index-row-as-text', f.split('.')[0], kindname), f'{f}: an index row names hidden {k}'))
        for idx in ('searchindex.json', 'fullsearchindex.json'):
            pth = os.path.join(out, idx)
            # a search entry is a lunr document whose ref is the qualified name: field vectors are keyed "<field>/<ref>"
            if os.path.exists(pth) and re.search(r'"\w+/%s"' % re.escape(json.dumps(k)[1:-1]), open(pth, encoding='utf-8').read()):
                sigs.append((('hidden-in-search-index', idx, kindname), f'{idx} mentions {k}'))
        ad = os.path.join(out, 'all-documents.html')
        if os.path.exists(ad) and re.search(r'<li id="%s"' % re.escape(k), open(ad, encoding='utf-8').read()):
            sigs.append((('hidden-in-all-documents', kindname), f'all-documents lists {k}'))
        inv = os.path.join(out, 'objects.inv')
        if os.path.exists(inv):
            import zlib
            rawinv = open(inv, 'rb').read()
            body = rawinv.split(b'\n', 4)[4] if rawinv.count(b'\n') >= 4 else b''
            try:
                text = zlib.decompress(body).decode('utf-8')
            except Exception:  # noqa
                text = ''
            if any(line.split(' ')[0] == k for line in text.splitlines()):
                sigs.append((('hidden-in-inventory', kindname), f'objects.inv lists {k}'))
    return sigs
