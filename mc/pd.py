"""Adapter: the narrow seams through which the checks drive the real pydoctor code."""
from __future__ import annotations

import contextlib
import functools
import io
import os
import shutil
import sys
import tempfile
import traceback
import warnings
from pathlib import Path
from typing import Any, Dict, Iterable, Iterator, List, Optional, Sequence, Tuple, Union

from pydoctor import driver, model

# the command line front end creates one scratch root per run (VERIF_SCRATCH) and removes it when the run ends, however it ends
SCRATCH_BASE = os.environ.get('VERIF_SCRATCH') or ('/dev/shm' if os.path.isdir('/dev/shm') and os.access('/dev/shm', os.W_OK) else tempfile.gettempdir())
REPO = os.path.realpath(os.environ.get('VERIF_REPO', '/repo'))

FileMap = Dict[str, Union[str, bytes]]


def reset_globals() -> None:
    """Reset every piece of pydoctor process-global state between cases."""
    from pydoctor.templatewriter.pages.table import ChildTable
    from pydoctor.templatewriter.pages.sidebar import ExpandableItem
    from pydoctor import qnmatch, _configparser
    ChildTable.last_id = 0
    ExpandableItem.last_ExpandableItem_id = 0
    for fn in (getattr(qnmatch, '_compile_pattern', None), getattr(_configparser, 'is_quoted', None)):
        if fn is not None and hasattr(fn, 'cache_clear'):
            fn.cache_clear()
    for name in dir(_configparser):
        f = getattr(_configparser, name)
        if hasattr(f, 'cache_clear'):
            f.cache_clear()
    for name in dir(qnmatch):
        f = getattr(qnmatch, name)
        if hasattr(f, 'cache_clear'):
            f.cache_clear()
    warnings.resetwarnings()
    warnings.simplefilter('ignore')


@contextlib.contextmanager
def scratch(prefix: str = 'vf') -> Iterator[Path]:
    d = tempfile.mkdtemp(prefix=prefix, dir=SCRATCH_BASE)
    old = os.getcwd()
    try:
        yield Path(d)
    finally:
        try:
            os.chdir(old)
        except OSError:
            os.chdir('/')
        shutil.rmtree(d, ignore_errors=True)


def write_tree(root: Path, files: FileMap) -> None:
    for rel, content in files.items():
        p = root / rel
        p.parent.mkdir(parents=True, exist_ok=True)
        if isinstance(content, tuple):
            # ('symlink', target) | ('dir',) | ('mode', octal mode, bytes)
            if content[0] == 'symlink':
                os.symlink(content[1], p)
            elif content[0] == 'dir':
                p.mkdir(parents=True, exist_ok=True)
            elif content[0] == 'mode':
                p.write_bytes(content[2])
                os.chmod(p, content[1])
        elif isinstance(content, bytes):
            p.write_bytes(content)
        else:
            p.write_bytes(content.encode('utf-8', 'surrogatepass'))


# ------------------------------------------------------------------------------------
# in-memory model building

class Mod:
    """One module of an in-memory project."""
    __slots__ = ('name', 'src', 'is_package', 'parent')

    def __init__(self, name: str, src: str, is_package: bool = False, parent: Optional[str] = None):
        self.name, self.src, self.is_package, self.parent = name, src, is_package, parent

    @property
    def full(self) -> str:
        return f'{self.parent}.{self.name}' if self.parent else self.name


def project(files: Dict[str, str]) -> List[Mod]:
    """{'p/__init__': src, 'p/a': src, 'q': src} -> list of Mod in pre-order (parents first, sorted)."""
    mods: List[Mod] = []
    for key in sorted(files, key=lambda k: (k.replace('/__init__', ''), )):
        parts = key.split('/')
        if parts[-1] == '__init__':
            name = parts[-2]; parent = '.'.join(parts[:-2]) or None
            mods.append(Mod(name, files[key], True, parent))
        else:
            name = parts[-1]; parent = '.'.join(parts[:-1]) or None
            mods.append(Mod(name, files[key], False, parent))
    return mods


def new_system(options: Optional[Dict[str, Any]] = None, systemcls: Optional[type] = None) -> model.System:
    cls = systemcls or model.System
    s = cls()
    s.options.verbosity = -10
    for k, v in (options or {}).items():
        setattr(s.options, k, v)
    return s


def build_mem(mods: Sequence[Mod], order: Optional[Sequence[int]] = None,
              options: Optional[Dict[str, Any]] = None, systemcls: Optional[type] = None,
              process: bool = True) -> model.System:
    """Build a System from in-memory modules.  `order` is a permutation of indexes into `mods`
    giving the order in which modules are put on System.unprocessed_modules (a package must
    precede its children)."""
    s = new_system(options, systemcls)
    b = s.systemBuilder(s)
    idxs = list(order) if order is not None else list(range(len(mods)))
    for i in idxs:
        m = mods[i]
        b.addModuleString(m.src, m.name, parent_name=m.parent, is_package=m.is_package)
    if process:
        b.buildModules()
    return s


def build_files(root: Path, roots: Sequence[str], options: Optional[Dict[str, Any]] = None,
                systemcls: Optional[type] = None) -> model.System:
    s = new_system(options, systemcls)
    s.options.projectbasedirectory = root
    b = s.systemBuilder(s)
    for r in roots:
        b.addModule(root / r)
    b.buildModules()
    return s


# ------------------------------------------------------------------------------------
# canonical dump

def _name(o: Any) -> Any:
    return o.fullName() if o is not None and hasattr(o, 'fullName') else o


def dump(system: model.System, fields: Optional[Sequence[str]] = None) -> Dict[str, Dict[str, Any]]:
    out: Dict[str, Dict[str, Any]] = {}
    for key, o in system.allobjects.items():
        d: Dict[str, Any] = {
            'type': type(o).__name__, 'kind': o.kind.name if o.kind else None,
            'parent': _name(o.parent), 'doc': o.docstring,
            'contents': sorted(o.contents),
        }
        if isinstance(o, model.Class):
            d['bases'] = list(o.bases)
            d['baseobjects'] = [_name(b) for b in o.baseobjects]
            try:
                d['mro'] = [_name(c) for c in o.mro(include_external=True)]
            except Exception as e:  # pragma: no cover
                d['mro'] = f'ERR {type(e).__name__}'
            d['subclasses'] = sorted(_name(c) for c in o.subclasses)
        if isinstance(o, model.Function):
            d['is_async'] = o.is_async
        if fields is not None:
            d = {k: v for k, v in d.items() if k in fields}
        out[key] = d
    return out


# ------------------------------------------------------------------------------------
# full runs through driver.main

class Run:
    def __init__(self) -> None:
        self.status: Any = None
        self.exc: Optional[str] = None         # formatted traceback of an escaping exception
        self.exc_type: Optional[str] = None
        self.exc_site: Optional[str] = None    # innermost frame inside pydoctor/: 'file.py:function'
        self.stdout = ''
        self.stderr = ''
        self.root: Path = Path('.')
        self.out: Path = Path('.')
        self.system: Optional[model.System] = None

    def lines(self) -> List[str]:
        return self.stdout.replace(str(self.root), '<R>').splitlines()

    def pages(self) -> List[str]:
        return sorted(p.name for p in self.out.iterdir()) if self.out.is_dir() else []


def exc_site(e: BaseException) -> str:
    tb = traceback.extract_tb(e.__traceback__)
    site = [f for f in tb if f.filename.startswith(REPO + os.sep)]
    if site:
        f = site[-1]
        return f'{os.path.relpath(f.filename, REPO)}:{f.name}'
    return '?'


@contextlib.contextmanager
def cli_run(files: FileMap, args: Sequence[str] = (), roots: Sequence[str] = ('pk',),
            keep_system: bool = False, extra_out: Optional[str] = None) -> Iterator[Run]:
    """Run driver.main in-process on a scratch tree, from an empty scratch cwd."""
    reset_globals()
    with scratch('run') as d:
        src = d / 'src'; cwd = d / 'cwd'; out = d / (extra_out or 'out')
        src.mkdir(); cwd.mkdir()
        write_tree(src, files)
        r = Run(); r.root = src; r.out = out
        os.chdir(cwd)
        argv = ['--html-output', str(out), '--project-base-dir', str(src), *args, *[str(src / x) for x in roots]]
        so, se = io.StringIO(), io.StringIO()
        captured: List[model.System] = []
        orig_make = driver.make
        if keep_system:
            def make(system: model.System) -> None:
                captured.append(system)
                orig_make(system)
            driver.make = make  # type: ignore
        try:
            with contextlib.redirect_stdout(so), contextlib.redirect_stderr(se):
                try:
                    r.status = driver.main(argv)
                except SystemExit as e:
                    r.status = ('SystemExit', e.code)
                except BaseException as e:  # noqa
                    if type(e).__name__ == 'JobTimeout':
                        raise
                    r.exc = traceback.format_exc()
                    r.exc_type = type(e).__name__
                    r.exc_site = exc_site(e)
                    # unwrap twisted's FlattenerError
                    inner = getattr(e, 'args', None)
                    if r.exc_type == 'FlattenerError' and inner and isinstance(inner[0], BaseException):
                        r.exc_type = 'FlattenerError/' + type(inner[0]).__name__
        finally:
            driver.make = orig_make  # type: ignore
        r.stdout, r.stderr = so.getvalue(), se.getvalue()
        r.system = captured[0] if captured else None
        yield r


def run_subprocess(files_root: Path, argv: Sequence[str], env_extra: Optional[Dict[str, str]] = None,
                   cwd: Optional[Path] = None, timeout: int = 300) -> Tuple[int, str, str]:
    import subprocess
    env = dict(os.environ)
    env.update(env_extra or {})
    p = subprocess.run([sys.executable, '-m', 'pydoctor', *argv], cwd=str(cwd or files_root), env=env,
                       capture_output=True, text=True, timeout=timeout)
    return p.returncode, p.stdout, p.stderr


# ------------------------------------------------------------------------------------
# recording / tracing System (also usable through the real --system-class option)

class RecordingSystem(model.System):
    """System that records every message (section, text, thresh) and the processing trace."""

    def __init__(self, options: Any = None) -> None:
        self.messages: List[Tuple[str, str, int]] = []
        self.trace: List[Tuple[str, str]] = []        # ('enter'|'exit', module full name)
        super().__init__(options)

    def msg(self, section: str, msg: str, thresh: int = 0, topthresh: int = 100, nonl: bool = False,
            wantsnl: bool = True, once: bool = False) -> None:
        if not (once and (section, msg) in self.once_msgs):
            self.messages.append((section, msg, thresh))
        super().msg(section, msg, thresh, topthresh, nonl, wantsnl, once)

    def processModule(self, mod: Any) -> None:
        self.trace.append(('enter', mod.fullName()))
        try:
            super().processModule(mod)
        finally:
            self.trace.append(('exit', mod.fullName()))

    def warnings(self) -> List[Tuple[str, str]]:
        return [(s, m) for s, m, t in self.messages if t < 0]


def processing_graph(trace: Sequence[Tuple[str, str]]) -> Tuple[set, set]:
    """States = (frozenset processed, tuple processing-stack); transitions labelled by the event."""
    states, trans = set(), set()
    done: frozenset = frozenset()
    stack: Tuple[str, ...] = ()
    st = (done, stack)
    states.add(st)
    for ev, name in trace:
        if ev == 'enter':
            stack = stack + (name,)
        else:
            stack = stack[:-1]
            done = done | {name}
        st2 = (done, stack)
        states.add(st2)
        trans.add((st, (ev, name, 'scheduler' if (ev == 'enter' and len(stack) == 1) else 'on-demand' if ev == 'enter' else 'done'), st2))
        st = st2
    return states, trans
