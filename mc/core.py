"""Explorer core: shards a finite, ordered job list over worker processes, aggregates
coverage, classifies violations against KNOWN_FINDINGS.txt, confirms new violations in a
fresh process, writes replay files and the evidence file.

A property module (mc/props/cXX.py) provides:

  ID, LEVEL, RULE, ASSUMPTIONS (list of str), FLOOR ({'quick': n, 'thorough': n})
  jobs(tier) -> iterable of (bound_label, job)      ordered simplest-first; job is picklable
  run_job(job, tier) -> dict produced with core.result(...)
  replay(case) -> list of violation dicts            re-executes ONE case without the explorer
  optional: init_worker(), finalize(agg, tier) -> dict of extra coverage keys,
            JOB_TIMEOUT (s), CAP ({'quick': s, 'thorough': s}), SPACE (str description)
"""
from __future__ import annotations

import hashlib
import importlib
import json
import multiprocessing
import os
import signal
import subprocess
import sys
import time
import traceback
from typing import Any, Dict, Iterable, List, Optional, Tuple

HOME = os.environ.get('VERIF_HOME', '/verif')
REPO = os.environ.get('VERIF_REPO', '/repo')
DEFAULT_CAP = {'quick': 900.0, 'thorough': 3600.0}     # upper limits only: a loaded machine must not cut a quick run short (a cut run is reported as cap_hit)


# ------------------------------------------------------------------------------------
# results

def result() -> Dict[str, Any]:
    return {'evals': 0, 'nontrivial': set(), 'nontrivial_count': 0, 'outcomes': set(),
            'violations': [], 'states': set(), 'transitions': set(), 'traces': 0,
            'extra': {}, 'samples': [], 'harness_errors': []}


def violation(sig: str, what: str, case: Any) -> Dict[str, Any]:
    sig = '_'.join(sig.split())      # signatures are single tokens in KNOWN_FINDINGS.txt
    return {'sig': sig, 'what': what, 'case': case}


def bump(res: Dict[str, Any], key: str, n: int = 1) -> None:
    res['extra'][key] = res['extra'].get(key, 0) + n


def h(*parts: Any) -> str:
    """Short stable hash used for observation classes."""
    m = hashlib.sha1()
    for p in parts:
        m.update(repr(p).encode('utf-8', 'backslashreplace'))
        m.update(b'\0')
    return m.hexdigest()[:16]


# ------------------------------------------------------------------------------------
# known findings

class Finding:
    def __init__(self, kind: str, prop: str, sig: Optional[str], text: str):
        self.kind, self.prop, self.sig, self.text = kind, prop, sig, text


def load_findings(path: Optional[str] = None) -> List[Finding]:
    path = path or os.path.join(HOME, 'KNOWN_FINDINGS.txt')
    out: List[Finding] = []
    if not os.path.exists(path):
        return out
    for line in open(path, encoding='utf-8'):
        line = line.strip()
        if not line or line.startswith('#'):
            continue
        kind, _, rest = line.partition(':')
        kind = kind.strip()
        fields = rest.strip().split(' ')
        prop = sig = None
        text_start = 0
        for i, f in enumerate(fields):
            if f.startswith('property='):
                prop = f[len('property='):]; text_start = i + 1
            elif f.startswith('sig=') and kind == 'finding':
                sig = f[len('sig='):]; text_start = i + 1
            else:
                break
        if kind in ('finding', 'fixed') and prop:
            out.append(Finding(kind, prop, sig, ' '.join(fields[text_start:])))
    return out


# ------------------------------------------------------------------------------------
# worker side

_MOD = None
_TIER = 'quick'


class JobTimeout(BaseException):
    pass


def _alarm(signum, frame):  # pragma: no cover
    raise JobTimeout('job exceeded its time limit')


import contextlib


@contextlib.contextmanager
def time_limit(seconds: int):
    """Per-case time limit nested inside the job alarm: raises JobTimeout after `seconds`; restores the job's remaining time."""
    import time as _t
    t0 = _t.time()
    # sub-second bookkeeping: signal.alarm() only knows whole seconds, and rounding the job's remaining time once per case made a job of a
    # few thousand fast cases run out of its budget although it had used a fraction of it
    remaining = signal.setitimer(signal.ITIMER_REAL, seconds)[0]
    try:
        yield
    finally:
        signal.setitimer(signal.ITIMER_REAL, 0)
        if remaining:
            signal.setitimer(signal.ITIMER_REAL, max(0.05, remaining - (_t.time() - t0)))


@contextlib.contextmanager
def cpu_limit(seconds: float):
    """Per-case limit on the CPU time of this process (user time, so machine load does not matter): raises JobTimeout."""
    def _h(signum: int, frame: Any) -> None:
        raise JobTimeout()
    old = signal.signal(signal.SIGVTALRM, _h)
    signal.setitimer(signal.ITIMER_VIRTUAL, seconds)
    try:
        yield
    finally:
        signal.setitimer(signal.ITIMER_VIRTUAL, 0)
        signal.signal(signal.SIGVTALRM, old)


def _init(modname: str, tier: str) -> None:
    global _MOD, _TIER
    _MOD = importlib.import_module(modname)
    _TIER = tier
    signal.signal(signal.SIGALRM, _alarm)
    sys.setrecursionlimit(1000)
    if hasattr(_MOD, 'init_worker'):
        _MOD.init_worker()


def _run(item: Tuple[int, str, Any]) -> Tuple[int, str, Dict[str, Any]]:
    idx, label, job = item
    timeout = int(getattr(_MOD, 'JOB_TIMEOUT', 600))
    try:
        signal.alarm(timeout)
        try:
            res = _MOD.run_job(job, _TIER)
            for v in res['violations']:
                v.setdefault('job', job)
        finally:
            signal.alarm(0)
    except JobTimeout:
        res = result()
        res['harness_errors'].append(f'job {idx} {label!r} {job!r:.200} timed out after {timeout}s')
    except BaseException:
        res = result()
        res['harness_errors'].append(f'job {idx} {label!r} {job!r:.200} crashed:\n' + traceback.format_exc())
    return idx, label, res


# ------------------------------------------------------------------------------------
# parent side

def _jsonable(x: Any, limit: Optional[int] = 4000) -> Any:
    """JSON-able copy; strings longer than `limit` are truncated (evidence samples) unless limit is None (replay files)."""
    if isinstance(x, (str, int, float, bool)) or x is None:
        if isinstance(x, str):
            if limit is not None:
                x = x.encode('utf-8', 'backslashreplace').decode('utf-8')
                return x if len(x) <= limit else x[:limit] + '…[truncated]'
            try:
                x.encode('utf-8')
                return x
            except UnicodeEncodeError:
                return {'__surrogates__': x.encode('utf-8', 'surrogatepass').decode('latin-1')}
        return x
    if isinstance(x, bytes):
        if limit is None or len(x) < limit:
            return {'__bytes__': x.decode('latin-1')}
        return {'__bytes__': x[:limit].decode('latin-1'), 'truncated': True}
    if isinstance(x, dict):
        return {str(k): _jsonable(v, limit) for k, v in x.items()}
    if isinstance(x, (list, tuple, set, frozenset)):
        seq = sorted(x, key=repr) if isinstance(x, (set, frozenset)) else x
        return [_jsonable(v, limit) for v in seq]
    return repr(x)


def unjson(x: Any) -> Any:
    """Inverse of _jsonable for the bytes wrapper (lists stay lists)."""
    if isinstance(x, dict):
        if set(x) <= {'__bytes__', 'truncated'} and '__bytes__' in x:
            return x['__bytes__'].encode('latin-1')
        if set(x) == {'__surrogates__'}:
            return x['__surrogates__'].encode('latin-1').decode('utf-8', 'surrogatepass')
        return {k: unjson(v) for k, v in x.items()}
    if isinstance(x, list):
        return [unjson(v) for v in x]
    return x


def repo_head() -> str:
    try:
        head = subprocess.run(['git', '-C', REPO, 'rev-parse', '--short', 'HEAD'], capture_output=True, text=True).stdout.strip()
        dirty = subprocess.run(['git', '-C', REPO, 'status', '--porcelain', '--untracked-files=no'], capture_output=True, text=True).stdout.strip()
        return head + ('+dirty' if dirty else '')
    except Exception:
        return 'unknown'


def run_check(prop: str, tier: str, workers: int = 16, only_label: Optional[str] = None) -> int:
    modname = f'mc.props.{prop.lower()}'
    mod = importlib.import_module(modname)
    seed = int(os.environ.get('VERIF_SEED', '0') or 0)
    t0 = time.time()
    cap = float(os.environ.get('VERIF_CAP', 0) or getattr(mod, 'CAP', DEFAULT_CAP).get(tier, DEFAULT_CAP[tier]))
    items: List[Tuple[int, str, Any]] = []
    for i, (label, job) in enumerate(mod.jobs(tier)):
        if only_label and label != only_label:
            continue
        items.append((len(items), label, job))
    labels_total: Dict[str, int] = {}
    for _, label, _ in items:
        labels_total[label] = labels_total.get(label, 0) + 1
    labels_done: Dict[str, int] = {}

    agg = result()
    agg['job_samples'] = []
    cap_hit = False
    ctx = multiprocessing.get_context('fork')
    nwork = max(1, min(workers, len(items)))
    pool = ctx.Pool(nwork, initializer=_init, initargs=(modname, tier))
    done_jobs = 0
    try:
        it = pool.imap(_run, items, chunksize=1)
        while True:
            try:
                remaining = cap - (time.time() - t0)
                if remaining <= 0:
                    raise multiprocessing.TimeoutError()
                idx, label, res = it.next(timeout=remaining)
            except StopIteration:
                break
            except multiprocessing.TimeoutError:
                cap_hit = True
                break
            done_jobs += 1
            labels_done[label] = labels_done.get(label, 0) + 1
            agg['evals'] += res['evals']
            agg['nontrivial'] |= res['nontrivial']
            agg['nontrivial_count'] += res['nontrivial_count']
            agg['outcomes'] |= res['outcomes']
            agg['states'] |= res['states']
            agg['transitions'] |= res['transitions']
            agg['traces'] += res['traces']
            agg['harness_errors'] += res['harness_errors']
            for k, v in res['extra'].items():
                if isinstance(v, (int, float)):
                    agg['extra'][k] = agg['extra'].get(k, 0) + v
                elif isinstance(v, (set, frozenset)):
                    agg['extra'][k] = set(agg['extra'].get(k, set())) | set(v)
                elif isinstance(v, list):
                    agg['extra'].setdefault(k, []).extend(v)
                elif isinstance(v, dict):
                    d = agg['extra'].setdefault(k, {})
                    for kk, vv in v.items():
                        d[kk] = d.get(kk, 0) + vv
            agg['violations'] += res['violations']
            if res['samples']:
                agg['job_samples'].append(res['samples'])
            if os.environ.get('VERIF_STOP_AT_FIRST_VIOLATION') and res['violations']:
                # detection runs (tools/run_seeded.py, run_mutants.py) only need to know WHETHER the check alarms: stop at the first job that
                # reports a violation no known finding covers (the run is then reported as cut short, never as exhaustive)
                known_sigs = {f.sig for f in load_findings() if f.prop == prop and f.kind == 'finding'}
                if any(v['sig'] not in known_sigs for v in res['violations']):
                    cap_hit = True
                    break
    finally:
        pool.terminate()
        pool.join()

    wall_explore = time.time() - t0
    complete_labels = [l for l in labels_total if labels_done.get(l, 0) == labels_total[l]]
    exhaustive = (not cap_hit) and done_jobs == len(items) and not only_label

    # ---- violations vs. known findings
    findings = [f for f in load_findings() if f.prop == prop and f.kind == 'finding']
    known = {f.sig: f for f in findings}
    by_sig: Dict[str, List[Dict[str, Any]]] = {}
    for v in agg['violations']:
        by_sig.setdefault(v['sig'], []).append(v)
    new_sigs = [s for s in by_sig if s not in known]
    exit_code = 0
    out_lines: List[str] = []
    for f in findings:
        n = len(by_sig.get(f.sig, []))
        out_lines.append(f'KNOWN-FINDING: property={prop} sig={f.sig} {f.text} [cases matching in this run: {n}]')
    dump_known = os.environ.get('VERIF_DUMP_KNOWN')
    if dump_known:
        # exemplar replay file for every known finding matched in this run (tools/make_regressions.sh)
        os.makedirs(os.path.join(dump_known, prop), exist_ok=True)
        for s_ in by_sig:
            if s_ in known:
                v_ = min(by_sig[s_], key=lambda x: len(repr(x['case'])))
                with open(os.path.join(dump_known, prop, hashlib.sha1(s_.encode()).hexdigest()[:12] + '.json'), 'w', encoding='utf-8') as fh:
                    json.dump({'property': prop, 'sig': s_, 'what': _jsonable(v_['what']), 'case': _jsonable(v_['case'], None), 'expect': 'violation (known finding)'}, fh, indent=1, ensure_ascii=True)
    replay_dir = os.path.join(os.environ.get('VERIF_REPLAY_DIR') or os.path.join(HOME, 'replay'), prop)
    confirmed = 0
    unconfirmed: List[str] = []
    MAX_REPORT = 12
    for s in new_sigs[:MAX_REPORT]:
        v = min(by_sig[s], key=lambda x: len(repr(x['case'])))   # simplest exemplar
        os.makedirs(replay_dir, exist_ok=True)
        path = os.path.join(replay_dir, hashlib.sha1(s.encode()).hexdigest()[:12] + '.json')
        with open(path, 'w', encoding='utf-8') as fh:
            json.dump({'property': prop, 'sig': s, 'what': _jsonable(v['what']), 'case': _jsonable(v['case'], None), 'job': _jsonable(v.get('job'), None),
                       'cases_with_this_sig': len(by_sig[s]), 'tier': tier, 'repo_head': repo_head()}, fh, indent=1, ensure_ascii=True)
        # confirm in a fresh process: the same case must fail the same way again
        if os.environ.get('VERIF_NO_CONFIRM'):
            ok = True
        else:
            p = subprocess.run([os.path.join(HOME, 'check'), prop, '--replay', path], capture_output=True, text=True)
            ok = p.returncode == 1
            if not ok:
                # the simplest case may owe its failure to evaluations of an EARLIER job in its worker: try exemplars from other jobs,
                # preferring jobs in which the signature occurred most often (their own evaluations suffice to set the state up)
                per_job: Dict[str, List[Dict[str, Any]]] = {}
                for v2 in by_sig[s]:
                    per_job.setdefault(repr(v2.get('job')), []).append(v2)
                for _, vs2 in sorted(per_job.items(), key=lambda kv: -len(kv[1]))[:4]:
                    v2 = min(vs2, key=lambda x: len(repr(x['case'])))
                    with open(path, 'w', encoding='utf-8') as fh:
                        json.dump({'property': prop, 'sig': s, 'what': _jsonable(v2['what']), 'case': _jsonable(v2['case'], None), 'job': _jsonable(v2.get('job'), None),
                                   'cases_with_this_sig': len(by_sig[s]), 'tier': tier, 'repo_head': repo_head()}, fh, indent=1, ensure_ascii=True)
                    p = subprocess.run([os.path.join(HOME, 'check'), prop, '--replay', path], capture_output=True, text=True)
                    if p.returncode == 1:
                        ok, v = True, v2
                        break
        if ok:
            confirmed += 1
            out_lines.append(f'VIOLATION property={prop} replay={path}')
            out_lines.append(f'  sig={s} cases={len(by_sig[s])} :: {v["what"]}'[:600])
            if not os.environ.get('VERIF_NO_CONFIRM') and 'HISTORY-DEPENDENT' in p.stdout:
                out_lines.append('  history-dependent: the case alone passes in a fresh process; it fails after the evaluations that precede it in its job '
                                 '(state leaking between evaluations in one process) - the replay file re-runs the job')
            exit_code = 1
        else:
            unconfirmed.append(s)
            out_lines.append(f'HARNESS-ERROR property={prop} violation did not reproduce in a fresh process: sig={s} replay={path} (rc={p.returncode})')
            out_lines.append(('  ' + (p.stdout + p.stderr)[-800:]).replace('\n', '\n  '))
    if len(new_sigs) > MAX_REPORT:
        out_lines.append(f'  ... and {len(new_sigs) - MAX_REPORT} more distinct violation signatures')

    # ---- coverage
    nontrivial = len(agg['nontrivial']) + agg['nontrivial_count']
    samples: List[Any] = []
    js = agg['job_samples']
    if js:
        picks = [js[0][0], js[-1][-1], js[seed % len(js)][seed % len(js[seed % len(js)])]]
        for s_ in picks:
            s_ = _jsonable(s_)
            if s_ not in samples:
                samples.append(s_)
    coverage: Dict[str, Any] = {
        'evaluations': agg['evals'],
        'distinct_nontrivial': nontrivial,
        'rule': mod.RULE,
        'samples': samples,
        'exhaustive': bool(exhaustive),
        'space': getattr(mod, 'SPACE', {}).get(tier, '') if isinstance(getattr(mod, 'SPACE', None), dict) else getattr(mod, 'SPACE', ''),
        'bounds_completed': complete_labels,
        'bounds_incomplete': [l for l in labels_total if l not in complete_labels],
        'jobs': len(items), 'jobs_completed': done_jobs,
        'cap_s': cap, 'cap_hit': cap_hit,
        'distinct_observed_outcomes': len(agg['outcomes']),
        'violation_signatures_new': new_sigs[:50],
        'violation_cases_total': len(agg['violations']),
        'known_findings_matched': {s: len(by_sig[s]) for s in by_sig if s in known},
        'repo_head': repo_head(),
    }
    if mod.LEVEL == 'model_checking' or agg['states']:
        coverage['states'] = len(agg['states'])
        coverage['transitions'] = len(agg['transitions'])
        coverage['traces_validated_against_impl'] = agg['traces']
    for k, v in agg['extra'].items():
        coverage[k] = len(v) if isinstance(v, (set, frozenset)) else _jsonable(v)
    if hasattr(mod, 'finalize'):
        coverage.update(mod.finalize(agg, tier) or {})
    ev = {
        'property_id': prop, 'tier': tier, 'seed': seed, 'level': mod.LEVEL,
        'coverage': coverage, 'assumptions': list(mod.ASSUMPTIONS),
        'wall_s': round(time.time() - t0, 2), 'violations': len(new_sigs),
    }
    evdir = os.environ.get('VERIF_EVIDENCE_DIR') or os.path.join(HOME, 'evidence')
    os.makedirs(evdir, exist_ok=True)
    with open(os.path.join(evdir, f'{prop}.json'), 'w', encoding='utf-8') as fh:
        json.dump(ev, fh, indent=1, ensure_ascii=True, sort_keys=True)
        fh.write('\n')

    print(f'[{prop}] tier={tier} jobs={done_jobs}/{len(items)} evaluations={agg["evals"]} distinct_nontrivial={nontrivial} '
          f'outcomes={len(agg["outcomes"])} states={len(agg["states"])} transitions={len(agg["transitions"])} '
          f'exhaustive={exhaustive} cap_hit={cap_hit} wall={time.time() - t0:.1f}s (explore {wall_explore:.1f}s)')
    for l in out_lines:
        print(l)

    # ---- harness errors
    if agg['harness_errors']:
        print(f'HARNESS-ERROR property={prop} {len(agg["harness_errors"])} job(s) failed inside the harness:')
        for e in agg['harness_errors'][:5]:
            print('  ' + e.replace('\n', '\n  ')[-2500:])
        return 2 if exit_code == 0 else exit_code
    if unconfirmed and exit_code == 0:
        return 2
    floor = getattr(mod, 'FLOOR', {}).get(tier, 2)
    if exit_code == 0 and not only_label and nontrivial < floor and not cap_hit:
        print(f'HARNESS-ERROR property={prop} vacuous exploration: distinct_nontrivial={nontrivial} < floor {floor}')
        return 2
    return exit_code


def run_replay(prop: str, path: str) -> int:
    mod = importlib.import_module(f'mc.props.{prop.lower()}')
    data = json.load(open(path, encoding='utf-8'))
    signal.signal(signal.SIGALRM, _alarm)      # per-case time limits (core.time_limit) work in replays too
    if hasattr(mod, 'init_worker'):
        mod.init_worker()
    case = unjson(data['case'])
    vs = mod.replay(case)
    want = data.get('sig')
    hit = [v for v in vs if v['sig'] == want] if want else vs
    print(f'[{prop}] replay {path}: {len(vs)} violation(s), {len(hit)} with the recorded signature {want}')
    for v in (hit or vs)[:5]:
        print(f'  sig={v["sig"]} :: {v["what"]}'[:1500])
    if hit:
        print(f'VIOLATION property={prop} replay={path}')
        return 1
    if vs:
        print(f'  (other signature(s) now: {sorted(set(v["sig"] for v in vs))[:5]})')
        print(f'VIOLATION property={prop} replay={path}')
        return 1
    if data.get('job') is not None and want:
        # second stage: the evaluations of the whole job, in order, in this fresh process (a defect that needs earlier evaluations in the same process)
        global _MOD, _TIER
        _MOD, _TIER = mod, data.get('tier', 'quick')
        res = mod.run_job(_tuplify(unjson(data['job'])), _TIER)
        hit = [v for v in res['violations'] if v['sig'] == want]
        print(f'[{prop}] replay of the whole job: {len(res["violations"])} violation(s), {len(hit)} with the recorded signature')
        if hit:
            print(f'  sig={hit[0]["sig"]} :: {hit[0]["what"]}'[:1500])
            print(f'HISTORY-DEPENDENT property={prop} sig={want}')
            print(f'VIOLATION property={prop} replay={path}')
            return 1
    return 0


def _tuplify(x: Any) -> Any:
    return tuple(_tuplify(v) for v in x) if isinstance(x, list) else x
