"""Environment seam for C18: permutes what the file system lists (pathlib.Path.iterdir, os.scandir, os.listdir)
according to $VERIF_LISTORDER, without touching pydoctor's sources.  Loaded through PYTHONPATH in child processes only."""
import itertools
import os
import pathlib

_mode = os.environ.get('VERIF_LISTORDER')
if _mode:
    def _permute(items, key):
        items = sorted(items, key=key)
        n = len(items)
        if _mode == 'rev':
            items.reverse()
        elif _mode.startswith('rot'):
            k = int(_mode[3:]) % max(1, n)
            items = items[k:] + items[:k]
        elif _mode.startswith('perm'):
            # the k-th permutation (mod n!) of the sorted listing
            k = int(_mode[4:])
            if n <= 6:
                perms = list(itertools.permutations(items))
                items = list(perms[k % len(perms)])
            else:
                items = items[k % n:] + items[:k % n]
        return items

    _orig_iterdir = pathlib.Path.iterdir

    def iterdir(self):
        return iter(_permute(list(_orig_iterdir(self)), lambda p: p.name))
    pathlib.Path.iterdir = iterdir

    _orig_listdir = os.listdir

    def listdir(path='.'):
        return _permute(list(_orig_listdir(path)), lambda n: n if isinstance(n, str) else n.decode('utf-8', 'replace'))
    os.listdir = listdir

    _orig_scandir = os.scandir

    class _Scan:
        def __init__(self, path):
            with _orig_scandir(path) as it:
                self._items = _permute(list(it), lambda e: e.name if isinstance(e.name, str) else e.name.decode('utf-8', 'replace'))

        def __iter__(self):
            return iter(self._items)

        def __enter__(self):
            return self

        def __exit__(self, *a):
            return False

        def close(self):
            pass

    def scandir(path='.'):
        return _Scan(path)
    os.scandir = scandir


# ---- the clock: $VERIF_FAKE_NOW=<epoch seconds> fixes what datetime.datetime.now()/utcnow()/today() and time.time() answer
_now = os.environ.get('VERIF_FAKE_NOW')
if _now:
    import datetime as _dtmod
    import time as _time
    _t = float(_now)
    _RealDT = _dtmod.datetime

    class datetime(_RealDT):  # noqa: N801 - stands in for datetime.datetime
        @classmethod
        def now(cls, tz=None):
            return cls.fromtimestamp(_t, tz)

        @classmethod
        def utcnow(cls):
            return cls.utcfromtimestamp(_t)

        @classmethod
        def today(cls):
            return cls.fromtimestamp(_t)
    _dtmod.datetime = datetime
    _time.time = lambda: _t
