"""./check --selftest : framework sanity (imports, schemas, known-findings syntax, manifest)."""
from __future__ import annotations
import importlib, json, os, subprocess, sys

HOME = os.environ.get('VERIF_HOME', '/verif')


def validate_with_vt(instance_path: str, schema_path: str) -> str:
    code = ("import json,sys,jsonschema;"
            "jsonschema.validate(json.load(open(sys.argv[1])), json.load(open(sys.argv[2])))")
    try:
        p = subprocess.run(['python3-vt', '-c', code, instance_path, schema_path], capture_output=True, text=True, timeout=60)
    except FileNotFoundError:
        return 'skipped (python3-vt not found)'
    return 'ok' if p.returncode == 0 else 'INVALID: ' + p.stderr.strip().splitlines()[-1]


def main() -> int:
    bad = 0
    man = json.load(open(os.path.join(HOME, 'MANIFEST.json')))
    props = [json.loads(l)['id'] for l in open(os.path.join(HOME, 'properties.jsonl'))]
    claimed = [c['property_id'] for c in man['checks']]
    na = [c['property_id'] for c in man.get('not_applicable', [])]
    for p in props:
        if (p in claimed) == (p in na):
            print(f'selftest: {p} must be either claimed or not_applicable (claimed={p in claimed}, na={p in na})'); bad += 1
    for c in claimed:
        try:
            m = importlib.import_module(f'mc.props.{c.lower()}')
            for attr in ('ID', 'LEVEL', 'RULE', 'ASSUMPTIONS', 'jobs', 'run_job', 'replay'):
                assert hasattr(m, attr), attr
            n = {t: sum(1 for _ in m.jobs(t)) for t in ('quick', 'thorough')}
            print(f'selftest: {c} module ok, jobs quick={n["quick"]} thorough={n["thorough"]}')
        except Exception as e:  # noqa
            print(f'selftest: {c} module broken: {type(e).__name__}: {e}'); bad += 1
    r = validate_with_vt(os.path.join(HOME, 'MANIFEST.json'), '/root/.vp/MANIFEST.schema.json')
    print('selftest: MANIFEST.json schema:', r); bad += r.startswith('INVALID')
    for c in claimed:
        ev = os.path.join(HOME, 'evidence', f'{c}.json')
        if os.path.exists(ev):
            r = validate_with_vt(ev, '/root/.vp/EVIDENCE.schema.json')
            print(f'selftest: evidence/{c}.json schema:', r); bad += r.startswith('INVALID')
    from mc import core
    fs = core.load_findings()
    for f in fs:
        if f.prop not in props or (f.kind == 'finding' and not f.sig):
            print('selftest: malformed KNOWN_FINDINGS line for', f.prop, f.text[:60]); bad += 1
    print(f'selftest: {len(fs)} known-findings lines; {"FAILED" if bad else "ok"}')
    return 2 if bad else 0
